#!/venv/bin/python
"""Developer tool: regenerates sa/facts/local_roles.json (the reference spelling of function locals,
see sa/canon.py) from the tree given (default /repo).  Run it after a repair of /repo that is meant
to become the new reference; the file is data for a normalisation that is an alpha-renaming whatever
it contains, so a stale table can cost precision (a renamed local keeps its written name) but never
soundness."""
import ast
import json
import os
import sys

VERIF = os.path.dirname(os.path.dirname(os.path.abspath(__file__)))
sys.path.insert(0, VERIF)
from sa import canon, lispcanon, lispread  # noqa: E402

root = sys.argv[1] if len(sys.argv) > 1 else "/repo"
out = {}
n = 0
for d, _dn, fs in sorted(os.walk(os.path.join(root, "src", "basilisp"))):
    for f in sorted(fs):
        if f.endswith(".py"):
            p = os.path.join(d, f)
            rel = os.path.relpath(p, root)
            t = canon.reference_table(ast.parse(open(p, encoding="utf-8").read()))
            if t:
                out[rel] = t
                n += sum(len(v) for v in t.values())
with open(canon.ROLES_PATH, "w", encoding="utf-8") as fh:
    json.dump(out, fh, indent=0, sort_keys=True)
# the module-level functions of the reference tree: helpers the rules know as calls (never inlined by
# canon.inline_expression_helpers)
mf = {}
for d, _dn, fs in sorted(os.walk(os.path.join(root, "src", "basilisp"))):
    for f in sorted(fs):
        if f.endswith(".py"):
            p = os.path.join(d, f)
            t = ast.parse(open(p, encoding="utf-8").read())
            mf[os.path.relpath(p, root)] = sorted(x.name for x in t.body if isinstance(x, ast.FunctionDef))
with open(canon.MODULE_FUNCTIONS_PATH, "w", encoding="utf-8") as fh:
    json.dump(mf, fh, indent=0, sort_keys=True)
print(f"{len(out)} modules, {sum(len(v) for v in out.values())} functions, {n} binding sites -> {canon.ROLES_PATH}")

lout = {}
ln = 0
for d, _dn, fs in sorted(os.walk(os.path.join(root, "src", "basilisp"))):
    for f in sorted(fs):
        if f.endswith(".lpy"):
            p = os.path.join(d, f)
            rel = os.path.relpath(p, root)
            t = lispcanon.reference_table(lispread.read_all(open(p, encoding="utf-8").read(), rel))
            if t:
                lout[rel] = t
                ln += sum(len(v) for v in t.values())
with open(lispcanon.ROLES_PATH, "w", encoding="utf-8") as fh:
    json.dump(lout, fh, indent=0, sort_keys=True)
print(f"{len(lout)} .lpy files, {sum(len(v) for v in lout.values())} top-level forms, {ln} let-like binding sites -> {lispcanon.ROLES_PATH}")
