#!/usr/bin/env python3
"""Developer tool: builds /verif/seeded/<Cxx>-<a|b|c|d>/ from a sub-agent's deliverables
(/tmp/seedout/Cxx/{a,b}: patch.diff, demo.py, meta.json) and my own confirmation log
(/tmp/confirm/Cxx-a.log written by tools/confirm_seed.sh), and records which rule of which
property detects the change on an overlay of the current tree.

A seed is kept only if my confirmation shows: demo exit 0 on the unchanged tree, exit != 0 with
the patch.  usage: import_seeds.py [history.json]
"""
import json
import os
import re
import shutil
import subprocess
import sys

VERIF = os.path.dirname(os.path.dirname(os.path.abspath(__file__)))
OUT = os.environ.get("SEED_OUT", "/tmp/seedout")
CONF = os.environ.get("SEED_CONF", "/tmp/confirm")
# round 3 deliverables a/b are stored as <Cxx>-c / <Cxx>-d:  SEED_RENAME="a=c,b=d"
RENAME = dict(x.split("=") for x in os.environ.get("SEED_RENAME", "").split(",") if x)
history = json.load(open(sys.argv[1])) if len(sys.argv) > 1 else {}

head = os.environ.get("SEED_HEAD") or subprocess.check_output(["git", "-C", "/repo", "rev-parse", "--short", "HEAD"], text=True).strip()
kept, dropped = [], []
for prop in sorted(os.listdir(OUT)):
    if not re.fullmatch(r"C\d\d", prop):
        continue
    for v in ("a", "b"):
        src = os.path.join(OUT, prop, v)
        sid = f"{prop}-{RENAME.get(v, v)}"
        log = os.path.join(CONF, f"{prop}-{v}.log")
        if not (os.path.exists(os.path.join(src, "patch.diff")) and os.path.exists(log)):
            continue
        txt = open(log).read()
        m = re.search(r"--- demo on unchanged tree(.*?)--- demo with patch(.*?)(?:--- tests|$)", txt, re.S)
        if "PATCH DOES NOT APPLY" in txt or not m:
            dropped.append((sid, "patch does not apply to the current tree"))
            continue
        e0 = re.search(r"^exit=(\d+)", m.group(1), re.M)
        e1 = re.search(r"^exit=(\d+)", m.group(2), re.M)
        if not (e0 and e1) or e0.group(1) != "0" or e1.group(1) == "0" or e1.group(1) == "124":
            dropped.append((sid, f"demo outcome unchanged={e0.group(1) if e0 else '?'} patched={e1.group(1) if e1 else '?'} (needs 0 / non-zero)"))
            continue
        suite = re.search(r"--- tests with patch: full baseline suite\n(.*?)\n(stable_pass: \d+; passing now: \d+; missing: (\d+))", txt, re.S)
        if suite and suite.group(3) != "0":
            dropped.append((sid, f"the existing suite does not pass with the patch: {suite.group(2)}"))
            continue
        r = subprocess.run([sys.executable, os.path.join(VERIF, "tools", "try_seed.py"), os.path.join(src, "patch.diff"), prop], capture_output=True, text=True)
        rules = sorted(set(re.findall(r"(C\d\d\.R\d+) VIOLATED", r.stdout)))
        rc = re.search(r"exit (\d)", r.stdout)
        dst = os.path.join(VERIF, "seeded", sid)
        os.makedirs(dst, exist_ok=True)
        shutil.copy(os.path.join(src, "patch.diff"), dst)
        shutil.copy(os.path.join(src, "demo.py"), dst)
        am = json.load(open(os.path.join(src, "meta.json")))
        meta = {
            "id": sid,
            "property": prop,
            "breaks": am.get("summary", ""),
            "needs_to_manifest": am.get("needs_to_manifest", ""),
            "how_demo_forces_it": am.get("how_demo_forces_it", ""),
            "files_changed": am.get("files_changed", []),
            "author": "independent sub-agent given only the property text and a scratch worktree",
            "what_i_ran": {
                "confirmation": f"tools/confirm_seed.sh seeded/{sid} in a scratch worktree of /repo at {head}: demo on the unchanged tree -> exit {e0.group(1)}; `git apply patch.diff` then demo -> exit {e1.group(1)}",
                "demo_tail_unchanged": [l for l in m.group(1).strip().splitlines() if l][-3:],
                "demo_tail_patched": [l for l in m.group(2).strip().splitlines() if l][-3:],
                "suite_with_patch (as run by the sub-agent)": am.get("tests_run", ""),
                **({"suite_with_patch (full baseline suite, run by me in a scratch worktree)": suite.group(2)} if suite else {}),
                "check": f"tools/try_seed.py seeded/{sid}/patch.diff {prop} (patch applied to an overlay copy of the touched files, quick check) -> exit {rc.group(1) if rc else '?'}",
            },
            "detected_by": rules,
            "detection_history": history.get(sid, ""),
        }
        json.dump(meta, open(os.path.join(dst, "meta.json"), "w"), indent=1, ensure_ascii=False)
        kept.append((sid, rules))
for sid, rules in kept:
    print("kept", sid, rules or "NOT DETECTED")
for sid, why in dropped:
    print("dropped", sid, why)
