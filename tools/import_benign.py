#!/usr/bin/env python3
"""Developer tool: builds /verif/benign/<Cxx>-<a|b>/ (patch.diff, meta.json) from the deliverables of the
benign-refactoring round (/tmp/benign/Cxx/{a,b}) and the result matrix of tools-side runs
(/tmp/benign/results2/<id>.txt: all 20 quick checks on an overlay with the patch).
meta.json records, per patch: which checks stay silent and which raise a (false) alarm, by rule."""
import json, os, re, shutil, sys
VERIF = os.path.dirname(os.path.dirname(os.path.abspath(__file__)))
SRC, RES = "/tmp/benign", sys.argv[1] if len(sys.argv) > 1 else "/tmp/benign/results2"
first = json.load(open(sys.argv[2])) if len(sys.argv) > 2 else {}
rows = []
for f in sorted(os.listdir(RES)):
    sid = f[:-4]
    prop, v = sid.split("-")
    d = os.path.join(SRC, prop, v)
    txt = open(os.path.join(RES, f)).read()
    if "done " not in txt:
        print("incomplete", sid); continue
    alarms = {}
    for blk in re.split(r"^== ", txt, flags=re.M)[1:]:
        p = blk[:3]
        rules = sorted(set(re.findall(r"(C\d\d\.R\d+) VIOLATED", blk))) or (["ANALYSIS-ERROR"] if "ANALYSIS-ERROR" in blk else ["?"])
        alarms[p] = rules
    am = json.load(open(os.path.join(d, "meta.json")))
    dst = os.path.join(VERIF, "benign", sid)
    os.makedirs(dst, exist_ok=True)
    shutil.copy(os.path.join(d, "patch.diff"), dst)
    meta = {"id": sid, "authored_for": prop, "summary": am.get("summary", ""), "why_behaviour_preserving": am.get("why_behaviour_preserving", ""),
            "tests_run (by the sub-agent)": am.get("tests_run", ""), "files_changed": am.get("files_changed", []),
            "author": "independent sub-agent given only the property text and a scratch worktree, asked for a behaviour-preserving refactoring",
            "false_alarms_now": alarms, "false_alarms_at_first": first.get(sid, {}),
            "silent_for": [f"C{i:02d}" for i in range(1, 21) if f"C{i:02d}" not in alarms]}
    json.dump(meta, open(os.path.join(dst, "meta.json"), "w"), indent=1, ensure_ascii=False)
    rows.append((sid, alarms))
for sid, al in rows:
    print(sid, "silent" if not al else al)
print(f"{len(rows)} patches; {sum(1 for _s, a in rows if a)} still raise a false alarm")
