#!/usr/bin/env python3
"""port_seed.py <seed-dir> <file-rel> <edits.json>: re-creates a seeded patch against the current
/repo tree from a list of [old, new] text replacements (each `old` must occur exactly once); the
previous patch is kept as patch_original.diff (first port only)."""
import json, os, subprocess, sys, tempfile, shutil
seed, rel, edits = sys.argv[1], sys.argv[2], json.load(open(sys.argv[3]))
tmp = tempfile.mkdtemp(prefix="port_")
try:
    for side in ("a", "b"):
        d = os.path.join(tmp, side, os.path.dirname(rel)); os.makedirs(d)
        shutil.copy(os.path.join("/repo", rel), d)
    p = os.path.join(tmp, "b", rel); s = open(p).read()
    for old, new in edits:
        assert s.count(old) == 1, (s.count(old), old[:60])
        s = s.replace(old, new)
    open(p, "w").write(s)
    r = subprocess.run(["diff", "-u", os.path.join("a", rel), os.path.join("b", rel)], cwd=tmp, capture_output=True, text=True)
    lines = r.stdout.splitlines(keepends=True)
    lines[0] = f"--- a/{rel}\n"; lines[1] = f"+++ b/{rel}\n"
    out = f"diff --git a/{rel} b/{rel}\n" + "".join(lines)
    orig = os.path.join(seed, "patch_original.diff")
    if not os.path.exists(orig):
        shutil.copy(os.path.join(seed, "patch.diff"), orig)
    open(os.path.join(seed, "patch.diff"), "w").write(out)
    print("ported", seed, len(lines), "lines")
finally:
    shutil.rmtree(tmp)
