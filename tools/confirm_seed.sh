#!/bin/sh
# confirm_seed.sh <seed dir with patch.diff + demo.py> [pytest targets...]
# Confirms, in a scratch worktree of /repo HEAD (removed afterwards), that the demo passes on the
# unchanged tree, fails with the patch, and that the given test targets still pass with the patch.
set -u
SEED="$(cd "$1" && pwd)"; shift
WT="$(mktemp -d /tmp/confirm_XXXXXX)"; rmdir "$WT"
git -C /repo worktree add -q --detach "$WT" HEAD || exit 3
cp /repo/src/basilisp/_lang.abi3.so "$WT/src/basilisp/" 2>/dev/null
run_demo() {
  (cd "$WT" && env -u PYTHONDONTWRITEBYTECODE PYTHONPATH="$WT/src" timeout 900 /venv/bin/python "$SEED/demo.py" > "$WT/.demo_out" 2>&1; echo "exit=$?" >> "$WT/.demo_out")
  grep -v "WARNING conda" "$WT/.demo_out" | tail -4
}
echo "--- demo on unchanged tree"; run_demo
if ! git -C "$WT" apply "$SEED/patch.diff"; then echo "PATCH DOES NOT APPLY"; git -C /repo worktree remove --force "$WT"; exit 4; fi
echo "--- demo with patch"; run_demo
if [ $# -gt 0 ]; then
  echo "--- tests with patch: $*"
  (cd "$WT" && env -u PYTHONDONTWRITEBYTECODE PYTHONPATH="$WT/src" timeout 3000 /venv/bin/python -m pytest -q -p no:cacheprovider "$@" 2>&1 | tail -2)
fi
git -C /repo worktree remove --force "$WT"
