#!/usr/bin/env python3
"""Developer tool: runs the checks against the alpha-renamed tree (sa/alpha.py) and prints the rules
whose verdicts differ.  usage: alpha_twin.py [Cxx ...] [--keep DIR]"""
import collections
import os
import shutil
import sys
import tempfile

VERIF = os.path.dirname(os.path.dirname(os.path.abspath(__file__)))
sys.path.insert(0, VERIF)
from sa import alpha, canon, core, lispcanon  # noqa: E402
from sa.run import analyse  # noqa: E402

root = "/repo"
args = [a for a in sys.argv[1:] if not a.startswith("--")]
props = args or [f"C{i:02d}" for i in range(1, 21)]
tmp = tempfile.mkdtemp(prefix="sa_alpha_")
n = 0
for d, _dn, fs in os.walk(os.path.join(root, "src", "basilisp")):
    for f in fs:
        if f.endswith(".py"):
            p = os.path.join(d, f)
            out, k = alpha.rename_locals(open(p, encoding="utf-8").read(), kw_names=canon.package_keyword_names(root))
            n += k
            dst = os.path.join(tmp, os.path.relpath(p, root))
            os.makedirs(os.path.dirname(dst), exist_ok=True)
            open(dst, "w", encoding="utf-8").write(out)
ln = 0
if "--no-lisp" not in sys.argv:
    for d, _dn, fs in os.walk(os.path.join(root, "src", "basilisp")):
        for f in fs:
            if f.endswith(".lpy"):
                p = os.path.join(d, f)
                rel = os.path.relpath(p, root)
                out, k = lispcanon.rename_locals(open(p, encoding="utf-8").read(), rel)
                ln += k
                dst = os.path.join(tmp, rel)
                os.makedirs(os.path.dirname(dst), exist_ok=True)
                open(dst, "w", encoding="utf-8").write(out)
print(f"{n} python locals, {ln} lisp locals renamed; overlay {tmp}")
known = core.load_known()
for prop in props:
    try:
        ref, _p, _m = analyse(prop, "quick", root, known=known)
        ctx, _p, _m = analyse(prop, "quick", root, overlay=tmp, known=known)
    except core.AnalysisError as ex:
        print(prop, "ANALYSIS-ERROR", ex)
        continue
    a = collections.Counter((o.rule, o.status) for o in ref.obligations)
    b = collections.Counter((o.rule, o.status) for o in ctx.obligations)
    if a == b:
        print(prop, "same", sum(a.values()))
    else:
        print(prop, "DIFF", sorted((a - b).items()), "->", sorted((b - a).items()))
        for o in ctx.obligations:
            if o.status == "violated":
                print("    ", o.rule, o.instance[:100], "::", (o.detail or "")[:240])
if "--keep" in sys.argv:
    print("kept", tmp)
else:
    shutil.rmtree(tmp, ignore_errors=True)
