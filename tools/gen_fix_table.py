#!/usr/bin/env python3
"""Regenerates the table of hunting-phase repairs in DESIGN.md (between the fix-table markers) from
known_findings.json and /repo's git log: one row per `fix:` commit after 15436ed, in commit order.
Usage: gen_fix_table.py [--write]   (without --write: prints the table; exits 1 if a fix commit has no record)"""
import json, os, subprocess, sys
V = os.path.dirname(os.path.dirname(os.path.abspath(__file__)))
k = json.load(open(os.path.join(V, "known_findings.json")))["findings"]
log = subprocess.run(["git", "-C", "/repo", "log", "--format=%h %s", "15436ed..HEAD", "--reverse"], capture_output=True, text=True).stdout.strip().splitlines()
by = {}
for f in k:
    if f.get("status") == "fixed":
        by.setdefault(f["commit"][:7], []).append(f)
rows, missing = ["| commit | property / rule | what failed before the repair |", "|---|---|---|"], []
for line in log:
    h, subj = line.split(" ", 1)
    if not subj.startswith("fix:"):
        continue
    fs = by.get(h[:7])
    if not fs:
        missing.append(line)
        continue
    rules = ", ".join(sorted({f["rule"] for f in fs}))
    what = " / ".join(dict.fromkeys(f["what_failed"] for f in fs)).replace("|", "\\|")
    rows.append(f"| `{h[:7]}` | {rules} | {what} |")
table = "\n".join(rows) + "\n"
if missing:
    print("fix commits without a `fixed` record:", *missing, sep="\n  ")
if "--write" in sys.argv:
    p = os.path.join(V, "DESIGN.md")
    s = open(p).read()
    a, b = "<!-- fix-table:begin -->\n", "<!-- fix-table:end -->"
    i, j = s.index(a) + len(a), s.index(b)
    open(p, "w").write(s[:i] + table + s[j:])
    print(f"wrote {len(rows) - 2} rows")
else:
    print(table)
sys.exit(1 if missing else 0)
