#!/usr/bin/env python3
"""Developer tool (never used by a check): appends the *current* violations of a property to
known_findings.json as status=known entries, for a human to review and annotate.

usage: record_known.py Cxx "why not fixed"
"""
import json
import os
import sys

VERIF = os.path.dirname(os.path.dirname(os.path.abspath(__file__)))
sys.path.insert(0, VERIF)
from sa import core  # noqa: E402
from sa.run import analyse  # noqa: E402

prop, why = sys.argv[1], sys.argv[2]
path = os.path.join(VERIF, "known_findings.json")
data = json.load(open(path))
ctx, _per, _mod = analyse(prop, "quick", core.DEFAULT_REPO)
have = {(f["rule"], core.norm_ws(f["instance"])) for f in data["findings"] if f.get("status") == "known"}
n = 0
for o in ctx.obligations:
    if o.status == "violated" and (o.rule, o.instance) not in have:
        data["findings"].append({"property": prop, "rule": o.rule, "status": "known", "instance": o.instance,
                                 "what_fails": o.detail, "witness": o.witness, "why_not_fixed": why})
        n += 1
with open(path, "w") as f:
    f.write('{"findings": [\n')
    f.write(",\n".join(" " + json.dumps(x, ensure_ascii=False) for x in data["findings"]))
    f.write("\n]}\n")
print(f"recorded {n} finding(s) for {prop}")
