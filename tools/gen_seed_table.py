#!/usr/bin/env python3
"""Developer tool: prints the markdown table of DESIGN.md section 10 from /verif/seeded/*/meta.json
and, with --write, replaces the text between the markers <!-- seed-table:begin --> and
<!-- seed-table:end --> in DESIGN.md."""
import glob
import json
import os
import sys

VERIF = os.path.dirname(os.path.dirname(os.path.abspath(__file__)))


def cell(s, n):
    s = " ".join(str(s).split()).replace("|", "/")
    return s if len(s) <= n else s[: n - 1] + "…"


rows = ["| seed | files | needs, to manifest | detected by | history |", "|---|---|---|---|---|"]
stats = {"as written": 0, "with seed knowledge": 0, "missed at first": 0}
for mp in sorted(glob.glob(os.path.join(VERIF, "seeded", "*", "meta.json"))):
    m = json.load(open(mp))
    files = ", ".join(os.path.basename(f) for f in m.get("files_changed", []))
    hist = m.get("detection_history", "")
    h = hist.lower()
    if "missed" in h or "analysis-error" in h or "over-exact" in h or "exact-text" in h or "exact text" in h:
        stats["missed at first"] += 1
    elif "knowledge of the seed" in h or "after reading the seed" in h or "with knowledge" in h:
        stats["with seed knowledge"] += 1
    else:
        stats["as written"] += 1
    rows.append(f"| {m['id']} | {cell(files, 40)} | {cell(m.get('needs_to_manifest', ''), 170)} | {', '.join(m.get('detected_by') or ['NOT DETECTED'])} | {cell(hist, 260)} |")
table = "\n".join(rows)
summary = f"{len(rows) - 2} seeds: {stats['as written']} caught by rules as first written, {stats['with seed knowledge']} by sub-rules written with knowledge of the seed, {stats['missed at first']} missed (or caught only by an over-exact match / an analysis error) at first."
if "--write" in sys.argv:
    p = os.path.join(VERIF, "DESIGN.md")
    s = open(p).read()
    b, e = "<!-- seed-table:begin -->", "<!-- seed-table:end -->"
    i, j = s.index(b), s.index(e)
    s = s[: i + len(b)] + "\n" + summary + "\n\n" + table + "\n" + s[j:]
    open(p, "w").write(s)
    print(summary)
else:
    print(summary)
    print(table)
