#!/usr/bin/env python3
"""Applies a seeded patch to a scratch copy of the files it touches (an overlay directory, never
/repo itself), runs the property's quick check against the overlay, and prints the outcome.

usage: try_seed.py <patch.diff> <Cxx> [<Cyy> ...]     (or `all` for every claimed property)
"""
import json
import os
import re
import shutil
import subprocess
import sys
import tempfile

VERIF = os.path.dirname(os.path.dirname(os.path.abspath(__file__)))
REPO = os.environ.get("VERIF_REPO", "/repo")


def main():
    patch = os.path.abspath(sys.argv[1])
    props = sys.argv[2:]
    if props == ["all"]:
        man = json.load(open(os.path.join(VERIF, "MANIFEST.json")))
        props = [c["property_id"] for c in man["checks"]]
    files = re.findall(r"^\+\+\+ b/(.+)$", open(patch).read(), re.M)
    tmp = tempfile.mkdtemp(prefix="seed_overlay_")
    try:
        for f in files:
            dst = os.path.join(tmp, f)
            os.makedirs(os.path.dirname(dst), exist_ok=True)
            shutil.copy(os.path.join(REPO, f), dst)
        r = subprocess.run(["patch", "-p1", "-s", "--no-backup-if-mismatch", "-d", tmp, "-i", patch], capture_output=True, text=True)
        if r.returncode != 0:
            print("PATCH DOES NOT APPLY:", r.stdout[-400:], r.stderr[-400:])
            return 3
        rc_all = 0
        for p in props:
            r = subprocess.run([os.path.join(VERIF, "check"), p, "quick", "--overlay", tmp, "--no-evidence"], capture_output=True, text=True)
            viol = [l for l in r.stdout.splitlines() if "VIOLATED" in l or l.startswith("ANALYSIS-ERROR")]
            print(f"{p}: exit {r.returncode}")
            for l in viol[:6]:
                print("   ", l.strip()[:300])
            rc_all = max(rc_all, r.returncode)
        return 0
    finally:
        shutil.rmtree(tmp, ignore_errors=True)


if __name__ == "__main__":
    sys.exit(main())
