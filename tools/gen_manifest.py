#!/usr/bin/env python3
"""Regenerates MANIFEST.json from the rule modules present under sa/rules (claimed properties)
and tools/not_applicable.json (declined ones, with reasons)."""
import importlib, json, os, sys
HERE = os.path.dirname(os.path.dirname(os.path.abspath(__file__)))
sys.path.insert(0, HERE)
props = [json.loads(l) for l in open(os.path.join(HERE, "properties.jsonl"))]
na = json.load(open(os.path.join(HERE, "tools", "not_applicable.json")))
checks = []
not_app = []
for p in props:
    pid = p["id"]
    if os.path.exists(os.path.join(HERE, "sa", "rules", f"{pid}.py")) and pid not in na:
        m = importlib.import_module(f"sa.rules.{pid}")
        checks.append({
            "property_id": pid,
            "quick_cmd": f"./check {pid} quick",
            "thorough_cmd": f"./check {pid} thorough",
            "evidence_file": f"/verif/evidence/{pid}.json",
            "replay_cmd_template": f"./check {pid} --replay {{path}}",
            "engine": "sa",
            "level_claimed": {
                "category": "other",
                "text": "Static analysis of the current source: " + m.DECIDES + ". Decides these structural clauses on every path of the code (all inputs/schedules), not the runtime behaviour itself. Declined: " + m.DECLINED,
                "design_ref": f"DESIGN.md section 3, {pid}",
            },
            "level_note": "Trusted: " + "; ".join(getattr(m, "TRUSTED", [])) + ". Assumes: " + "; ".join(getattr(m, "ASSUMPTIONS", []) or ["CPython semantics of the interpreted constructs"]),
            "technique": getattr(m, "TECHNIQUE", "repository-specific static rules over Python AST/CFG and .lpy s-expressions"),
        })
    else:
        not_app.append({"property_id": pid, "reason": na.get(pid, "checker not built yet")})
man = {
    "version": 1,
    "setup_cmd": "true",
    "hooks": {
        "guard": "BASILISP_VERIF",
        "enable": "none needed: the checks never execute basilisp, they parse /repo's working tree",
        "baseline_off_cmd": "cd /repo && /venv/bin/python -m pytest -ra -q -p no:cacheprovider --timeout=900 --continue-on-collection-errors",
        "source_commits": [],
        "add_only": True,
    },
    "engines": [{
        "name": "sa",
        "path": "/verif/sa",
        "serves_properties": [c["property_id"] for c in checks],
        "kind_free_text": "custom static analysis (Python ast + own CFG, own .lpy s-expression reader, own Rust scanner); no execution of the code under analysis",
    }],
    "checks": checks,
    "notes": "exit 0 = all obligations discharged or listed in /verif/known_findings.json (KNOWN-FINDING lines); exit 1 = VIOLATION; exit 2 = ANALYSIS-ERROR (anchor vanished / floor not met). fix: commits in /repo are recorded as status=fixed entries in known_findings.json.",
    "not_applicable": not_app,
}
json.dump(man, open(os.path.join(HERE, "MANIFEST.json"), "w"), indent=1)
print(f"{len(checks)} checks, {len(not_app)} not applicable")
