#!/usr/bin/env python3
"""Runs the repository's baseline suite on a tree (default /repo) and compares with the
stable_pass list of /root/.vp/BASELINE.json.  Usage: baseline_check.py [tree] [--xml FILE]"""
import json, os, subprocess, sys, tempfile, xml.etree.ElementTree as ET
tree = sys.argv[1] if len(sys.argv) > 1 and not sys.argv[1].startswith("--") else "/repo"
xml = tempfile.mktemp(suffix=".xml", prefix="baseline_")
env = dict(os.environ, PYTHONPATH=os.path.join(tree, "src"))
cmd = ["/venv/bin/python", "-m", "pytest", "-ra", "-q", "-p", "no:cacheprovider", "--timeout=900", "--continue-on-collection-errors", f"--junitxml={xml}"]
r = subprocess.run(cmd, cwd=tree, env=env, stdout=subprocess.PIPE, stderr=subprocess.STDOUT, text=True)
print(r.stdout.strip().splitlines()[-1])
passed = set()
for tc in ET.parse(xml).getroot().iter("testcase"):
    if not any(ch.tag in ("failure", "error", "skipped") for ch in tc):
        passed.add(f"{tc.get('classname')}::{tc.get('name')}")
os.unlink(xml)
stable = set(json.load(open("/root/.vp/BASELINE.json"))["stable_pass"])
missing = sorted(stable - passed)
print(f"stable_pass: {len(stable)}; passing now: {len(stable & passed)}; missing: {len(missing)}")
for m in missing[:40]:
    print("  MISSING", m)
sys.exit(1 if missing else 0)
