#!/usr/bin/env python3
"""stage_hunks.py <repo> <file> <i,j,...>: stages only the listed (0-based) hunks of the working-tree
diff of <file> (git add -p without the prompt)."""
import re, subprocess, sys
repo, path, idx = sys.argv[1], sys.argv[2], {int(x) for x in sys.argv[3].split(",")}
d = subprocess.run(["git", "-C", repo, "diff", "-U3", "--", path], capture_output=True, text=True).stdout
head, *hunks = re.split(r"(?m)^(?=@@ )", d)
if len(sys.argv) > 4:
    for i, h in enumerate(hunks):
        print(i, h.splitlines()[0])
    sys.exit(0)
patch = head + "".join(h for i, h in enumerate(hunks) if i in idx)
r = subprocess.run(["git", "-C", repo, "apply", "--cached", "--recount", "-"], input=patch, text=True, capture_output=True)
print(r.stderr or "staged", sorted(idx))
