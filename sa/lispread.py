"""A small, independent s-expression reader for .lpy sources (the repository's own reader is
itself under analysis).  Every node keeps (line, col).  Syntax-quote etc. stay tagged nodes.
"""
from __future__ import annotations

import re
from typing import Any, Iterator, Optional


class ReadError(Exception):
    pass


class Form:
    __slots__ = ("line", "col", "meta", "parent")
    kind = "form"

    def __init__(self, line, col):
        self.line = line
        self.col = col
        self.meta = None
        self.parent = None

    def children(self) -> list["Form"]:
        return []

    def text(self) -> str:
        raise NotImplementedError

    def __repr__(self):
        return f"<{self.kind} {self.text()[:70]} @{self.line}>"


class Atom(Form):
    __slots__ = ("val",)

    def __init__(self, val, line, col):
        super().__init__(line, col)
        self.val = val


class Sym(Atom):
    kind = "sym"

    def text(self):
        return self.val

    @property
    def name(self):
        v = self.val
        if "/" in v and v != "/" and not v.endswith("/"):
            return v.split("/", 1)[1]
        return v

    @property
    def ns(self):
        v = self.val
        if "/" in v and v != "/" and not v.endswith("/"):
            return v.split("/", 1)[0]
        return None


class Kw(Atom):
    kind = "kw"

    def text(self):
        return ":" + self.val


class Str(Atom):
    kind = "str"

    def text(self):
        return '"' + self.val + '"'  # raw (still escaped) text


class Num(Atom):
    kind = "num"

    def text(self):
        return self.val


class Char(Atom):
    kind = "char"

    def text(self):
        return "\\" + self.val


class Regex(Atom):
    kind = "regex"

    def text(self):
        return '#"' + self.val + '"'


class Coll(Form):
    __slots__ = ("items",)
    open = "("
    close = ")"

    def __init__(self, items, line, col):
        super().__init__(line, col)
        self.items = items
        for i in items:
            i.parent = self

    def children(self):
        return self.items

    def text(self):
        return self.open + " ".join(i.text() for i in self.items) + self.close

    def __len__(self):
        return len(self.items)

    def __getitem__(self, i):
        return self.items[i]

    def __iter__(self):
        return iter(self.items)


class List(Coll):
    kind = "list"


class Vec(Coll):
    kind = "vec"
    open = "["
    close = "]"


class Map(Coll):
    kind = "map"
    open = "{"
    close = "}"

    def pairs(self):
        return list(zip(self.items[0::2], self.items[1::2]))

    def get(self, key_text: str):
        for k, v in self.pairs():
            if k.text() == key_text:
                return v
        return None


class Set(Coll):
    kind = "set"
    open = "#{"
    close = "}"


class FnLit(Coll):
    kind = "fnlit"
    open = "#("
    close = ")"


class Wrap(Form):
    """quote ' , syntax-quote ` , unquote ~ , unquote-splice ~@ , deref @ , var #' """

    __slots__ = ("tag", "form")
    kind = "wrap"
    PREFIX = {"quote": "'", "syntax-quote": "`", "unquote": "~", "unquote-splicing": "~@", "deref": "@", "var": "#'"}

    def __init__(self, tag, form, line, col):
        super().__init__(line, col)
        self.tag = tag
        self.form = form
        form.parent = self

    def children(self):
        return [self.form]

    def text(self):
        return self.PREFIX[self.tag] + self.form.text()


class Tagged(Form):
    __slots__ = ("tag", "form")
    kind = "tagged"

    def __init__(self, tag, form, line, col):
        super().__init__(line, col)
        self.tag = tag
        self.form = form
        form.parent = self

    def children(self):
        return [self.form]

    def text(self):
        return "#" + self.tag + " " + self.form.text()


class ReaderCond(Form):
    __slots__ = ("splice", "clauses")
    kind = "readercond"

    def __init__(self, splice, clauses, line, col):
        super().__init__(line, col)
        self.splice = splice
        self.clauses = clauses  # list of (Kw, Form)
        for k, f in clauses:
            k.parent = self
            f.parent = self

    def children(self):
        return [f for _k, f in self.clauses]

    def select(self):
        """The :lpy branch, else :default, else None."""
        for want in ("lpy", "default"):
            for k, f in self.clauses:
                if k.val == want:
                    return f
        return None

    def text(self):
        return ("#?@(" if self.splice else "#?(") + " ".join(k.text() + " " + f.text() for k, f in self.clauses) + ")"


_SYM_END = set(' \t\r\n,()[]{}";')
_WS = set(" \t\r\n,")
_NUM = re.compile(r"^[+-]?(\d|\.\d)")


class _R:
    def __init__(self, s: str, rel: str):
        self.s = s
        self.i = 0
        self.line = 1
        self.col = 0
        self.rel = rel

    def peek(self, k=0):
        j = self.i + k
        return self.s[j] if j < len(self.s) else ""

    def adv(self):
        c = self.s[self.i]
        self.i += 1
        if c == "\n":
            self.line += 1
            self.col = 0
        else:
            self.col += 1
        return c

    def err(self, msg):
        raise ReadError(f"{self.rel}:{self.line}:{self.col}: {msg}")

    def skip_ws(self):
        while self.i < len(self.s):
            c = self.peek()
            if c in _WS:
                self.adv()
            elif c == ";":
                while self.i < len(self.s) and self.peek() != "\n":
                    self.adv()
            elif c == "#" and self.peek(1) == "!":
                while self.i < len(self.s) and self.peek() != "\n":
                    self.adv()
            else:
                break

    def read_delim(self, close):
        items = []
        while True:
            self.skip_ws()
            if self.i >= len(self.s):
                self.err(f"EOF looking for {close}")
            if self.peek() == close:
                self.adv()
                return items
            f = self.read()
            if f is not None:
                items.append(f)

    def read_string_body(self):
        out = []
        while True:
            if self.i >= len(self.s):
                self.err("EOF in string")
            c = self.adv()
            if c == "\\":
                out.append(c)
                out.append(self.adv())
            elif c == '"':
                return "".join(out)
            else:
                out.append(c)

    def read_token(self):
        out = []
        while self.i < len(self.s) and self.peek() not in _SYM_END:
            out.append(self.adv())
        return "".join(out)

    def read(self) -> Optional[Form]:
        """Reads one form; returns None for a discarded form (#_)."""
        self.skip_ws()
        if self.i >= len(self.s):
            self.err("EOF")
        line, col = self.line, self.col
        c = self.peek()
        if c == "(":
            self.adv()
            return List(self.read_delim(")"), line, col)
        if c == "[":
            self.adv()
            return Vec(self.read_delim("]"), line, col)
        if c == "{":
            self.adv()
            return Map(self.read_delim("}"), line, col)
        if c in ")]}":
            self.err(f"unexpected {c}")
        if c == '"':
            self.adv()
            return Str(self.read_string_body(), line, col)
        if c == "'":
            self.adv()
            return Wrap("quote", self.read_required(), line, col)
        if c == "`":
            self.adv()
            return Wrap("syntax-quote", self.read_required(), line, col)
        if c == "~":
            self.adv()
            if self.peek() == "@":
                self.adv()
                return Wrap("unquote-splicing", self.read_required(), line, col)
            return Wrap("unquote", self.read_required(), line, col)
        if c == "@":
            self.adv()
            return Wrap("deref", self.read_required(), line, col)
        if c == "^":
            self.adv()
            m = self.read_required()
            f = self.read_required()
            f.meta = (f.meta or []) + [m]
            m.parent = f
            return f
        if c == "\\":
            self.adv()
            ch = self.adv()
            tok = ch
            if ch.isalnum():
                tok += self.read_token()
            return Char(tok, line, col)
        if c == "#":
            n = self.peek(1)
            if n == "{":
                self.adv(); self.adv()
                return Set(self.read_delim("}"), line, col)
            if n == "(":
                self.adv(); self.adv()
                return FnLit(self.read_delim(")"), line, col)
            if n == '"':
                self.adv(); self.adv()
                return Regex(self.read_string_body(), line, col)
            if n == "'":
                self.adv(); self.adv()
                return Wrap("var", self.read_required(), line, col)
            if n == "_":
                self.adv(); self.adv()
                self.read_required()
                return None
            if n == "?":
                self.adv(); self.adv()
                splice = False
                if self.peek() == "@":
                    self.adv()
                    splice = True
                self.skip_ws()
                if self.peek() != "(":
                    self.err("reader conditional needs a list")
                self.adv()
                items = self.read_delim(")")
                if len(items) % 2:
                    self.err("odd reader conditional")
                return ReaderCond(splice, list(zip(items[0::2], items[1::2])), line, col)
            if n == "#":
                self.adv(); self.adv()
                tok = self.read_token()
                return Sym("##" + tok, line, col)
            if n == ":":
                self.adv()
                kwf = self.read_required()
                m = self.read_required()
                return Tagged(kwf.text(), m, line, col)
            if n == "^":
                self.adv()
                return self.read()
            # tagged literal  #py [] / #b "" / #inst ""
            self.adv()
            tag = self.read_token()
            if not tag:
                self.err("bad dispatch")
            if tag == "b" and self.peek() == '"':
                self.adv()
                return Tagged("b", Str(self.read_string_body(), self.line, self.col), line, col)
            return Tagged(tag, self.read_required(), line, col)
        tok = self.read_token()
        if not tok:
            self.err(f"unreadable char {c!r}")
        if tok.startswith(":"):
            return Kw(tok[1:], line, col)
        if _NUM.match(tok):
            return Num(tok, line, col)
        return Sym(tok, line, col)

    def read_required(self) -> Form:
        while True:
            f = self.read()
            if f is not None:
                return f


def read_all(src: str, rel: str = "<string>") -> list[Form]:
    r = _R(src, rel)
    out = []
    while True:
        r.skip_ws()
        if r.i >= len(r.s):
            return out
        f = r.read()
        if f is not None:
            out.append(f)


def read_one(src: str) -> Form:
    return read_all(src)[0]


# ------------------------------------------------------------------------------------------
# queries


def walk(form: Form) -> Iterator[Form]:
    stack = [form]
    while stack:
        f = stack.pop()
        yield f
        ch = f.children()
        stack.extend(reversed(ch))


def is_sym(f, name: Optional[str] = None) -> bool:
    return isinstance(f, Sym) and (name is None or f.val == name)


def head(f) -> Optional[str]:
    """Symbol text at the head of a list form (None otherwise)."""
    if isinstance(f, List) and f.items and isinstance(f.items[0], Sym):
        return f.items[0].val
    return None


def head_name(f) -> Optional[str]:
    h = head(f)
    if h is None:
        return None
    if "/" in h and h != "/":
        return h.split("/", 1)[1]
    return h


DEF_HEADS = {"def", "defn", "defn-", "defmacro", "defmulti", "defmethod", "defprotocol", "deftype", "defrecord", "defonce", "fn", "defasync", "defstruct"}


def top_defs(forms: list[Form]) -> dict[str, List]:
    """name -> top-level defining form (last wins).  Looks inside top-level `do`, `let`,
    and reader conditionals."""
    out: dict[str, List] = {}

    def visit(f):
        if isinstance(f, ReaderCond):
            s = f.select()
            if s is not None:
                visit(s)
            return
        h = head(f)
        if h in ("do",):
            for x in f.items[1:]:
                visit(x)
        elif h in ("let", "let*") and len(f.items) > 2:
            for x in f.items[2:]:
                visit(x)
        elif h in DEF_HEADS and len(f.items) > 1 and isinstance(f.items[1], Sym):
            out[f.items[1].val] = f

    for f in forms:
        visit(f)
    return out


def ancestors(f: Form) -> Iterator[Form]:
    p = f.parent
    while p is not None:
        yield p
        p = p.parent


def fn_arities(deff: List) -> list[tuple[Vec, list[Form]]]:
    """(params, body) for each arity of a defn/defmacro/fn/def-with-fn form."""
    items = deff.items[1:]
    # skip name, docstring, attr-map
    if items and isinstance(items[0], Sym):
        items = items[1:]
    while items and isinstance(items[0], (Str, Map)):
        items = items[1:]
    if not items:
        return []
    if isinstance(items[0], Vec):
        return [(items[0], items[1:])]
    out = []
    for a in items:
        if isinstance(a, List) and a.items and isinstance(a.items[0], Vec):
            out.append((a.items[0], a.items[1:]))
    if out:
        return out
    # (def name (fn ...))
    for a in items:
        if head(a) in ("fn", "fn*"):
            return fn_arities(a)
    return []


def param_count(params: Vec) -> tuple[int, bool]:
    names = [p for p in params.items]
    n = 0
    variadic = False
    for p in names:
        if is_sym(p, "&"):
            variadic = True
            break
        n += 1
    return n, variadic


def expand_lets(f: Form, env: Optional[dict] = None) -> str:
    """The text of a form with every `let` / `let*` of simple symbol bindings and a single body form
    replaced by that body, the bound names substituted by the (expanded) text of what they are bound
    to.  For comparing an expression with a template whatever explaining names were introduced; not
    an evaluation-preserving rewrite (a name used twice duplicates its expression)."""
    env = env or {}
    if isinstance(f, Sym):
        return env.get(f.val, f.val)
    if isinstance(f, List) and head(f) in ("let", "let*") and len(f.items) == 3 and isinstance(f.items[1], Vec) \
            and all(isinstance(k, Sym) for k in f.items[1].items[0::2]):
        e2 = dict(env)
        b = f.items[1].items
        for k, v in zip(b[0::2], b[1::2]):
            e2[k.val] = expand_lets(v, e2)
        return expand_lets(f.items[2], e2)
    if isinstance(f, Wrap):
        return f.PREFIX[f.tag] + (f.form.text() if f.tag in ("quote", "syntax-quote", "var") else expand_lets(f.form, env))
    if isinstance(f, Coll):
        return f.open + " ".join(expand_lets(i, env) for i in f.items) + f.close
    return f.text()
