"""Checker self-test (thorough tier): every rule is run against scratch variants of the one or
two files it reads -- a *mutant* (one instance broken by an edit that still parses) on which the
named rule must fire, and *benign twins* (behaviour-preserving edits) on which no rule may fire.

Cases live next to the rules: each rules module may define
    SELFTEST = [ {"name":..., "file": rel, "old": text, "new": text, "expect": "Cxx.Rn" | None,
                  "count": 1 (optional, occurrences replaced)} , ... ]
`old` is matched against the *current* tree; a case whose `old` no longer occurs is reported as
stale (skipped) -- the tree moved on -- and does not fail the run, but at least half of the
mutants of a property must still apply.  Scratch copies live in a tempfile.mkdtemp() directory
and are removed afterwards.
"""
from __future__ import annotations

import ast
import importlib
import os
import shutil
import tempfile

from . import core


def _apply(src: str, case: dict):
    old, new = case["old"], case["new"]
    n = src.count(old)
    if n == 0:
        return None
    want = case.get("count", 1)
    if want == "all":
        return src.replace(old, new)
    if n < want:
        return None
    if case.get("nth") is not None:
        # replace only the nth (0-based) occurrence
        idx = -1
        for _ in range(case["nth"] + 1):
            idx = src.find(old, idx + 1)
            if idx < 0:
                return None
        return src[:idx] + new + src[idx + len(old):]
    if n != want and not case.get("first"):
        return None  # ambiguous: refuse rather than edit the wrong place
    return src.replace(old, new, want)


def run_case(prop: str, root: str, case: dict, known) -> tuple[str, str]:
    """Returns (outcome, message); outcome in ok / stale / FAIL."""
    from .run import analyse

    edits = case.get("edits") or [case]
    tmp = tempfile.mkdtemp(prefix="sa_selftest_")
    try:
        for e in edits:
            rel = e["file"]
            p = os.path.join(root, rel)
            if os.path.exists(os.path.join(tmp, rel)):
                p = os.path.join(tmp, rel)  # a second edit of the same file builds on the first
            if not os.path.exists(p):
                return "stale", f"{case['name']}: {rel} missing"
            with open(p, encoding="utf-8") as f:
                src = f.read()
            out = _apply(src, e)
            if out is None:
                return "stale", f"{case['name']}: anchor text not found (tree changed)"
            if rel.endswith(".py"):
                try:
                    ast.parse(out)
                except SyntaxError as ex:
                    return "FAIL", f"{case['name']}: mutant does not parse: {ex}"
            dst = os.path.join(tmp, rel)
            os.makedirs(os.path.dirname(dst), exist_ok=True)
            with open(dst, "w", encoding="utf-8") as f:
                f.write(out)
        try:
            ctx, _per, _mod = analyse(prop, "quick", root, overlay=tmp, known=known)
        except core.AnalysisError as ex:
            if case.get("expect") == "ANALYSIS-ERROR":
                return "ok", f"{case['name']}: analysis error as expected"
            return "FAIL", f"{case['name']}: analysis error on variant: {ex}"
        violated = [o for o in ctx.obligations if o.status == "violated"]
        exp = case.get("expect")
        if exp is None:
            if violated:
                return "FAIL", f"{case['name']}: benign twin raised {violated[0].rule}: {violated[0].detail}"
            return "ok", f"{case['name']}: silent"
        hits = [o for o in violated if o.rule == exp]
        if not hits:
            return "FAIL", f"{case['name']}: expected {exp} to fire; fired: {sorted({o.rule for o in violated}) or 'nothing'}"
        return "ok", f"{case['name']}: {exp} fired at {hits[0].file}:{hits[0].line}"
    finally:
        shutil.rmtree(tmp, ignore_errors=True)


def run_seeded(prop: str, root: str, known):
    """Applies each confirmed seeded patch (/verif/seeded/<prop>-*/) to scratch copies of the files
    it touches and expects the rule recorded in its meta.json (`detected_by`) to fire."""
    import glob
    import json
    import re
    import subprocess

    from .run import analyse

    out = []
    for meta_path in sorted(glob.glob(os.path.join(core.VERIF, "seeded", f"{prop}-*", "meta.json"))):
        d = os.path.dirname(meta_path)
        meta = json.load(open(meta_path))
        want = meta.get("detected_by")
        if not want:
            continue
        patch = os.path.join(d, "patch.diff")
        files = re.findall(r"^\+\+\+ b/(.+)$", open(patch).read(), re.M)
        tmp = tempfile.mkdtemp(prefix="sa_seeded_")
        try:
            for f in files:
                dst = os.path.join(tmp, f)
                os.makedirs(os.path.dirname(dst), exist_ok=True)
                if os.path.exists(os.path.join(root, f)):
                    shutil.copy(os.path.join(root, f), dst)
            r = subprocess.run(["patch", "-p1", "-s", "--no-backup-if-mismatch", "-d", tmp, "-i", patch], capture_output=True, text=True)
            name = f"seeded {os.path.basename(d)}"
            if r.returncode != 0:
                out.append(("stale", f"{name}: patch no longer applies"))
                continue
            try:
                ctx, _p, _m = analyse(prop, "quick", root, overlay=tmp, known=known)
            except core.AnalysisError as ex:
                out.append(("FAIL", f"{name}: analysis error: {ex}"))
                continue
            fired = {o.rule for o in ctx.obligations if o.status == "violated"}
            wants = want if isinstance(want, list) else [want]
            if any(w in fired for w in wants):
                out.append(("ok", f"{name}: {sorted(fired & set(wants))} fired"))
            else:
                out.append(("FAIL", f"{name}: expected {wants} to fire; fired {sorted(fired) or 'nothing'}"))
        finally:
            shutil.rmtree(tmp, ignore_errors=True)
    return out


def run_benign(prop: str, root: str, known):
    """The behaviour-preserving refactorings written by independent sub-agents (/verif/benign/<id>/):
    every one that meta.json lists as silent for this property -- and that was authored for it or
    once raised a false alarm of it -- is applied to scratch copies and must raise nothing."""
    import glob
    import json
    import re
    import subprocess

    from .run import analyse

    out = []
    for meta_path in sorted(glob.glob(os.path.join(core.VERIF, "benign", "*", "meta.json"))):
        d = os.path.dirname(meta_path)
        meta = json.load(open(meta_path))
        if prop not in meta.get("silent_for", []):
            continue
        if meta.get("authored_for") != prop and prop not in meta.get("false_alarms_at_first", {}):
            continue
        patch = os.path.join(d, "patch.diff")
        files = re.findall(r"^\+\+\+ b/(.+)$", open(patch).read(), re.M)
        tmp = tempfile.mkdtemp(prefix="sa_benign_")
        name = f"benign {os.path.basename(d)}"
        try:
            for f in files:
                dst = os.path.join(tmp, f)
                os.makedirs(os.path.dirname(dst), exist_ok=True)
                if os.path.exists(os.path.join(root, f)):
                    shutil.copy(os.path.join(root, f), dst)
            r = subprocess.run(["patch", "-p1", "-s", "--no-backup-if-mismatch", "-d", tmp, "-i", patch], capture_output=True, text=True)
            if r.returncode != 0:
                out.append(("stale", f"{name}: patch no longer applies"))
                continue
            try:
                ctx, _p, _m = analyse(prop, "quick", root, overlay=tmp, known=known)
            except core.AnalysisError as ex:
                out.append(("FAIL", f"{name}: analysis error on a behaviour-preserving refactoring: {ex}"))
                continue
            bad = [o for o in ctx.obligations if o.status == "violated"]
            if bad:
                out.append(("FAIL", f"{name}: false alarm {bad[0].rule}: {bad[0].detail[:160]}"))
            else:
                out.append(("ok", f"{name}: silent"))
        finally:
            shutil.rmtree(tmp, ignore_errors=True)
    return out


def run_reformat_twin(prop: str, root: str, known) -> tuple[str, str]:
    """The whole-tree benign twin: every Python source under src/basilisp is replaced by
    ast.unparse(ast.parse(source)) (comments gone, layout and quoting changed, line numbers moved)
    in an overlay; the verdict of every obligation must be what it is on the tree itself."""
    from .run import analyse

    tmp = tempfile.mkdtemp(prefix="sa_reformat_")
    try:
        base = os.path.join(root, "src", "basilisp")
        for d, _dn, fs in os.walk(base):
            for f in fs:
                if not f.endswith(".py"):
                    continue
                p = os.path.join(d, f)
                with open(p, encoding="utf-8") as fh:
                    src = fh.read()
                dst = os.path.join(tmp, os.path.relpath(p, root))
                os.makedirs(os.path.dirname(dst), exist_ok=True)
                with open(dst, "w", encoding="utf-8") as fh:
                    fh.write(ast.unparse(ast.parse(src)) + "\n")
        # .lpy sources: whole-line comments dropped (line numbers move, no form changes); a file is
        # only rewritten if the own reader sees exactly the same forms afterwards
        from . import lispread as L
        import re as _re
        for d, _dn, fs in os.walk(base):
            for f in fs:
                if not f.endswith(".lpy"):
                    continue
                p = os.path.join(d, f)
                with open(p, encoding="utf-8") as fh:
                    src = fh.read()
                out = "\n".join(ln for ln in src.split("\n") if not _re.match(r"^\s*;", ln))
                try:
                    same = [x.text() for x in L.read_all(src, p)] == [x.text() for x in L.read_all(out, p)]
                except L.ReadError:
                    same = False
                if not same:
                    continue
                dst = os.path.join(tmp, os.path.relpath(p, root))
                os.makedirs(os.path.dirname(dst), exist_ok=True)
                with open(dst, "w", encoding="utf-8") as fh:
                    fh.write(out)
        try:
            ref, _p, _m = analyse(prop, "quick", root, known=known)
            ctx, _p, _m = analyse(prop, "quick", root, overlay=tmp, known=known)
        except core.AnalysisError as ex:
            return "FAIL", f"whole-tree reformat twin: analysis error: {ex}"
        a = {(o.rule, o.instance): o.status for o in ref.obligations}
        b = {(o.rule, o.instance): o.status for o in ctx.obligations}
        if a != b:
            diff = sorted(set(a.items()) ^ set(b.items()))[:3]
            return "FAIL", f"whole-tree reformat twin: verdicts differ on a behaviour-preserving rewrite: {diff}"
        return "ok", f"whole-tree reformat twin: {len(b)} obligations, same verdicts"
    finally:
        shutil.rmtree(tmp, ignore_errors=True)


def run_alpha_twin(prop: str, root: str, known) -> tuple[str, str]:
    """The second whole-tree benign twin: every renamable function local of every Python source is
    renamed (sa/alpha.py).  The verdict and the instance key of every obligation must stay what they
    are on the tree itself: no rule may depend on how a local is spelled (sa/canon.py gives locals
    their reference spelling back before the rules run; this twin shows that it does)."""
    from . import alpha, canon
    from .run import analyse

    tmp = tempfile.mkdtemp(prefix="sa_alpha_")
    try:
        base = os.path.join(root, "src", "basilisp")
        n = 0
        for d, _dn, fs in os.walk(base):
            for f in fs:
                if not f.endswith(".py"):
                    continue
                p = os.path.join(d, f)
                with open(p, encoding="utf-8") as fh:
                    out, k = alpha.rename_locals(fh.read(), kw_names=canon.package_keyword_names(root))
                n += k
                dst = os.path.join(tmp, os.path.relpath(p, root))
                os.makedirs(os.path.dirname(dst), exist_ok=True)
                with open(dst, "w", encoding="utf-8") as fh:
                    fh.write(out)
        # ... and every renamable let-bound local of every .lpy source (sa/lispcanon.py)
        from . import lispcanon
        for d, _dn, fs in os.walk(base):
            for f in fs:
                if not f.endswith(".lpy"):
                    continue
                p = os.path.join(d, f)
                rel = os.path.relpath(p, root)
                with open(p, encoding="utf-8") as fh:
                    try:
                        out, k = lispcanon.rename_locals(fh.read(), rel)
                    except (ValueError, core.AnalysisError):
                        continue
                n += k
                dst = os.path.join(tmp, rel)
                os.makedirs(os.path.dirname(dst), exist_ok=True)
                with open(dst, "w", encoding="utf-8") as fh:
                    fh.write(out)
        try:
            ref, _p, _m = analyse(prop, "quick", root, known=known)
            ctx, _p, _m = analyse(prop, "quick", root, overlay=tmp, known=known)
        except core.AnalysisError as ex:
            return "FAIL", f"whole-tree local-renaming twin: analysis error: {ex}"
        a = {(o.rule, o.instance): o.status for o in ref.obligations}
        b = {(o.rule, o.instance): o.status for o in ctx.obligations}
        if a != b:
            diff = sorted(set(a.items()) ^ set(b.items()))[:3]
            return "FAIL", f"whole-tree local-renaming twin ({n} locals renamed): verdicts differ on a behaviour-preserving rewrite: {diff}"
        return "ok", f"whole-tree local-renaming twin: {n} locals renamed, {len(b)} obligations, same verdicts"
    finally:
        shutil.rmtree(tmp, ignore_errors=True)


def run_for(prop: str, root: str) -> dict:
    mod = importlib.import_module(f"sa.rules.{prop}")
    cases = list(getattr(mod, "SELFTEST", []))
    known = core.load_known()
    res = {"mutants": 0, "fired": 0, "twins": 0, "silent": 0, "stale": 0, "cases": []}
    failures = []
    outcome, msg = run_reformat_twin(prop, root, known)
    res["cases"].append(f"{outcome}: {msg}")
    res["twins"] += 1
    res["silent"] += outcome == "ok"
    if outcome == "FAIL":
        failures.append(msg)
    outcome, msg = run_alpha_twin(prop, root, known)
    res["cases"].append(f"{outcome}: {msg}")
    res["twins"] += 1
    res["silent"] += outcome == "ok"
    if outcome == "FAIL":
        failures.append(msg)
    for c in cases:
        outcome, msg = run_case(prop, root, c, known)
        res["cases"].append(f"{outcome}: {msg}")
        is_mut = c.get("expect") is not None
        if outcome == "stale":
            res["stale"] += 1
            continue
        if is_mut:
            res["mutants"] += 1
            res["fired"] += outcome == "ok"
        else:
            res["twins"] += 1
            res["silent"] += outcome == "ok"
        if outcome == "FAIL":
            failures.append(msg)
    # the confirmed seeded regressions of this property are part of the corpus
    for outcome, msg in run_seeded(prop, root, known):
        res["cases"].append(f"{outcome}: {msg}")
        if outcome == "stale":
            res["stale"] += 1
            continue
        res["mutants"] += 1
        res["fired"] += outcome == "ok"
        if outcome == "FAIL":
            failures.append(msg)
    # ... and the independent benign refactorings of /verif/benign on which this property's check is
    # recorded as silent (authored for this property, or once a false alarm of it): they stay silent
    for outcome, msg in run_benign(prop, root, known):
        res["cases"].append(f"{outcome}: {msg}")
        if outcome == "stale":
            res["stale"] += 1
            continue
        res["twins"] += 1
        res["silent"] += outcome == "ok"
        if outcome == "FAIL":
            failures.append(msg)
    nm = sum(1 for c in cases if c.get("expect") is not None)
    if nm and res["mutants"] * 2 < nm:
        failures.append(f"{prop}: only {res['mutants']} of {nm} self-test mutants still apply to the tree")
    return {"summary": res, "failures": failures}


if __name__ == "__main__":
    import sys

    prop = sys.argv[1]
    out = run_for(prop, core.DEFAULT_REPO)
    for c in out["summary"]["cases"]:
        print(c)
    print({k: v for k, v in out["summary"].items() if k != "cases"})
    sys.exit(1 if out["failures"] else 0)
