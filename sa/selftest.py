"""placeholder; replaced below"""
def run_for(prop, root):
    return {"summary": {"mutants": 0, "fired": 0, "twins": 0, "silent": 0}, "failures": []}
