"""Facts about Python sources: parent links, qualified names, lookups, small resolvers."""
from __future__ import annotations

import ast
import re
from typing import Any, Iterable, Iterator, Optional

FUNC = (ast.FunctionDef, ast.AsyncFunctionDef)
SCOPE = (ast.FunctionDef, ast.AsyncFunctionDef, ast.ClassDef, ast.Lambda)


def annotate(tree: ast.Module, rel: str) -> None:
    tree._rel = rel  # type: ignore[attr-defined]
    tree._parent = None  # type: ignore[attr-defined]
    tree._qual = ""  # type: ignore[attr-defined]

    def walk(node, qual):
        for ch in ast.iter_child_nodes(node):
            ch._parent = node  # type: ignore[attr-defined]
            q = qual
            if isinstance(ch, (ast.FunctionDef, ast.AsyncFunctionDef, ast.ClassDef)):
                q = f"{qual}.{ch.name}" if qual else ch.name
                ch._qual = q  # type: ignore[attr-defined]
            walk(ch, q)

    walk(tree, "")


def parent(node):
    return getattr(node, "_parent", None)


def ancestors(node) -> Iterator[ast.AST]:
    p = parent(node)
    while p is not None:
        yield p
        p = parent(p)


def enclosing_def(node):
    for a in ancestors(node):
        if isinstance(a, FUNC + (ast.ClassDef,)):
            return a
    return None


def enclosing_func(node):
    for a in ancestors(node):
        if isinstance(a, FUNC):
            return a
    return None


def qual(node) -> str:
    if isinstance(node, FUNC + (ast.ClassDef,)):
        return getattr(node, "_qual", node.name)
    d = enclosing_def(node)
    return getattr(d, "_qual", "<module>") if d is not None else "<module>"


def find_def(tree: ast.Module, qualname: str):
    """Finds `Class.method`, `func`, `func.inner`.  If a name is defined several times in a
    scope (overloads / singledispatch `_`), the *last* definition is returned."""
    parts = qualname.split(".")
    scope: Any = tree
    for p in parts:
        found = None
        for ch in _scope_body_defs(scope):
            if ch.name == p:
                found = ch
        if found is None:
            return None
        scope = found
    return scope


def _scope_body_defs(scope) -> Iterator[ast.AST]:
    """Definitions directly in this scope (descending through if/try/with blocks, not defs)."""
    stack = list(getattr(scope, "body", []))
    while stack:
        n = stack.pop(0)
        if isinstance(n, FUNC + (ast.ClassDef,)):
            yield n
        elif isinstance(n, (ast.If, ast.Try, ast.With, ast.For, ast.While)):
            sub = []
            for f in ("body", "orelse", "finalbody"):
                sub.extend(getattr(n, f, []))
            for h in getattr(n, "handlers", []):
                sub.extend(h.body)
            stack = sub + stack


def all_defs(tree: ast.Module) -> Iterator[ast.AST]:
    for n in ast.walk(tree):
        if isinstance(n, FUNC):
            yield n


def all_classes(tree: ast.Module) -> Iterator[ast.ClassDef]:
    for n in ast.walk(tree):
        if isinstance(n, ast.ClassDef):
            yield n


def methods(cls: ast.ClassDef) -> dict[str, ast.AST]:
    out = {}
    for n in cls.body:
        if isinstance(n, FUNC):
            out[n.name] = n  # last wins (property setters share the name: keep getter under name)
    return out


def all_methods(cls: ast.ClassDef) -> list[ast.AST]:
    return [n for n in cls.body if isinstance(n, FUNC)]


def un(node) -> str:
    """Normalised source text of a node (position and formatting independent)."""
    try:
        return re.sub(r"\s+", " ", ast.unparse(node)).strip()
    except Exception:  # pragma: no cover
        return ast.dump(node)


def walk_local(node, *, into_defs: bool = False, include_self: bool = False) -> Iterator[ast.AST]:
    """ast.walk that does not descend into nested function/class/lambda scopes."""
    stack = [node] if include_self else list(ast.iter_child_nodes(node))
    while stack:
        n = stack.pop()
        yield n
        if not into_defs and isinstance(n, SCOPE) and n is not node:
            continue
        stack.extend(ast.iter_child_nodes(n))


def dotted(node) -> Optional[str]:
    """`a.b.c` for Name/Attribute chains, else None."""
    parts = []
    while isinstance(node, ast.Attribute):
        parts.append(node.attr)
        node = node.value
    if isinstance(node, ast.Name):
        parts.append(node.id)
        return ".".join(reversed(parts))
    return None


def call_name(call: ast.Call) -> Optional[str]:
    return dotted(call.func)


def calls(node, *, into_defs: bool = False) -> Iterator[ast.Call]:
    it = ast.walk(node) if into_defs else walk_local(node, include_self=True)
    for n in it:
        if isinstance(n, ast.Call):
            yield n


def is_self_attr(node, attr: Optional[str] = None, selfname: str = "self") -> bool:
    return (
        isinstance(node, ast.Attribute)
        and isinstance(node.value, ast.Name)
        and node.value.id == selfname
        and (attr is None or node.attr == attr)
    )


def store_targets(stmt) -> list[ast.AST]:
    """All assignment targets (flattening tuples) of Assign / AugAssign / AnnAssign / Delete /
    For / With-as / NamedExpr inside the statement itself (not nested statements)."""
    out = []

    def flat(t):
        if isinstance(t, (ast.Tuple, ast.List)):
            for e in t.elts:
                flat(e)
        elif isinstance(t, ast.Starred):
            flat(t.value)
        else:
            out.append(t)

    if isinstance(stmt, ast.Assign):
        for t in stmt.targets:
            flat(t)
    elif isinstance(stmt, ast.AugAssign):
        flat(stmt.target)
    elif isinstance(stmt, ast.AnnAssign):
        if stmt.value is not None:
            flat(stmt.target)
    elif isinstance(stmt, ast.Delete):
        for t in stmt.targets:
            flat(t)
    elif isinstance(stmt, (ast.For, ast.AsyncFor)):
        flat(stmt.target)
    elif isinstance(stmt, (ast.With, ast.AsyncWith)):
        for it in stmt.items:
            if it.optional_vars is not None:
                flat(it.optional_vars)
    return out


def self_attr_stores(func, selfname: str = "self") -> list[tuple[ast.AST, str]]:
    """(statement, attr) for every store/aug-store/delete of `self.<attr>` in func (nested
    closures included: they run on the same object)."""
    out = []
    for n in ast.walk(func):
        if isinstance(n, (ast.Assign, ast.AugAssign, ast.AnnAssign, ast.Delete, ast.For, ast.With)):
            for t in store_targets(n):
                if is_self_attr(t, None, selfname):
                    out.append((n, t.attr))
        elif isinstance(n, ast.NamedExpr):
            pass
    return out


def with_items_enclosing(node, stop=None) -> Iterator[tuple[ast.With, ast.withitem]]:
    """(with-stmt, item) for each `with` whose *body* contains node (innermost first)."""
    prev = node
    for a in ancestors(node):
        if a is stop:
            break
        if isinstance(a, (ast.With, ast.AsyncWith)) and any(prev is b or _contains(b, prev) for b in a.body):
            for it in a.items:
                yield a, it
        if isinstance(a, FUNC + (ast.Lambda,)):
            # a nested def/lambda body does not run inside the enclosing with
            if a is not stop:
                break
        prev = a


def _contains(root, node) -> bool:
    for a in ancestors(node):
        if a is root:
            return True
    return root is node


def contains(root, node) -> bool:
    return _contains(root, node)


def under_lock(node, lock_exprs: Iterable[str], stop=None) -> bool:
    """True if node is lexically inside `with <lock>:` for a lock in lock_exprs, or inside the
    `try` body / finally-protected region following `<lock>.acquire()` with `<lock>.release()`
    in the finally (the two accepted idioms)."""
    locks = set(lock_exprs)
    for _w, it in with_items_enclosing(node, stop):
        if un(it.context_expr) in locks:
            return True
    # acquire(); try: ... finally: release()
    prev = node
    for a in ancestors(node):
        if a is stop or isinstance(a, FUNC + (ast.Lambda,)):
            break
        if isinstance(a, ast.Try) and any(prev is b or _contains(b, prev) for b in a.body):
            rel = {
                un(c.func.value)
                for s in a.finalbody
                for c in calls(s)
                if isinstance(c.func, ast.Attribute) and c.func.attr == "release"
            }
            if rel & locks:
                # the acquire must precede the try in the same block
                blk = _block_of(a)
                if blk is not None:
                    i = blk.index(a)
                    for s in blk[:i]:
                        for c in calls(s):
                            if isinstance(c.func, ast.Attribute) and c.func.attr == "acquire" and un(c.func.value) in rel & locks:
                                return True
        prev = a
    return False


def _block_of(stmt) -> Optional[list]:
    p = parent(stmt)
    if p is None:
        return None
    for f in ("body", "orelse", "finalbody"):
        b = getattr(p, f, None)
        if isinstance(b, list) and stmt in b:
            return b
    if isinstance(p, ast.Try):
        for h in p.handlers:
            if stmt in h.body:
                return h.body
    return None


def block_of(stmt):
    return _block_of(stmt)


def stmt_of(node):
    """The statement containing an expression node."""
    n = node
    while n is not None and not isinstance(n, ast.stmt):
        n = parent(n)
    return n


def names_read(node) -> set[str]:
    return {n.id for n in ast.walk(node) if isinstance(n, ast.Name) and isinstance(n.ctx, ast.Load)}


def decorators(func) -> list[str]:
    return [un(d) for d in getattr(func, "decorator_list", [])]


def module_assign(tree: ast.Module, name: str):
    """Value node of a module-level `name = ...` / `name: T = ...` (last one)."""
    val = None
    for n in tree.body:
        if isinstance(n, ast.Assign):
            for t in n.targets:
                if isinstance(t, ast.Name) and t.id == name:
                    val = n.value
        elif isinstance(n, ast.AnnAssign) and isinstance(n.target, ast.Name) and n.target.id == name and n.value is not None:
            val = n.value
    return val


def class_assign(cls: ast.ClassDef, name: str):
    val = None
    for n in cls.body:
        if isinstance(n, ast.Assign):
            for t in n.targets:
                if isinstance(t, ast.Name) and t.id == name:
                    val = n.value
        elif isinstance(n, ast.AnnAssign) and isinstance(n.target, ast.Name) and n.target.id == name and n.value is not None:
            val = n.value
    return val


def singledispatch_registry(tree: ast.Module, fname: str) -> dict[str, ast.AST]:
    """`{type-text: impl}` for `@fname.register(T)` stacks, plus 'default' for the base."""
    reg: dict[str, ast.AST] = {}
    for n in ast.walk(tree):
        if isinstance(n, FUNC):
            for d in n.decorator_list:
                if isinstance(d, ast.Call) and dotted(d.func) == f"{fname}.register":
                    for a in d.args:
                        reg[un(a)] = n
                elif dotted(d) == f"{fname}.register":
                    # annotation-based registration
                    if n.args.args and n.args.args[0].annotation is not None:
                        reg[un(n.args.args[0].annotation)] = n
            if n.name == fname and any("singledispatch" in x for x in decorators(n)):
                reg["default"] = n
    return reg


EAGER_CONSUMERS = {
    "list", "tuple", "set", "frozenset", "dict", "sorted", "any", "all", "sum", "max", "min", "len", "next",
    "vec.vector", "vec.v", "lmap.map", "lmap.hash_map", "lset.set", "lset.s", "llist.list", "llist.l", "lqueue.queue",
    "collections.deque", "deque", "collections.Counter",
}
LAZY_CALLS = {
    "map", "filter", "zip", "enumerate", "chain", "itertools.chain", "chain.from_iterable", "itertools.chain.from_iterable",
    "reversed", "islice", "itertools.islice", "starmap", "itertools.starmap", "iter", "partition",
}


def lazy_escapes(with_node: ast.With, mentions: str = "ctx"):
    """Lazy expressions (generator expressions, map/filter/zip/chain... calls, lambdas) in the body
    of `with_node` that mention the name `mentions` and are not consumed before the block ends.
    Consumed = argument of an eager constructor / str.join / list.extend, `*`-spread into a call,
    iterated by a `for` or a list/set/dict comprehension, or unpacked by a tuple assignment.
    Yields (node, how) for each escape."""
    ctxexprs = [i.context_expr for i in with_node.items]
    for st in with_node.body:
        for n in ast.walk(st):
            lazy = isinstance(n, (ast.GeneratorExp, ast.Lambda)) or (isinstance(n, ast.Call) and (dotted(n.func) or "") in LAZY_CALLS)
            if not lazy or any(n is c for c in ctxexprs):
                continue
            if not any(isinstance(x, ast.Name) and x.id == mentions for x in ast.walk(n)):
                continue
            par = parent(n)
            if isinstance(n, ast.Lambda):
                # a lambda is only a problem when stored or returned; as a call argument it runs (or not) inside the call
                if isinstance(par, (ast.Assign, ast.AnnAssign, ast.Return, ast.keyword)) and not isinstance(parent(par), ast.Call):
                    yield n, f"a lambda is bound by `{un(par)[:60]}`"
                continue
            if isinstance(par, ast.Call) and any(n is a for a in par.args):
                f = dotted(par.func) or un(par.func)
                if f in EAGER_CONSUMERS or f.endswith(".join") or f.endswith(".extend") or f.endswith(".update"):
                    continue
                if f in LAZY_CALLS:
                    continue  # judged at the enclosing lazy call
                if f.split(".")[-1][:1].isupper():
                    yield n, f"it is stored, unconsumed, by the constructor `{f}(...)`"
                # a plain helper function consumes (or not) during the call, inside the block
            elif isinstance(par, ast.Starred):
                continue
            elif isinstance(par, (ast.For, ast.AsyncFor)) and par.iter is n:
                continue
            elif isinstance(par, ast.comprehension) and par.iter is n:
                comp = parent(par)
                if isinstance(comp, ast.GeneratorExp):
                    continue  # judged at the enclosing generator expression
                continue
            elif isinstance(par, ast.Assign) and all(isinstance(t, (ast.Tuple, ast.List)) for t in par.targets):
                continue
            elif isinstance(par, ast.YieldFrom):
                continue
            else:
                yield n, f"it is bound or passed on by `{un(par)[:60]}`"


def single_defs(fn) -> dict:
    """Locals of `fn` bound exactly once in it, by a plain `x = E` (not a parameter, not declared
    global / nonlocal, not bound by a loop, with, import, walrus or nested def): name -> the Assign."""
    params = {a.arg for a in ast.walk(fn.args) if isinstance(a, ast.arg)}
    stores, other = {}, set()
    for n in walk_local(fn):
        if isinstance(n, (ast.Global, ast.Nonlocal)):
            other |= set(n.names)
        elif isinstance(n, ast.Name) and isinstance(n.ctx, (ast.Store, ast.Del)):
            st = parent(n)
            if isinstance(st, ast.Assign) and len(st.targets) == 1 and st.targets[0] is n:
                stores.setdefault(n.id, []).append(st)
            else:
                other.add(n.id)
        elif isinstance(n, (ast.FunctionDef, ast.AsyncFunctionDef, ast.ClassDef)) and n is not fn:
            other.add(n.name)
    return {k: v[0] for k, v in stores.items() if len(v) == 1 and k not in params and k not in other}


def expand_locals(fn, expr, keep=(), depth: int = 4):
    """A copy of `expr` in which every single-definition local of `fn` (see single_defs) not in `keep`
    is replaced by its defining expression, repeatedly.  A *data-flow view* -- which values reach this
    expression -- for rules that ask where a value flows; it makes no claim about evaluation order."""
    import copy

    defs = single_defs(fn)

    class T(ast.NodeTransformer):
        def __init__(self, d):
            self.d = d

        def visit_Name(self, node):
            if isinstance(node.ctx, ast.Load) and node.id in defs and node.id not in keep and self.d > 0:
                return T(self.d - 1).visit(copy.deepcopy(defs[node.id].value))
            return node

    return T(depth).visit(copy.deepcopy(expr)) if expr is not None else None


def keyword_sinks(fn, node, ctor: str, _seen=None) -> set:
    """Where does the value computed at `node` end up?  The keyword names of `ctor(...)` calls it is
    written under, following single-definition locals it is stored into on the way (`x = f(node)` ...
    `ctor(body=x)`); None stands for any other destination."""
    _seen = _seen if _seen is not None else set()
    prev = node
    for a in ancestors(node):
        if a is fn:
            break
        if isinstance(a, ast.keyword):
            par = parent(a)
            if isinstance(par, ast.Call) and un(par.func) == ctor:
                return {a.arg}
        if isinstance(a, ast.Assign) and len(a.targets) == 1 and isinstance(a.targets[0], ast.Name) and contains(a.value, node):
            name = a.targets[0].id
            if single_defs(fn).get(name) is a and name not in _seen:
                _seen.add(name)
                loads = [n for n in walk_local(fn) if isinstance(n, ast.Name) and n.id == name and isinstance(n.ctx, ast.Load)]
                out = set()
                for ld in loads:
                    out |= keyword_sinks(fn, ld, ctor, _seen)
                return out  # a temporary nobody reads flows nowhere
            return {None}
        prev = a
    return {None}
