"""Core of the static-analysis framework: context, obligations, evidence, known findings.

Nothing in here (or in any rule) imports or runs basilisp.  Every rule reads the *current*
working tree of the repository under analysis (default /repo, override VERIF_REPO or an overlay
directory used by the self-test) and yields Obligation records.
"""
from __future__ import annotations

import ast
import dataclasses
import json
import os
import re
import time
from typing import Any, Callable, Iterable, Optional

VERIF = os.path.dirname(os.path.dirname(os.path.abspath(__file__)))
DEFAULT_REPO = os.environ.get("VERIF_REPO", "/repo")


class AnalysisError(Exception):
    """The checker cannot decide: anchor vanished, unsupported construct, floor not met."""


@dataclasses.dataclass
class Obligation:
    prop: str
    rule: str
    instance: str  # file::qualname::normalised construct  (never a line number)
    file: str
    line: int
    ok: bool
    detail: str = ""
    witness: str = ""
    status: str = ""  # discharged | violated | known-finding

    def to_json(self) -> dict:
        return {
            "rule": self.rule,
            "instance": self.instance,
            "at": f"{self.file}:{self.line}",
            "status": self.status,
            "detail": self.detail,
        }


def norm_ws(s: str) -> str:
    return re.sub(r"\s+", " ", s).strip()


class Ctx:
    """Access to the repository under analysis, with caches and an optional overlay."""

    def __init__(self, root: str = DEFAULT_REPO, overlay: Optional[str] = None, tier: str = "quick"):
        self.root = root
        self.overlay = overlay
        self.tier = tier
        self._src: dict[str, str] = {}
        self._py: dict[str, ast.Module] = {}
        self._lisp: dict[str, Any] = {}
        self._rust: dict[str, Any] = {}
        self.obligations: list[Obligation] = []
        self.notes: list[str] = []
        self.analysed: dict[str, set] = {"files": set(), "functions": set(), "tables": set()}
        self.prop = ""
        self.memo: dict[Any, Any] = {}
        self.floor_misses: list[str] = []

    # -- file access ---------------------------------------------------------------------
    def path(self, rel: str) -> str:
        if self.overlay:
            p = os.path.join(self.overlay, rel)
            if os.path.exists(p):
                return p
        return os.path.join(self.root, rel)

    def exists(self, rel: str) -> bool:
        return os.path.exists(self.path(rel))

    def src(self, rel: str) -> str:
        if rel not in self._src:
            p = self.path(rel)
            if not os.path.exists(p):
                raise AnalysisError(f"anchor file missing: {rel}")
            with open(p, encoding="utf-8") as f:
                self._src[rel] = f.read()
            self.analysed["files"].add(rel)
        return self._src[rel]

    def py(self, rel: str) -> ast.Module:
        if rel not in self._py:
            from . import pyfacts

            try:
                tree = ast.parse(self.src(rel), filename=rel)
            except SyntaxError as e:  # the variant does not compile: not ours to judge
                raise AnalysisError(f"{rel} does not parse: {e}")
            # locals are given their reference spelling (an alpha-renaming; see sa/canon.py), so that
            # no rule depends on how a local happens to be spelled
            from . import canon

            canon.strip_local_annotations(tree)
            canon.inline_explaining_temporaries(tree)
            k = canon.unroll_literal_comprehensions(tree) + canon.inline_expression_helpers(tree, canon.reference_functions(rel))
            if k:
                self.notes.append(f"{rel}: {k} new private expression helper call(s) / literal comprehension(s) inlined before analysis")
            k = canon.canonicalise(tree, rel, canon.package_keyword_names(self.root, self.overlay))
            if k:
                self.notes.append(f"{rel}: {k} local(s) renamed to their reference spelling before analysis (alpha-renaming)")
            pyfacts.annotate(tree, rel)
            self._py[rel] = tree
        return self._py[rel]

    def lisp(self, rel: str):
        if rel not in self._lisp:
            from . import lispread

            try:
                self._lisp[rel] = lispread.read_all(self.src(rel), rel)
            except lispread.ReadError as e:
                raise AnalysisError(f"{rel} does not read: {e}")
            from . import lispcanon

            k = lispcanon.canonicalise(self._lisp[rel], rel)
            if k:
                self.notes.append(f"{rel}: {k} let-bound local(s) renamed to their reference spelling before analysis (alpha-renaming)")
        return self._lisp[rel]

    def rust(self, rel: str):
        if rel not in self._rust:
            from . import rustscan

            self._rust[rel] = rustscan.parse(self.src(rel), rel)
        return self._rust[rel]

    def glob(self, sub: str, suffix: str) -> list[str]:
        out = []
        base = os.path.join(self.root, sub)
        for d, _dn, fn in os.walk(base):
            for f in fn:
                if f.endswith(suffix):
                    out.append(os.path.relpath(os.path.join(d, f), self.root))
        if self.overlay:
            obase = os.path.join(self.overlay, sub)
            for d, _dn, fn in os.walk(obase):
                for f in fn:
                    if f.endswith(suffix):
                        r = os.path.relpath(os.path.join(d, f), self.overlay)
                        if r not in out:
                            out.append(r)
        return sorted(out)

    # -- anchors ---------------------------------------------------------------------------
    def fn(self, rel: str, qual: str) -> ast.AST:
        from . import pyfacts

        node = pyfacts.find_def(self.py(rel), qual)
        if node is None:
            raise AnalysisError(f"anchor vanished: {rel}::{qual}")
        self.analysed["functions"].add(f"{rel}::{qual}")
        return node

    def fn_opt(self, rel: str, qual: str):
        from . import pyfacts

        node = pyfacts.find_def(self.py(rel), qual)
        if node is not None:
            self.analysed["functions"].add(f"{rel}::{qual}")
        return node

    # -- obligations -----------------------------------------------------------------------
    def ob(self, rule: str, instance: str, rel: str, line: int, ok: bool, detail: str = "", witness: str = "") -> Obligation:
        o = Obligation(self.prop, rule, norm_ws(instance), rel, int(line or 0), bool(ok), detail, witness)
        self.obligations.append(o)
        return o

    def note(self, msg: str) -> None:
        self.notes.append(msg)


@dataclasses.dataclass
class Rule:
    rid: str
    fn: Callable[[Ctx], None]
    floor: int
    doc: str
    tier: str = "quick"  # "quick" rules run always; "thorough" only in thorough


def rule(rid: str, floor: int = 1, tier: str = "quick"):
    def deco(f):
        f._rule = Rule(rid, f, floor, norm_ws(f.__doc__ or ""), tier)
        return f

    return deco


def collect_rules(module) -> list[Rule]:
    rs = [getattr(v, "_rule") for v in vars(module).values() if callable(v) and hasattr(v, "_rule")]
    return sorted(rs, key=lambda r: r.rid)


# ------------------------------------------------------------------------------------------
# known findings


def load_known(path: Optional[str] = None) -> list[dict]:
    path = path or os.path.join(VERIF, "known_findings.json")
    if not os.path.exists(path):
        return []
    with open(path) as f:
        return json.load(f).get("findings", [])


def run_rules(ctx: Ctx, prop: str, rules: list[Rule], tier: str) -> dict:
    """Runs every rule of a property; returns a summary.  Raises AnalysisError on a floor miss."""
    ctx.prop = prop
    per_rule = {}
    for r in rules:
        if r.tier == "thorough" and tier != "thorough":
            continue
        before = len(ctx.obligations)
        r.fn(ctx)
        n = len(ctx.obligations) - before
        per_rule[r.rid] = {"instances": n, "floor": r.floor, "doc": r.doc}
        if n < r.floor:
            per_rule[r.rid]["floor_missed"] = True
            ctx.floor_misses.append(
                f"rule {r.rid} matched {n} instance(s), below its confirmed floor {r.floor}: "
                "the code it is slotted on has changed shape; the rule would pass vacuously"
            )
    return per_rule


def classify(obligations: Iterable[Obligation], known: list[dict]) -> None:
    idx = {(k["rule"], norm_ws(k["instance"])): k for k in known if k.get("status") == "known"}
    for o in obligations:
        if o.ok:
            o.status = "discharged"
        elif (o.rule, o.instance) in idx:
            o.status = "known-finding"
            o.witness = o.witness or idx[(o.rule, o.instance)].get("witness", "")
        else:
            o.status = "violated"
