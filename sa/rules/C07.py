"""C07 -- sequence functions and their transducers agree with each other and the model."""
from __future__ import annotations

from ..core import AnalysisError, rule
from .. import lispread as L

CORE = "src/basilisp/core.lpy"

EXPLANATION = (
    "Template rules over the 18 transducer-capable functions and the five application forms (s-expression patterns): every "
    "transducer is (fn [rf] (fn ([] (rf)) ([result] ..) ([result input] ..))); completion calls rf's 1-arity exactly once, a "
    "flush goes through (unreduced (rf result buffered)) first; a step never feeds a possibly-reduced result back into rf, an "
    "inner reduce never uses the raw downstream rf, counting terminations use inequalities; transduce / sequence / eduction run "
    "the completion arity on exactly the terminal paths and build their transducer state per application; element values are "
    "never used as truthiness tests; 'previous element' cells start from a sentinel outside the element domain."
)
DECIDES = "transducer template, completion-exactly-once discipline of the application forms, reduced propagation, falsey-element punning, sentinel initialisation, a transducer's mutable state is created per application (inside (fn [rf] ..), no per-call state maker hoisted out of it)"
DECLINED = "element-wise agreement of the five application forms on concrete inputs; how many input elements are pulled (a counting fact)"
TRUSTED = ["a `reduced` value must not be passed to a reducing function again"]  # 'reduce unwraps one level of reduced' was trusted in Part I; it is checked by R5 now
ASSUMPTIONS = []
TECHNIQUE = "s-expression pattern rules with path enumeration over cond/if forms (own .lpy reader)"

XF_FNS = ["map", "filter", "remove", "keep", "keep-indexed", "map-indexed", "take", "take-while", "take-nth", "drop", "drop-while",
          "interpose", "partition-all", "partition-by", "distinct", "dedupe", "mapcat", "cat"]
SEQ_FNS = ["map", "filter", "remove", "keep", "keep-indexed", "map-indexed", "take", "take-while", "take-nth", "drop", "drop-while",
           "interpose", "partition-all", "partition-by", "distinct", "dedupe", "iterate", "interleave", "partition", "flatten"]


def _defs(ctx):
    return L.top_defs(ctx.lisp(CORE))


def _find_xf(form):
    """The inner multi-arity step fn of a transducer: (fn [rf] ... (fn ([] ..) ([r] ..) ([r i] ..)))."""
    for f in L.walk(form):
        if L.head(f) in ("fn", "fn*"):
            pv = next((x for x in f.items[1:3] if isinstance(x, L.Vec)), None)
            if pv is not None and [p.text() for p in pv.items] == ["rf"]:
                for g in L.walk(f):
                    if g is not f and L.head(g) in ("fn", "fn*") and any(isinstance(a, L.List) and a.items and isinstance(a.items[0], L.Vec) for a in g.items[1:]):
                        return f, g
                return f, None
    return None, None


def _arities_of_fn(g):
    out = {}
    for a in g.items[1:]:
        if isinstance(a, L.List) and a.items and isinstance(a.items[0], L.Vec):
            n, var = L.param_count(a.items[0])
            out[(n, var)] = (a.items[0], a.items[1:])
    return out


def _rf_calls(form, nargs=None):
    return [f for f in L.walk(form) if L.head(f) == "rf" and (nargs is None or len(f.items) - 1 == nargs)]


@rule("C07.R1", floor=40)
def r1_transducer_template(ctx):
    """Each transducer arity: init arity is (rf); the completion arity ends in exactly one 1-arity
    call of rf and flushes buffered state through (unreduced (rf result buf)); the step arity never
    passes the result of an rf call to rf again without a reduced? test, never reduces with the raw
    rf, and signals counting termination with an inequality."""
    defs = _defs(ctx)
    for name in XF_FNS:
        d = defs.get(name)
        if d is None or L.head(d) not in ("defn", "defn-"):
            raise AnalysisError(f"anchor vanished: core.lpy::{name}")
        if name == "cat":
            # cat IS the (fn [rf] ...) : params [rf]
            params, body = L.fn_arities(d)[0]
            outer, inner = d, next((g for g in L.walk(body[-1]) if L.head(g) in ("fn", "fn*") and any(isinstance(a, L.List) and a.items and isinstance(a.items[0], L.Vec) for a in g.items[1:])), None)
        else:
            outer = inner = None
            for params, body in L.fn_arities(d):
                o, i = _find_xf(body[-1]) if body else (None, None)
                if o is not None:
                    outer, inner = o, i
                    break
        if outer is None:
            # defined by composition of other listed transducers
            ar = sorted(L.fn_arities(d), key=lambda pb: len(pb[0].items))
            txt = ar[0][1][-1].text() if ar and ar[0][1] else ""
            ok = any(f"({o} " in txt or f"({o})" in txt for o in XF_FNS if o != name)
            ctx.ob("C07.R1", f"{CORE}::{name}::transducer arity delegates to {txt[:50]}", CORE, d.line, ok, "" if ok else f"{name} has no transducer arity of the expected shape")
            continue
        if inner is None:
            ctx.ob("C07.R1", f"{CORE}::{name}::step fn", CORE, outer.line, False, "the transducer does not return a multi-arity step function")
            continue
        ars = _arities_of_fn(inner)
        init = ars.get((0, False))
        ok = init is not None and len(init[1]) == 1 and init[1][0].text() == "(rf)"
        ctx.ob("C07.R1", f"{CORE}::{name}::([] (rf))", CORE, inner.line, ok, "" if ok else "the init arity is not (rf)")
        comp = ars.get((1, False))
        if comp is None:
            ctx.ob("C07.R1", f"{CORE}::{name}::completion arity", CORE, inner.line, False, "no completion (1-argument) arity")
        else:
            body = comp[1]
            # the completion step may live in a private helper the arity hands `rf` to (shared by several
            # transducers): `([result] (helper rf result buf))` is judged by the helper's own body
            if len(body) == 1 and isinstance(body[0], L.List) and isinstance(body[0].items[0], L.Sym) and any(L.is_sym(a, "rf") for a in body[0].items[1:]):
                hd = defs.get(body[0].items[0].val)
                if hd is not None and L.head(hd) in ("defn-", "defn"):
                    har = L.fn_arities(hd)
                    if len(har) == 1 and len(har[0][0].items) == len(body[0].items) - 1:
                        pos = next(i for i, a in enumerate(body[0].items[1:]) if L.is_sym(a, "rf"))
                        if L.is_sym(har[0][0].items[pos], "rf"):  # the parameter keeps the name the census of rf calls looks for
                            body = har[0][1]
            last = body[-1]
            tail = last
            while L.head(tail) in ("let", "let*", "do"):
                tail = tail.items[-1]
            ones = _rf_calls(L.List(list(body), 0, 0), 1) if False else [c for b in body for c in _rf_calls(b, 1)]
            ok = L.head(tail) == "rf" and len(tail.items) == 2 and len(ones) == 1
            why = "" if ok else f"the completion arity calls rf's completion {len(ones)} time(s) or not in tail position: completion must run exactly once"
            twos = [c for b in body for c in _rf_calls(b, 2)]
            for c in twos:
                par = c.parent
                if not (L.head(par) == "unreduced"):
                    ok, why = False, f"the flush `{c.text()}` is not wrapped in unreduced: a reduced value would be passed to rf's completion"
            ctx.ob("C07.R1", f"{CORE}::{name}::completion calls (rf result) exactly once", CORE, comp[0].line, ok, why)
        step = ars.get((2, False))
        if step is None:
            ctx.ob("C07.R1", f"{CORE}::{name}::step arity", CORE, inner.line, False, "no step (2-argument) arity")
            continue
        problems = []
        sbody = step[1]
        for b in sbody:
            for c in _rf_calls(b):
                if len(c.items) >= 3 and L.head(c.items[1]) == "rf":
                    problems.append(f"`{c.text()[:60]}` feeds the result of one rf call straight into the next: if the first returned a reduced value the reduction is corrupted")
            for f in L.walk(b):
                if L.head(f) in ("reduce", "reduce*") and len(f.items) >= 3 and L.is_sym(f.items[1], "rf"):
                    problems.append(f"`{f.text()[:60]}` reduces with the raw downstream rf: reduce unwraps a reduced result, so early termination (take) is lost and the outer input keeps being consumed")
                if L.head(f) in ("ensure-reduced", "reduced"):
                    # controlling tests
                    for a in L.ancestors(f):
                        if a is inner:
                            break
                        if L.head(a) == "if" and len(a.items) >= 3:
                            t = a.items[1]
                            if L.head(t) in ("zero?", "=", "==") and any(L.head(x) in ("vswap!", "deref") or (isinstance(x, L.Wrap) and x.tag == "deref") or (isinstance(x, L.Sym) and x.val in _counter_names(inner)) for x in L.walk(t)):
                                problems.append(f"termination is signalled when `{t.text()}`: an equality test on a counter is skipped when the counter starts at or below the bound (take 0 / take -1 would never terminate early)")
        # a buffering step must not hold the current input when it calls rf: if rf answers with a
        # reduced value the completion arity still flushes the buffer, feeding a downstream that has
        # already stopped.  Walk the forms evaluated before each rf call: .clear empties, .append fills.
        for b in sbody:
            for c in _rf_calls(b, 2):
                state = _buffer_state_before(c, inner)
                if state == "filled":
                    problems.append(f"`{c.text()[:50]}` is called while the current input already sits in the buffer: if it returns a reduced value, completion flushes that input into a downstream that has stopped (buffer the input only after a (reduced? ret) test)")
        ctx.ob("C07.R1", f"{CORE}::{name}::step arity is reduced-safe", CORE, step[0].line, not problems, "; ".join(problems[:2]))
        if name in ("take", "take-while"):
            ok = any(L.head(f) in ("ensure-reduced", "reduced") for b in sbody for f in L.walk(b))
            ctx.ob("C07.R1", f"{CORE}::{name}::signals early termination", CORE, step[0].line, ok, "" if ok else f"{name} never returns a reduced value: it cannot stop an infinite input")
        if name == "take":
            # a *counting* terminator knows with its last element that it is done: the reduced value must
            # wrap the result of that element's rf call.  Reducing the untouched accumulator on the *next*
            # input means every context pulls one element more than (take n coll) -- which may block or throw.
            sparams = [p.val for p in step[0].items if isinstance(p, L.Sym)]
            late = []
            for b in sbody:
                for f in L.walk(b):
                    if L.head(f) in ("ensure-reduced", "reduced") and len(f.items) == 2:
                        arg = f.items[1]
                        derived = any(L.head(x) == "rf" for x in L.walk(arg))
                        if isinstance(arg, L.Sym):
                            for a in L.ancestors(f):
                                if a is inner:
                                    break
                                if L.head(a) in ("let", "let*") and isinstance(a.items[1], L.Vec):
                                    for k, v in zip(a.items[1].items[0::2], a.items[1].items[1::2]):
                                        if L.is_sym(k, arg.val) and any(L.head(x) == "rf" for x in L.walk(v)):
                                            derived = True
                        if not derived and isinstance(arg, L.Sym) and arg.val in sparams:
                            late.append(f)
            ctx.ob("C07.R1", f"{CORE}::take::terminates together with its last element", CORE, step[0].line, not late,
                   "" if not late else f"`{late[0].text()}` reduces the untouched accumulator: termination is only signalled when input n+1 arrives, so one element too many is pulled from the source",
                   witness="(into [] (take 2) src) over a lazy src whose third element throws")


def _buffer_state_before(call, stop):
    """'filled' if, among the forms evaluated before `call` inside the step arity (preceding
    siblings in the enclosing do / let / fn bodies, nearest block first), the last buffer operation
    is an .append; 'empty' if it is a .clear; None if the step does not touch a buffer."""
    node = call
    while node is not None and node is not stop:
        par = node.parent
        if par is None:
            break
        if isinstance(par, L.List) and L.head(par) in ("do", "let", "let*", "when", "when-not", "fn", "fn*") or (isinstance(par, L.List) and par.items and isinstance(par.items[0], L.Vec)):
            sibs = par.items[: next(i for i, x in enumerate(par.items) if x is node)]
            for s in reversed(sibs):
                ops = [f for f in L.walk(s) if L.head(f) in (".append", ".clear", ".extend")]
                if ops:
                    return "filled" if L.head(ops[-1]) in (".append", ".extend") else "empty"
        node = par
    return None


def _counter_names(inner):
    names = set()
    for f in L.walk(inner):
        if L.head(f) in ("let", "let*") and isinstance(f.items[1], L.Vec):
            b = f.items[1].items
            for k, v in zip(b[0::2], b[1::2]):
                if isinstance(k, L.Sym) and any(L.head(x) == "vswap!" for x in L.walk(v)):
                    names.add(k.val)
    return names


def _terminal_and_recursive_branches(form, rec_names):
    """Leaf branches of nested if/cond/when/let/do forms: list of (leaf form, is_recursive)."""
    h = L.head(form)
    if h in ("let", "let*", "do", "lazy-seq", "loop", "loop*", "when", "when-not", "when-let", "if-let"):
        return _terminal_and_recursive_branches(form.items[-1], rec_names)
    if h in ("if", "if-not") and len(form.items) >= 3:
        out = []
        for b in form.items[2:]:
            out.extend(_terminal_and_recursive_branches(b, rec_names))
        return out
    if h == "cond":
        out = []
        for b in form.items[2::2]:
            out.extend(_terminal_and_recursive_branches(b, rec_names))
        return out
    rec = any(L.head(f) in rec_names or (L.head(f) == "apply" and len(f.items) > 1 and isinstance(f.items[1], L.Sym) and f.items[1].val in rec_names) for f in L.walk(form))
    return [(form, rec)]


def _xf1(form, xf="xf"):
    return [f for f in L.walk(form) if L.head(f) == xf and len(f.items) == 2]


@rule("C07.R2", floor=6)
def r2_completion_on_exactly_the_terminal_paths(ctx):
    """transduce, sequence (both transducer arities) and EductionSeq call the composed transducer's
    completion arity on every terminal path (input exhausted or reduced) and on no continuing path;
    eduction builds its stateful transducer per iteration; into delegates to transduce."""
    defs = _defs(ctx)
    td = defs.get("transduce")
    if td is None:
        raise AnalysisError("anchor vanished: core.lpy::transduce")
    for params, body in L.fn_arities(td):
        if len(params.items) != 4:
            continue
        loops = [f for f in L.walk(body[-1]) if L.head(f) in ("loop", "loop*")]
        if not loops:
            raise AnalysisError("transduce lost its loop")
        leaves = _terminal_and_recursive_branches(loops[0], {"recur"})
        bad = []
        for leaf, rec in leaves:
            ones = _xf1(leaf)
            if rec and ones:
                bad.append(f"the continuing branch `{leaf.text()[:50]}` runs completion")
            if not rec and not (L.head(leaf) == "xf" and len(leaf.items) == 2):
                bad.append(f"the terminal branch `{leaf.text()[:50]}` does not end in the completion call (xf result)")
        ctx.ob("C07.R2", f"{CORE}::transduce::completion on reduced and on exhaustion only", CORE, td.line, not bad and len(leaves) >= 3, "; ".join(bad) or ("" if len(leaves) >= 3 else "unexpected loop shape"))
    sq = defs.get("sequence")
    if sq is None:
        raise AnalysisError("anchor vanished: core.lpy::sequence")
    n = 0
    for params, body in L.fn_arities(sq):
        if len(params.items) < 2:
            continue
        n += 1
        steps = [f for f in L.walk(body[-1]) if L.head(f) in ("fn", "fn*") and len(f.items) > 1 and L.is_sym(f.items[1], "create-sequence")]
        if not steps:
            raise AnalysisError("sequence lost its create-sequence step function")
        leaves = _terminal_and_recursive_branches(steps[0].items[-1], {"create-sequence", "recur"})
        bad = []
        for leaf, rec in leaves:
            ones = [c for c in _xf1(leaf)]
            if rec and ones:
                bad.append(f"the continuing branch `{leaf.text()[:60]}` runs the completion arity: stateful transducers flush after every element")
            if not rec and len(ones) != 1:
                bad.append(f"the terminal branch `{leaf.text()[:60]}` runs completion {len(ones)} time(s)")
        ctx.ob("C07.R2", f"{CORE}::sequence/{params.text()}::completion once, on the terminal paths", CORE, steps[0].line, not bad and len(leaves) >= 3, "; ".join(bad[:2]) or ("" if len(leaves) >= 3 else "unexpected step shape"),
               witness="(sequence (partition-all 2) [1 2 3 4 5]) => ([1] [1 2] [3] [3 4] [5] [5])")
    if n < 2:
        raise AnalysisError("sequence lost a transducer arity")
    forms = ctx.lisp(CORE)
    es = next((f for f in forms if L.head(f) == "deftype" and L.is_sym(f.items[1], "EductionSeq")), None)
    ed = next((f for f in forms if L.head(f) == "deftype" and L.is_sym(f.items[1], "Eduction")), None)
    if es is None or ed is None:
        raise AnalysisError("anchor vanished: core.lpy::EductionSeq / Eduction")
    nxt = next((m for m in es.items[3:] if L.head(m) == "__next__"), None)
    ones = [c for c in L.walk(nxt) if L.head(c) == "xf" and len(c.items) == 2]
    ok = len(ones) == 1
    why = "" if ok else f"the completion arity is called at {len(ones)} site(s) in EductionSeq.__next__"
    if ok:
        c = ones[0]
        guarded = any(L.head(a) == "when-not" and any(L.head(x) == "set!" for x in L.walk(a)) for a in L.ancestors(c))
        in_exhausted = any(L.head(a) == "if-not" and a.items[2] is not None and any(x is c for x in L.walk(a.items[2])) for a in L.ancestors(c))
        if not guarded:
            ok, why = False, "completion is not guarded by a run-once flag: every call of __next__ after exhaustion completes again"
        elif not in_exhausted:
            ok, why = False, "completion does not run on the input-exhausted path: buffered output of stateful transducers is lost"
    ctx.ob("C07.R2", f"{CORE}::EductionSeq.__next__::completion once, when the input is exhausted or reduced", CORE, nxt.line, ok, why, witness="(vec (eduction (partition-all 2) [1 2 3])) => [[1 2]]")
    it = next((m for m in ed.items[3:] if L.head(m) == "__iter__"), None)
    ok = it is not None and any(L.head(c) == "xform" for c in L.walk(it)) and [x.text() for x in ed.items[2].items] == ["xform", "coll"]
    ctx.ob("C07.R2", f"{CORE}::Eduction.__iter__::transducer instantiated per iteration", CORE, ed.line, ok, "" if ok else "the (stateful) transducer is created once per eduction, not per iteration: a second iteration starts from the first one's state")
    into = defs.get("into")
    ok = into is not None and "(transduce xform conj to from)" in into.text() and "(transduce xform conj! (transient to) from)" in into.text()
    ctx.ob("C07.R2", f"{CORE}::into::delegates to transduce", CORE, into.line if into else 0, ok, "" if ok else "into no longer applies the transducer through transduce")


TRUTH_HEADS = {"if", "when", "when-not", "if-not", "and", "or", "cond", "when-let", "if-let", "when-some", "if-some"}


@rule("C07.R3", floor=15)
def r3_no_element_as_truthiness_test(ctx):
    """In the collection arities of the seq functions an *element* ((first s), a destructured head,
    iterate's x) is never the test of if / when / and / or / when-let / if-let: nil and false are
    legitimate elements."""
    defs = _defs(ctx)
    for name in SEQ_FNS:
        d = defs.get(name)
        if d is None:
            raise AnalysisError(f"anchor vanished: core.lpy::{name}")
        problems = []
        for params, body in L.fn_arities(d):
            elem_names = set()
            for b in body:
                for f in L.walk(b):
                    h = L.head(f)
                    if h in ("let", "let*", "when-let", "if-let", "loop") and len(f.items) > 1 and isinstance(f.items[1], L.Vec):
                        bs = f.items[1].items
                        for k, v in zip(bs[0::2], bs[1::2]):
                            is_elem = L.head(v) in ("first", "second", "peek", "nth") or (L.head(v) == "f" and name == "iterate")
                            if is_elem and isinstance(k, L.Sym):
                                if h in ("when-let", "if-let"):
                                    problems.append(f"`({h} [{k.text()} {v.text()}] ...)` tests the element itself: a nil/false element ends or skips the sequence")
                                elem_names.add(k.val)
                            if isinstance(k, L.Vec) and k.items and isinstance(k.items[0], L.Sym) and L.head(v) in ("seq", None):
                                pass
            if name == "iterate":
                elem_names.add(params.items[-1].text())
            for b in body:
                for f in L.walk(b):
                    h = L.head(f)
                    if h in ("if", "when", "when-not", "if-not") and len(f.items) > 1 and isinstance(f.items[1], L.Sym) and f.items[1].val in elem_names:
                        problems.append(f"`({h} {f.items[1].text()} ...)` uses the element `{f.items[1].text()}` as a truth value")
                    if h in ("and", "or"):
                        for x in f.items[1:]:
                            if isinstance(x, L.Sym) and x.val in elem_names:
                                problems.append(f"`{f.text()[:50]}` uses the element `{x.val}` as a truth value")
        ctx.ob("C07.R3", f"{CORE}::{name}::elements are not truth-tested", CORE, d.line, not problems, "; ".join(problems[:2]),
               witness="(take 3 (iterate not true)) => (true); (dedupe [nil 1]) => ()")


@rule("C07.R4", floor=2)
def r4_sentinel_outside_element_domain(ctx):
    """A volatile that remembers the previous element / key starts from a namespaced-keyword
    sentinel (or a fresh object), never from nil / false / a number that an input may equal."""
    defs = _defs(ctx)
    n = 0
    for name in XF_FNS:
        d = defs.get(name)
        if d is None:
            continue
        for params, body in L.fn_arities(d):
            o, inner = _find_xf(body[-1]) if body else (None, None)
            if o is None or inner is None:
                continue
            for f in L.walk(o):
                if L.head(f) in ("let", "let*") and isinstance(f.items[1], L.Vec):
                    bs = f.items[1].items
                    for k, v in zip(bs[0::2], bs[1::2]):
                        if L.head(v) != "volatile!" or not isinstance(k, L.Sym):
                            continue
                        # is the cell compared with the input (or a key of it)?
                        # a "previous element" cell: overwritten (vreset!) with something computed from the input
                        remembers = any(L.head(c) == "vreset!" and len(c.items) == 3 and L.is_sym(c.items[1], k.val) and isinstance(c.items[2], (L.Sym, L.List)) and not L.is_sym(c.items[2], "true") and not L.is_sym(c.items[2], "false") and not L.is_sym(c.items[2], "nil") for c in L.walk(inner))
                        if not remembers:
                            continue
                        n += 1
                        init = v.items[1]
                        ok = (isinstance(init, L.Kw) and "/" in init.val) or L.head(init) in ("python/object", "gensym")
                        ctx.ob("C07.R4", f"{CORE}::{name}::(volatile! {init.text()}) for `{k.val}`", CORE, v.line, ok,
                               "" if ok else f"the remembered-previous cell starts as {init.text()}, a value an input (or key) can equal: the first such element is treated as a repeat")
    if n == 0:
        raise AnalysisError("no previous-element cells found in the transducers")


@rule("C07.R6", floor=1)
def r6_transducing_loop_does_not_look_ahead(ctx):
    """transduce checks (reduced? result) at the top of each iteration, so the iteration that calls xf
    must hand the *unrealised* remainder on ((rest coll)): a recur that also evaluates (next coll) /
    (seq (rest coll)) forces the element after the one that terminated the reduction -- early
    termination would still pull (and, for a blocking or throwing producer, wait for or fail on)
    one more input than the lazy form of the same pipeline."""
    td = _defs(ctx).get("transduce")
    if td is None:
        raise AnalysisError("anchor vanished: core.lpy::transduce")
    n = 0
    for params, body in L.fn_arities(td):
        for rc in (f for b in body for f in L.walk(b) if L.head(f) == "recur"):
            args = rc.items[1:]
            if not any(L.head(a) == "xf" or any(L.head(x) == "xf" for x in L.walk(a)) for a in args):
                continue
            n += 1
            eager = [x for a in args for x in L.walk(a) if L.head(x) == "next" or (L.head(x) == "seq" and len(x.items) == 2 and L.head(x.items[1]) in ("rest", "next"))]
            ctx.ob("C07.R6", f"{CORE}::transduce::`{rc.text()[:70]}` passes the remainder on unrealised", CORE, rc.line, not eager,
                   "" if not eager else f"`{eager[0].text()}` is evaluated in the same step as the xf call, before (reduced? result) is tested again: one element past the terminating one is realised",
                   witness="(transduce (take 2) conj [] s) over a lazy s whose third element throws")
    if n == 0:
        raise AnalysisError("transduce no longer has a recur that calls xf")


@rule("C07.R7", floor=3)
def r7_lazy_application_forms_scale_and_do_not_look_ahead(ctx):
    """`sequence` builds its result lazily, step by step.  A step must attach what it produced to
    the lazy remainder with cons: (concat chunk (the-recursive-call)) wraps one more iterator
    around the remainder for every step, so reaching element k needs k nested iterators and the
    interpreter's recursion limit is hit after about a thousand elements.  The eduction iterator
    takes (first s) / (rest s) of its input: destructuring [f & r] (nthnext) or (next s) realizes
    the element after the one being processed."""
    defs = _defs(ctx)
    sq = defs.get("sequence")
    if sq is None:
        raise AnalysisError("anchor vanished: core.lpy::sequence")
    n = 0
    for params, body in L.fn_arities(sq):
        if len(params.items) < 2:
            continue
        for fnf in (f for b in body for f in L.walk(b) if L.head(f) in ("fn", "fn*") and len(f.items) > 1 and isinstance(f.items[1], L.Sym)):
            self_name = fnf.items[1].val
            n += 1
            bad = [c for c in L.walk(fnf) if L.head(c) in ("concat", "lazy-cat") and any(L.head(x) == self_name or (L.head(x) == "apply" and len(x.items) > 1 and L.is_sym(x.items[1], self_name)) for a in c.items[1:] for x in L.walk(a))]
            ctx.ob("C07.R7", f"{CORE}::sequence {params.text()[:30]}::{self_name} attaches its output with cons, not concat", CORE, fnf.line, not bad,
                   "" if not bad else f"`{bad[0].text()[:70]}` nests one iterator per step: walking ~1000 elements raises RecursionError",
                   witness="(count (sequence (map inc) (vec (range 3000))))")
    if n == 0:
        raise AnalysisError("sequence lost its named step functions")
    es = next((t for t in ctx.lisp(CORE) if L.head(t) == "deftype" and len(t.items) > 1 and L.is_sym(t.items[1], "EductionSeq")), None)
    if es is None:
        raise AnalysisError("anchor vanished: core.lpy::EductionSeq")
    nxt = next((m for m in es.items if L.head(m) == "__next__"), None)
    if nxt is None:
        raise AnalysisError("anchor vanished: EductionSeq.__next__")
    ahead = [f for f in L.walk(nxt) if L.head(f) in ("next", "nnext", "nthnext")]
    for f in L.walk(nxt):
        if L.head(f) in ("let", "let*", "loop") and isinstance(f.items[1], L.Vec):
            for k in f.items[1].items[0::2]:
                if isinstance(k, L.Vec) and any(L.is_sym(x, "&") for x in k.items):
                    ahead.append(k)
    ctx.ob("C07.R7", f"{CORE}::EductionSeq.__next__::takes first / rest of its input", CORE, nxt.line, not ahead,
           "" if not ahead else f"`{ahead[0].text()[:40]}` realizes the element after the current one before xf has seen the current one",
           witness="(first (eduction (map inc) src)) over a source with one available element")


REDUCERS = ("src/basilisp/lang/runtime.py", "src/basilisp/lang/vector.py", "src/basilisp/lang/map.py", "src/basilisp/lang/set.py", "src/basilisp/lang/list.py", "src/basilisp/lang/seq.py", "src/basilisp/lang/queue.py")


@rule("C07.R5", floor=4)
def r5_reduce_unwraps_exactly_one_level(ctx):
    """Every reduce / reduce-kv loop of the runtime stops at a Reduced result and returns exactly
    `result.deref()`: one level.  The transducers rely on it: cat and mapcat hand an inner
    (reduced (reduced x)) to the enclosing reduce precisely so that one level survives and stops the
    outer reduction too (preserving-reduced); a reduce that unwrapped to the bottom, or not at all,
    would let `take` run on, or leak a wrapper into the result.  core's `unreduced` is one level too."""
    import ast as _ast
    from .. import pyfacts as P
    n = 0
    for rel in REDUCERS:
        try:
            tree = ctx.py(rel)
        except (FileNotFoundError, AnalysisError):
            continue
        for fn in P.all_defs(tree):
            tests = [t for t in _ast.walk(fn) if isinstance(t, (_ast.If, _ast.While)) and any(isinstance(c, _ast.Call) and P.un(c.func) == "isinstance" and len(c.args) == 2 and P.un(c.args[1]).split(".")[-1] == "Reduced" for c in _ast.walk(t.test))]
            tests = [t for t in tests if P.enclosing_func(t) is fn]
            for t in tests:
                n += 1
                inst = f"{rel}::{P.qual(fn)}::{P.un(t.test)}"
                if isinstance(t, _ast.While):
                    ctx.ob("C07.R5", inst, rel, t.lineno, False, "a loop keeps unwrapping while the value is Reduced: nested reduced values (cat/mapcat hand one up on purpose) lose every level, so the outer reduction is not stopped",
                           witness="(into [] (comp cat (take 3)) (repeat [1 2])) would not terminate")
                    continue
                call = next(c for c in _ast.walk(t.test) if isinstance(c, _ast.Call) and P.un(c.func) == "isinstance")
                var = P.un(call.args[0])
                neg = isinstance(t.test, _ast.UnaryOp) and isinstance(t.test.op, _ast.Not)
                branch = t.orelse if neg else t.body
                ok = len(branch) == 1 and isinstance(branch[0], _ast.Return) and branch[0].value is not None and P.un(branch[0].value) in (f"{var}.deref()", f"{var}.value")
                ctx.ob("C07.R5", inst, rel, t.lineno, ok,
                       "" if ok else f"the Reduced branch is not `return {var}.deref()`: reduce must stop here and unwrap exactly one level")
    d = _defs(ctx).get("unreduced")
    if d is None:
        raise AnalysisError("anchor vanished: core.lpy::unreduced")
    body = L.fn_arities(d)[0][1][-1]
    ok = L.head(body) == "if" and len(body.items) == 4 and body.items[1].text() == "(reduced? x)" and body.items[2].text() in ("@x", "(deref x)") and body.items[3].text() == "x"
    ctx.ob("C07.R5", f"{CORE}::unreduced::one level", CORE, d.line, ok, "" if ok else "unreduced no longer unwraps exactly one level")
    if n == 0:
        raise AnalysisError("no Reduced tests found in the runtime's reduce implementations")


SELFTEST = [
    {"name": "partition-by buffers the input before asking downstream (the repaired defect)", "file": CORE, "expect": "C07.R1",
     "old": "                (let [ret (rf result elem)]\n                  (when-not (reduced? ret)\n                    (.append lst input))\n                  ret)))))))))\n",
     "new": "                (.append lst input)\n                (rf result elem)))))))))\n"},
    {"name": "reduce unwraps nested reduced values completely", "file": "src/basilisp/lang/runtime.py", "expect": "C07.R5",
     "old": "        if isinstance(res, Reduced):\n            return res.deref()\n", "new": "        if isinstance(res, Reduced):\n            while isinstance(res, Reduced):\n                res = res.deref()\n            return res\n"},
    {"name": "vector reduce-kv forgets to stop", "file": "src/basilisp/lang/vector.py", "expect": "C07.R5",
     "old": "            init = f(init, idx, item)\n            if isinstance(init, Reduced):\n                return init.deref()\n", "new": "            init = f(init, idx, item)\n            if isinstance(init, Reduced):\n                init = init.deref()\n"},
    {"name": "map completion called twice", "file": CORE, "expect": "C07.R1",
     "old": "       ([result] (rf result))\n       ([result input]\n        (rf result (f input)))", "new": "       ([result] (rf (rf result)))\n       ([result input]\n        (rf result (f input)))"},
    {"name": "partition-all flush without unreduced", "file": CORE, "expect": "C07.R1", "first": True,
     "old": "                         (unreduced (rf result (vec lst))))]", "new": "                         (rf result (vec lst)))]"},
    {"name": "interpose feeds rf result into rf (the repaired defect)", "file": CORE, "expect": "C07.R1",
     "old": "            (let [sep-result (rf result sep)]\n              (if (reduced? sep-result)\n                sep-result\n                (rf sep-result input)))))))))", "new": "            (rf (rf result sep) input)))))))"},
    {"name": "cat reduces with the raw rf (the repaired defect)", "file": CORE, "expect": "C07.R1",
     "old": "       (reduce preserving-reduced result input)))))", "new": "       (reduce rf result input)))))"},
    {"name": "seeded C07/a: take terminates on equality", "file": CORE, "expect": "C07.R1",
     "old": "            (if (pos? nn)\n              result\n              (ensure-reduced result))))))))",
     "new": "            (if (zero? nn)\n              (ensure-reduced result)\n              result)))))))"},
    {"name": "take terminates one input late (the repaired defect)", "file": CORE, "expect": "C07.R1",
     "old": "          (let [n      @remaining\n                nn     (vswap! remaining dec)\n                result (if (pos? n)\n                         (rf result input)\n                         result)]\n            (if (pos? nn)\n              result\n              (ensure-reduced result))))))))",
     "new": "          (if (pos? (vswap! remaining dec))\n            (rf result input)\n            (ensure-reduced result)))))))",
     "edits": [
         {"file": CORE, "old": "     (let [remaining (volatile! n)]\n       (fn\n         ([] (rf))\n         ([result] (rf result))\n         ([result input]\n          ;; Signal termination", "new": "     (let [remaining (volatile! (inc n))]\n       (fn\n         ([] (rf))\n         ([result] (rf result))\n         ([result input]\n          ;; Signal termination"},
         {"file": CORE, "old": "          (let [n      @remaining\n                nn     (vswap! remaining dec)\n                result (if (pos? n)\n                         (rf result input)\n                         result)]\n            (if (pos? nn)\n              result\n              (ensure-reduced result))))))))",
          "new": "          (if (pos? (vswap! remaining dec))\n            (rf result input)\n            (ensure-reduced result)))))))"},
     ]},
    {"name": "sequence concatenates onto its own recursion (the repaired defect)", "file": CORE, "expect": "C07.R7", "first": True,
     "old": "                                   (seq elem)      (reduce* #(cons %2 %1)\n                                                            (create-sequence (rest coll))\n                                                            (reverse elem))",
     "new": "                                   (seq elem)      (concat elem (create-sequence (rest coll)))"},
    {"name": "eduction destructures its input with & (the repaired defect)", "file": CORE, "expect": "C07.R7",
     "old": "        (let [f (first s)\n              r (rest s)\n              v (xf nil f)]", "new": "        (let [[f & r] s\n              v       (xf nil f)]"},
    {"name": "transduce completes only on exhaustion", "file": CORE, "expect": "C07.R2",
     "old": "           (reduced? result) (xf @result)\n", "new": "           (reduced? result) @result\n"},
    {"name": "sequence completes in every step (the repaired defect)", "file": CORE, "expect": "C07.R2", "first": True,
     "old": "                                                            (create-sequence (rest coll))\n                                                            (reverse elem))", "new": "                                                            (create-sequence (rest coll))\n                                                            (reverse (xf elem)))"},
    {"name": "eduction never completes on exhaustion (the repaired defect)", "file": CORE, "expect": "C07.R2",
     "old": "          (set! coll nil)\n          (when-not completed\n            (set! completed true)\n            (xf nil))\n", "new": "          (set! coll nil)\n"},
    {"name": "filter tests the element", "file": CORE, "expect": "C07.R3",
     "old": "    (when-let [coll (seq coll)]\n      (if (pred (first coll))\n        (cons (first coll) (filter pred (rest coll)))\n        (filter pred (rest coll)))))))",
     "new": "    (when-let [e (first coll)]\n      (if (pred e)\n        (cons e (filter pred (rest coll)))\n        (filter pred (rest coll)))))))"},
    {"name": "iterate stops on falsey (the repaired defect)", "file": CORE, "expect": "C07.R3",
     "old": "   (cons x (lazy-seq (iterate f (f x))))))", "new": "   (when x\n     (cons x (lazy-seq (iterate f (f x)))))))"},
    {"name": "dedupe transducer starts from nil", "file": CORE, "expect": "C07.R4",
     "old": "(volatile! :basilisp.core.dedupe/default)", "new": "(volatile! nil)"},
    # twins
    {"name": "twin: when-let on the seq, not the element", "file": CORE, "expect": None,
     "old": "      (when-let [coll (seq coll)]\n        (let [e (first coll)]\n          (cons e (coll-dedupe (rest coll) e))))))))", "new": "      (let [coll (seq coll)]\n        (when coll\n          (let [e (first coll)]\n            (cons e (coll-dedupe (rest coll) e)))))))))"},
]


CELL_MAKERS = ("volatile!", "atom", "python/list", "python/dict", "python/set", "transient", "object-array")


def _is_rf_fn(f) -> bool:
    if L.head(f) not in ("fn", "fn*"):
        return False
    pv = next((x for x in f.items[1:3] if isinstance(x, L.Vec)), None)
    return pv is not None and [p.text() for p in pv.items] == ["rf"]


def _is_fn_form(f) -> bool:
    return L.head(f) in ("fn", "fn*") or isinstance(f, L.FnLit)


def _inside(f, pred, stop) -> bool:
    for a in L.ancestors(f):
        if a is stop:
            return False
        if pred(a):
            return True
    return False


def _state_sharing(defs: dict):
    """-> (xf_arities, problems).  xf_arities: name -> set of argument counts at which the function
    returns a transducer (its body holds `(fn [rf] ...)`, or it delegates to such an arity of another
    function, least fixpoint).  problems: (name, line, text) for every mutable cell that one
    transducer *value* would share between its applications."""
    arities = {n: L.fn_arities(d) for n, d in defs.items()}
    # a function of exactly [rf] *is* the (fn [rf] ...) (cat): a transducer value, not a maker of one
    values = {n for n, ars in arities.items() if len(ars) == 1 and [p.text() for p in ars[0][0].items] == ["rf"]}
    xf = {}
    for n in XF_FNS:
        for params, body in arities.get(n, []):
            cnt, var = L.param_count(params)
            if body and not var and _find_xf(body[-1])[0] is not None:
                xf.setdefault(n, set()).add(cnt)

    def xf_call(f) -> bool:
        h = L.head(f)
        return h in xf and (len(f.items) - 1) in xf[h]

    for _ in range(4):  # delegation: (remove pred) = (filter (complement pred)), mapcat = (comp (map f) cat)
        for n, ars in arities.items():
            for params, body in ars:
                cnt, var = L.param_count(params)
                if not body or var or cnt in xf.get(n, ()):
                    continue
                tail = body[-1]
                if xf_call(tail) or (L.head(tail) == "comp" and any(xf_call(a) or (isinstance(a, L.Sym) and a.val in values) for a in tail.items[1:])):
                    xf.setdefault(n, set()).add(cnt)
    # per-call state makers: a cell created at the call level of an arity that also builds a closure
    makers = {}
    for n, ars in arities.items():
        d = defs[n]
        for params, body in ars:
            for b in body:
                for f in L.walk(b):
                    if L.head(f) in CELL_MAKERS and not _inside(f, _is_fn_form, d) and any(_is_fn_form(g) for g in L.walk(b)):
                        makers.setdefault(n, f)
    problems = []
    for n, ars in arities.items():
        d = defs[n]
        if n in values:
            continue
        for params, body in ars:
            cnt, var = L.param_count(params)
            is_xf_arity = cnt in xf.get(n, ()) and not var
            for b in body:
                for f in L.walk(b):
                    if _inside(f, _is_rf_fn, d) or _is_rf_fn(f):
                        continue
                    # (a) a cell created in a transducer arity but outside (fn [rf] ...)
                    if is_xf_arity and L.head(f) in CELL_MAKERS:
                        problems.append((n, f.line, f"{f.text()[:60]} is created when the transducer is made, outside (fn [rf] ...)"))
                    # (b) a per-call state maker called for the argument of a transducer-returning call
                    if xf_call(f):
                        for a in f.items[1:]:
                            for g in L.walk(a):
                                if L.head(g) in makers and not _inside(g, _is_rf_fn, d):
                                    problems.append((n, g.line, f"({L.head(f)} {a.text()[:50]}): `{L.head(g)}` creates {makers[L.head(g)].text()[:40]} once, when the transducer value is made"))
    for n in values:
        xf.setdefault(n, set())
    return xf, problems


_R8_POSITIVE = """
(defn- indexed-fn [f] (let [idx (volatile! -1)] (fn [input] (f (vswap! idx inc) input))))
(defn map ([f] (fn [rf] (fn ([] (rf)) ([result] (rf result)) ([result input] (rf result (f input)))))) ([f coll] nil))
(defn map-indexed ([f] (map (indexed-fn f))) ([f coll] nil))
(defn keep-indexed ([f] (let [idx (volatile! -1)] (fn [rf] (fn ([] (rf)) ([r] (rf r)) ([r i] (rf r (f (vswap! idx inc) i))))))) ([f coll] nil))
"""


@rule("C07.R8", floor=15)
def r8_transducer_state_is_per_application(ctx):
    """A transducer is a value: the same `(map-indexed f)` may be applied to several reducing
    functions (a named xf used by two `into`s, an eduction iterated twice), and every application
    starts from fresh state.  So the mutable cells of a transducer are created inside `(fn [rf] ...)`:
    none in a transducer arity outside it, and no function that creates a cell per call and returns
    a closure over it is called, outside `(fn [rf] ...)`, for the argument of a transducer-returning
    call (`(map (indexed-fn f))` counts on across applications)."""
    # the detector must find both shapes in a tiny positive example, on every run
    pos = L.top_defs(L.read_all(_R8_POSITIVE, "<C07.R8 positive example>"))
    _xf, pp = _state_sharing(pos)
    if {p[0] for p in pp} != {"map-indexed", "keep-indexed"}:
        raise AnalysisError(f"C07.R8's detector no longer finds its positive examples: {pp}")
    defs = _defs(ctx)
    xf, problems = _state_sharing(defs)
    by = {}
    for n, line, text in problems:
        by.setdefault(n, []).append((line, text))
    for n in sorted(set(xf) | set(by)):
        bad = by.get(n)
        ok = not bad
        ctx.ob("C07.R8", f"{CORE}::{n}::transducer state is created per application", CORE, (bad[0][0] if bad else defs[n].line), ok,
               "" if ok else f"{bad[0][1]}: a second application of the same transducer value continues from the state the first one left",
               witness="(let [xf (map-indexed vector)] [(into [] xf [:a]) (into [] xf [:a])]) must be [[[0 :a]] [[0 :a]]]")
    missing = [n for n in XF_FNS if n not in xf]
    if missing:
        raise AnalysisError(f"no transducer arity recognised for {missing}")
