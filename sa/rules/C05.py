"""C05 -- equality is an equivalence that hashing and lookup respect."""
from __future__ import annotations

import ast
import importlib.util
import os

from ..core import AnalysisError, rule
from .. import lispread as L
from .. import pyfacts as P

IFACE = "src/basilisp/lang/interfaces.py"
VEC = "src/basilisp/lang/vector.py"
LST = "src/basilisp/lang/list.py"
QUE = "src/basilisp/lang/queue.py"
MAP = "src/basilisp/lang/map.py"
SET = "src/basilisp/lang/set.py"
SEQ = "src/basilisp/lang/seq.py"
RT = "src/basilisp/lang/runtime.py"
CORE = "src/basilisp/core.lpy"

EXPLANATION = (
    "Sibling-agreement rules: the classes whose __eq__ reduces to seq_equals form one equality family (computed through the "
    "repo-local MRO); every member's __hash__ must normalise to the same canonical expression hash(tuple(elements)), through "
    "one level of delegate whose Python source says so (a native delegate is opaque, hence not provably equal); element "
    "comparison inside collection equality must go through the boolean-aware comparison, not raw ==; runtime.equals guards both "
    "operands and core = routes every pair through it; every family __eq__ reaches seq_equals behind symmetric guards only."
)
DECIDES = "hash agreement inside the sequential equality family, boolean-aware element comparison (sequences, map values, tagged literals), operand-symmetric equality entry points, stored hashes never leave their process through pickling"
DECLINED = "transitivity over concrete triples of mixed numbers (Python numeric tower); key conflation inside third-party hash maps"
TRUSTED = ["FT-delegate: __hash__ of pyrsistent plist/pdeque read from their Python sources; pvectorc is native (opaque)", "Python: True == 1, hash(True) == hash(1)"]
ASSUMPTIONS = []
TECHNIQUE = "equality-family computation over the class table (repo-local MRO) + canonicalisation of __hash__ expressions + comparison-operator audit"

FILES = (VEC, LST, QUE, IFACE, SEQ)
CANON = "hash(tuple(<elements>))"


def _class_table(ctx):
    table = {}
    for rel in FILES + (MAP, SET):
        for c in P.all_classes(ctx.py(rel)):
            table[c.name] = (rel, c)
    return table


def _bases(cls):
    out = []
    for b in cls.bases:
        n = b.value if isinstance(b, ast.Subscript) else b
        d = P.dotted(n)
        if d:
            out.append(d.split(".")[-1].lstrip("_") if False else d.split(".")[-1])
    return out


def _resolve(table, cname, meth, seen=None):
    """(rel, class, method node) of the first definition of `meth` along a depth-first,
    left-to-right walk of the repo-local bases (sufficient here: no diamond redefines these)."""
    seen = seen or set()
    if cname in seen or cname not in table:
        return None
    seen.add(cname)
    rel, cls = table[cname]
    m = P.methods(cls).get(meth)
    if m is not None:
        return rel, cls, m
    for b in _bases(cls):
        r = _resolve(table, b, meth, seen)
        if r is not None:
            return r
    return None


def _delegate_hash(annotation: str):
    """Canonical form of the delegate's own __hash__, from pyrsistent's Python source."""
    mod = {"PList": ("pyrsistent._plist", "_PListBase"), "PDeque": ("pyrsistent._pdeque", "PDeque"), "PVector": ("pyrsistent._pvector", "PythonPVector")}.get(annotation)
    if mod is None:
        return None, f"unknown delegate type {annotation}"
    if annotation == "PVector":
        # pyrsistent prefers the C extension pvectorc when it is importable
        spec = importlib.util.find_spec("pvectorc")
        if spec is not None:
            return None, "the delegate is pvectorc.PVector, a native type whose hash is not hash(tuple(elements))"
    spec = importlib.util.find_spec(mod[0].split(".")[0])
    if spec is None or not spec.submodule_search_locations:
        return None, "pyrsistent not found"
    path = os.path.join(list(spec.submodule_search_locations)[0], mod[0].split(".")[1] + ".py")
    tree = ast.parse(open(path).read())
    for c in ast.walk(tree):
        if isinstance(c, ast.ClassDef) and c.name == mod[1]:
            for f in c.body:
                if isinstance(f, ast.FunctionDef) and f.name == "__hash__":
                    rets = [P.un(r.value) for r in ast.walk(f) if isinstance(r, ast.Return) and r.value is not None]
                    if rets == ["hash(tuple(self))"]:
                        return CANON, f"{mod[0]}.{mod[1]}.__hash__ = hash(tuple(self))"
                    return None, f"{mod[1]}.__hash__ returns {rets}"
    return None, f"{mod[1]}.__hash__ not found"


def _iter_source(cls):
    it = P.methods(cls).get("__iter__")
    if it is None:
        return None
    for n in ast.walk(it):
        if isinstance(n, ast.YieldFrom):
            return P.un(n.value)
        if isinstance(n, ast.Return) and isinstance(n.value, ast.Call) and P.un(n.value.func) == "iter":
            return P.un(n.value.args[0])
    return None


def _canonical_hash(table, cname):
    r = _resolve(table, cname, "__hash__")
    if r is None:
        return None, "no __hash__ in the repo-local MRO", None
    rel, cls, m = r
    rets = [P.un(x.value) for x in ast.walk(m) if isinstance(x, ast.Return) and x.value is not None]
    if len(rets) != 1:
        return None, f"__hash__ has {len(rets)} returns", (rel, m)
    e = rets[0]
    # memoisation idiom: `if self.F is None: self.F = <expr>` ... `return self.F`  (whether the stored
    # value may leave the process is R6's business)
    if e.startswith("self.") and e.count(".") == 1:
        stores = [s for s in ast.walk(m) if isinstance(s, ast.Assign) and len(s.targets) == 1 and P.un(s.targets[0]) == e]
        if len(stores) == 1 and isinstance(P.parent(stores[0]), ast.If) and P.un(P.parent(stores[0]).test) == f"{e} is None":
            e = P.un(stores[0].value)
    if e == "hash(tuple(self))":
        return CANON, f"{cls.name}.__hash__ = {e}", (rel, m)
    if e == "hash(tuple(self._inner))":
        src = _iter_source(table[cname][1]) or _iter_source(cls)
        if src == "self._inner":
            return CANON, f"{cls.name}.__hash__ = {e} and __iter__ yields self._inner", (rel, m)
        return None, f"{e} but iteration of the collection is not its _inner", (rel, m)
    if e == "hash(self._inner)":
        init = P.methods(cls).get("__init__")
        ann = None
        if init is not None and len(init.args.args) > 1 and init.args.args[1].annotation is not None:
            a = init.args.args[1].annotation
            ann = (a.value if isinstance(a, ast.Constant) else P.un(a)).split("[")[0].strip('"')
        canon, why = _delegate_hash(ann) if ann else (None, "delegate type not annotated")
        return canon, f"{cls.name}.__hash__ = {e}; {why}", (rel, m)
    # one level of helper: hash(helper(self))
    return None, f"{cls.name}.__hash__ = {e}: not a recognised canonical form", (rel, m)


def _family(table):
    fam = []
    for cname, (rel, cls) in sorted(table.items()):
        if rel in (MAP, SET):
            continue
        r = _resolve(table, cname, "__eq__")
        if r is None:
            continue
        if any(P.un(c.func) == "seq_equals" for c in P.calls(r[2])):
            if cname.startswith(("I", "Transient")) and cname not in ("ISeq",):
                continue
            fam.append(cname)
    return fam


@rule("C05.R1", floor=5)
def r1_hash_agreement_in_equality_family(ctx):
    """Every class whose __eq__ reduces to seq_equals hashes as hash(tuple(elements)): values that
    are = must have the same hash to find each other as map keys / set members."""
    table = _class_table(ctx)
    fam = _family(table)
    ctx.note(f"C05.R1 sequential equality family: {fam}")
    if len(fam) < 5:
        raise AnalysisError(f"equality family shrank to {fam}")
    for cname in fam:
        canon, why, where = _canonical_hash(table, cname)
        rel, m = where if where else (table[cname][0], table[cname][1])
        ok = canon == CANON
        ctx.ob("C05.R1", f"{table[cname][0]}::{cname}.__hash__ canonical", rel, getattr(m, "lineno", 0), ok,
               why if ok else f"{why}: {cname} is = to lists/seqs with the same elements but need not hash like them",
               witness="(get {[1 2] :a} '(1 2)) => nil although (= [1 2] '(1 2))")


KWF = "src/basilisp/lang/keyword.py"


@rule("C05.R5", floor=3)
def r5_set_hash_and_keyword_identity(ctx):
    """A PersistentSet is = to every Set with the same members (frozenset included), so it hashes
    with the Set-protocol hash (self._hash(), frozenset-compatible). A PersistentMap is = only to
    other Mappings; hashable ones are PersistentMaps, which all hash their delegate. Keyword
    equality may rely on identity only if interning is atomic: either __eq__ also compares (name,
    ns) or every intern-table lookup and insertion of keyword_from_hash is inside one `with _LOCK`."""
    scls = P.find_def(ctx.py(SET), "PersistentSet")
    h = P.methods(scls).get("__hash__")
    rets = [P.un(r.value) for r in ast.walk(h) if isinstance(r, ast.Return)] if h else []
    ok = rets == ["self._hash()"]
    ctx.ob("C05.R5", f"{SET}::PersistentSet.__hash__::{' | '.join(rets)}", SET, getattr(h, "lineno", 0), ok,
           "" if ok else "the set no longer hashes with the Set-protocol hash: it stays = to a frozenset with the same members but cannot be found by it as a map key / set member",
           witness="(= #{1 2} (python/frozenset [1 2])) is true while their hashes differ")
    kt = ctx.py(KWF)
    kcls = P.find_def(kt, "Keyword")
    eq = P.methods(kcls).get("__eq__")
    structural = eq is not None and "_name" in P.un(eq) and "_ns" in P.un(eq)
    kfh = P.find_def(kt, "keyword_from_hash")
    if kfh is None:
        raise AnalysisError("anchor vanished: keyword_from_hash")
    ops = [n for n in ast.walk(kfh) if isinstance(n, ast.Call) and P.un(n.func) in ("_INTERN.val_at", "_INTERN.assoc")]
    withs = {id(w) for n in ops for w, it in P.with_items_enclosing(n, kfh) if P.un(it.context_expr) == "_LOCK"}
    atomic = bool(ops) and all(any(P.un(it.context_expr) == "_LOCK" for _w, it in P.with_items_enclosing(n, kfh)) for n in ops) and len(withs) == 1
    ok = structural or atomic
    ctx.ob("C05.R5", f"{KWF}::Keyword.__eq__ structural={structural} / interning atomic={atomic}", KWF, getattr(eq, "lineno", 0), ok,
           "" if ok else "keywords compare by identity only while the intern table is read outside the lock that guards insertion: two threads creating the same keyword get two unequal objects that print and hash alike")
    hh = P.methods(kcls).get("__hash__")
    ok = hh is not None and [P.un(r.value) for r in ast.walk(hh) if isinstance(r, ast.Return)] == ["self._hash"] and "self._hash = hash_kw(name, ns)" in P.un(P.methods(kcls)["__init__"])
    ctx.ob("C05.R5", f"{KWF}::Keyword.__hash__ is hash_kw(name, ns)", KWF, getattr(hh, "lineno", 0), ok, "" if ok else "a keyword's hash is not a function of (name, ns): equal keywords could hash differently")


PICKLE_HOOKS = ("__reduce__", "__reduce_ex__", "__getstate__")


def _stored_hash_classes(ctx):
    """(rel, class, field, defining expression) for every class of basilisp.lang whose __hash__
    returns a field of the instance that is assigned from an expression calling a hash function."""
    out = []
    for rel in sorted(ctx.glob("src/basilisp/lang", ".py")):
        for cls in P.all_classes(ctx.py(rel)):
            h = P.methods(cls).get("__hash__")
            if h is None:
                continue
            rets = [r.value for r in ast.walk(h) if isinstance(r, ast.Return) and r.value is not None]
            fields = {P.un(r) for r in rets if isinstance(r, ast.Attribute) and P.un(r.value) == "self"}
            for f in sorted(fields):
                defs = [s for m in P.methods(cls).values() for s in ast.walk(m) if isinstance(s, (ast.Assign, ast.AnnAssign)) and s.value is not None
                        and any(P.un(t) == f for t in (s.targets if isinstance(s, ast.Assign) else [s.target]))
                        and any(isinstance(c, ast.Call) and (P.un(c.func) == "hash" or P.un(c.func).startswith("hash_")) for c in ast.walk(s.value))]
                if defs:
                    out.append((rel, cls, f, defs[0]))
    return out


@rule("C05.R6", floor=3)
def r6_stored_hash_stays_in_its_process(ctx):
    """A hash stored in the instance is a function of the process's string-hash seed.  Default
    pickling copies every slot, so such an object unpickled by a process with another seed (the
    compiler pickles constants without a dedicated emitter into cached bytecode; users pickle
    data) stays = to a fresh equal value but hashes differently: map lookup and set membership
    fail.  Every class that stores its hash must therefore define its pickled form (__reduce__ /
    __getstate__) without the stored hash -- or pass it only as a hint to a constructor that
    recomputes it (keyword_from_hash, checked by C14.R4)."""
    classes = _stored_hash_classes(ctx)
    table = {}
    for rel in sorted(ctx.glob("src/basilisp/lang", ".py")):
        for c in P.all_classes(ctx.py(rel)):
            table.setdefault(c.name, (rel, c))
    for rel, cls, field, d in classes:
        inst = f"{rel}::{cls.name}::stored hash {field}"
        hook = None
        seen, work = set(), [cls]
        while work and hook is None:
            c = work.pop(0)
            if c.name in seen:
                continue
            seen.add(c.name)
            for hname in PICKLE_HOOKS:
                if hname in P.methods(c):
                    hook = P.methods(c)[hname]
                    break
            work.extend(table[P.un(b).split("[")[0].split(".")[-1]][1] for b in c.bases if P.un(b).split("[")[0].split(".")[-1] in table)
        if hook is None:
            ctx.ob("C05.R6", inst, rel, d.lineno, False,
                   f"{cls.name} stores its hash ({P.un(d)[:60]}) and is pickled with its default state: an instance unpickled under another PYTHONHASHSEED is = to a fresh equal value but hashes differently",
                   witness="pickle.dumps under PYTHONHASHSEED=1, pickle.loads under PYTHONHASHSEED=2: ({fresh: 1}).get(loaded) is None")
            continue
        txt = P.un(hook)
        ok = field not in txt
        why = ""
        if not ok:
            # the stored hash is passed on: acceptable only as a hint to a repo function that recomputes it
            rets = [r.value for r in ast.walk(hook) if isinstance(r, ast.Return) and isinstance(r.value, ast.Tuple) and r.value.elts]
            target = P.un(rets[0].elts[0]) if rets else None
            tfn = P.find_def(ctx.py(rel), target) if target else None
            recomputes = tfn is not None and any(isinstance(c, ast.Call) and (P.un(c.func) == "hash" or P.un(c.func).startswith("hash_")) for c in ast.walk(tfn))
            ok = recomputes
            why = "" if ok else f"{hook.name} hands the stored hash to {target}, which does not recompute it"
        ctx.ob("C05.R6", inst, rel, hook.lineno, ok, why)
    if not classes:
        raise AnalysisError("no class with a stored hash found (Keyword/Symbol anchors vanished)")


@rule("C05.R2", floor=3)
def r2_elements_compared_boolean_aware(ctx):
    """Collection equality must not compare elements (or whole delegates) with raw == / != or hand
    the comparison to a generic container: Python conflates True with 1 and False with 0."""
    it = ctx.py(IFACE)
    se = P.find_def(it, "seq_equals")
    if se is None:
        raise AnalysisError("anchor vanished: seq_equals")
    loops = [n for n in ast.walk(se) if isinstance(n, ast.For)]
    elem_names = set()
    for l in loops:
        elem_names |= {t.id for t in ast.walk(l.target) if isinstance(t, ast.Name)}
    raw = [c for c in ast.walk(se) if isinstance(c, ast.Compare) and any(isinstance(o, (ast.Eq, ast.NotEq)) for o in c.ops) and (P.names_read(c) & elem_names)]
    ok = not raw
    ctx.ob("C05.R2", f"{IFACE}::seq_equals::element comparison", IFACE, se.lineno, ok,
           "" if ok else f"`{P.un(raw[0])}` compares elements with raw Python equality: (= [true] [1]) is true although (= true 1) is false", witness="(= [true] [1])")
    # the helper it uses must separate bool/None from numbers on both operands
    helper_calls = [c for c in P.calls(se) if isinstance(c.func, ast.Name) and len(c.args) == 2 and {P.un(a) for a in c.args} <= elem_names]
    for c in helper_calls:
        h = P.find_def(it, c.func.id)
        if h is None:
            ctx.ob("C05.R2", f"{IFACE}::seq_equals::{P.un(c)}", IFACE, c.lineno, False, "element comparison helper is not defined in this module")
            continue
        w = _separates_bool_and_nil(it, h)
        ctx.ob("C05.R2", f"{IFACE}::{h.name}::guards both operands", IFACE, h.lineno, not w, "" if not w else f"the element comparison does not keep booleans/nil apart from numbers on both sides: {w}")
    # a value wrapper is equal exactly when what it wraps is: the wrapped forms are elements too
    TAGGED = "src/basilisp/lang/tagged.py"
    tcls = P.find_def(ctx.py(TAGGED), "TaggedLiteral")
    teq = P.methods(tcls).get("__eq__") if tcls is not None else None
    if teq is None:
        raise AnalysisError("anchor vanished: TaggedLiteral.__eq__")
    rawf = [c for c in ast.walk(teq) if isinstance(c, ast.Compare) and any(isinstance(o, (ast.Eq, ast.NotEq)) for o in c.ops)
            and {P.un(c.left), P.un(c.comparators[0])} == {"self._form", "other._form"}]
    ctx.ob("C05.R2", f"{TAGGED}::TaggedLiteral.__eq__::the wrapped forms are compared boolean-aware", TAGGED, teq.lineno, not rawf,
           "" if not rawf else f"`{P.un(rawf[0])}` compares the wrapped forms with raw Python equality: a tagged boolean equals the same tag around 1 / 0",
           witness="(= (tagged-literal 'x 1) (tagged-literal 'x true)) => true")
    for rel, cname in ((MAP, "PersistentMap"), (SET, "PersistentSet")):
        cls = P.find_def(ctx.py(rel), cname)
        eq = P.methods(cls).get("__eq__")
        if eq is None:
            raise AnalysisError(f"anchor vanished: {cname}.__eq__")
        deleg = [r for r in ast.walk(eq) if isinstance(r, ast.Return) and r.value is not None and (("self._inner ==" in P.un(r.value)) or "AbstractSet.__eq__" in P.un(r.value) or "Mapping.__eq__" in P.un(r.value))]
        ok = not deleg
        if ok:
            # an element-wise walk has to use the boolean-aware comparison on what it walks over
            walked = set()
            for l in [n for n in ast.walk(eq) if isinstance(n, (ast.For, ast.comprehension))]:
                walked |= {t.id for t in ast.walk(l.target) if isinstance(t, ast.Name)}
                body = l.body if isinstance(l, ast.For) else []
                walked |= {t.id for s in body for a in ast.walk(s) if isinstance(a, ast.Assign) for t in ast.walk(a.targets[0]) if isinstance(t, ast.Name)}
            rawc = [c for c in ast.walk(eq) if isinstance(c, ast.Compare) and any(isinstance(o, (ast.Eq, ast.NotEq)) for o in c.ops) and (P.names_read(c) & walked)]
            if rawc:
                ctx.ob("C05.R2", f"{rel}::{cname}.__eq__::element comparison", rel, rawc[0].lineno, False,
                       f"`{P.un(rawc[0])}` compares values with raw Python equality: a boolean equals a number inside an otherwise equal collection",
                       witness="(= {:a true} {:a 1}) => true")
                continue
        ctx.ob("C05.R2", f"{rel}::{cname}.__eq__::{P.un(deleg[0].value) if deleg else 'element-wise'}", rel, eq.lineno, ok,
               "" if ok else "values/members are compared by the generic container, i.e. with Python ==: a boolean equals a number inside an otherwise equal collection",
               witness="(= {:a true} {:a 1}) => true" if cname == "PersistentMap" else "(= #{true} #{1}) => true")



def _separates_bool_and_nil(tree, fn) -> str:
    """Evaluates a two-argument equality function of the repository (own interpreter, nothing is
    imported) on every pair over booleans, nil, equal-looking numbers and strings; it has to answer
    `a is b` when either side is a boolean or nil, and `a == b` otherwise.  Returns "" or a witness."""
    from ..minipy import Interp, PyRaise, Unsupported
    g = {}
    for st in tree.body:  # module-level constants such as a tuple of classes
        if isinstance(st, ast.Assign) and len(st.targets) == 1 and isinstance(st.targets[0], ast.Name) and isinstance(st.value, (ast.Tuple, ast.Constant)):
            try:
                g[st.targets[0].id] = Interp().eval(st.value, {})
            except Exception:
                pass
    interp = Interp(globals_=g)
    dom = [True, False, None, 0, 1, 1.0, 0.0, 2, "a", ""]
    try:
        for a in dom:
            for b in dom:
                want = (a is b) if isinstance(a, (bool, type(None))) or isinstance(b, (bool, type(None))) else (a == b)
                got = interp.call_function(fn, [a, b], {})
                if bool(got) != want:
                    return f"{fn.name}({a!r}, {b!r}) answers {got!r}, must be {want!r}"
    except Unsupported as e:
        raise AnalysisError(f"{fn.name} outside the interpretable fragment: {e}")
    except PyRaise as e:
        return f"{fn.name} raises {e.name} on plain values"
    return ""


@rule("C05.R3", floor=3)
def r3_equals_entry_points(ctx):
    """runtime.equals tests both operands for bool/None before ==; core = sends every adjacent
    pair through runtime/equals; not= negates =."""
    eq = ctx.fn(RT, "equals")
    w = _separates_bool_and_nil(ctx.py(RT), eq)
    ctx.ob("C05.R3", f"{RT}::equals::bool/None guard on both operands", RT, eq.lineno, not w, "" if not w else f"equals no longer keeps booleans and nil apart from numbers for both operands: {w}")
    defs = L.top_defs(ctx.lisp(CORE))
    d = defs.get("=")
    if d is None:
        raise AnalysisError("anchor vanished: core.lpy::=")
    ar = L.fn_arities(d)
    var = [(p, b) for p, b in ar if any(L.is_sym(x, "&") for x in p.items)]
    ok = False
    if var:
        p, body = var[0]
        t = L.expand_lets(body[-1])  # whatever explaining names the arity binds
        x, rest = p.items[0].text(), p.items[-1].text()
        ok = t == f"(if (seq (rest {rest})) (if (basilisp.lang.runtime/equals {x} (first {rest})) (recur (first {rest}) (rest {rest})) false) (basilisp.lang.runtime/equals {x} (first {rest})))"
    ctx.ob("C05.R3", f"{CORE}::=::every adjacent pair goes through runtime/equals", CORE, d.line, ok, "" if ok else "core = no longer chains runtime/equals over adjacent pairs")
    ne = defs.get("not=")
    ok = ne is not None and "(not (apply = " in ne.text().replace("\n", " ") or (ne is not None and "(not (= " in ne.text())
    ctx.ob("C05.R3", f"{CORE}::not=::negation of =", CORE, ne.line if ne else 0, bool(ok), "" if ok else "not= is not the negation of =")


@rule("C05.R4", floor=4)
def r4_symmetric_predicate(ctx):
    """Every __eq__ of the sequential family reaches seq_equals behind guards that are symmetric in
    (self, other): identity, and a length comparison only when the other side is sized; seq_equals
    treats its two arguments alike and answers NotImplemented for a non-sequential operand; map
    and set __eq__ answer NotImplemented for foreign operand kinds."""
    table = _class_table(ctx)
    for cname in _family(table):
        rel, cls = table[cname]
        eq = P.methods(cls).get("__eq__")
        if eq is None:
            continue  # inherited
        problems = []
        for s in eq.body:
            if isinstance(s, ast.Expr):
                continue
            t = P.un(s)
            if t in ("if self is other: return True", "return seq_equals(self, other)"):
                continue
            if t.replace("collections.abc.", "") in ("if isinstance(other, Sized) and len(self) != len(other): return False",
                                                      "if isinstance(other, Sized) and len(other) != len(self): return False"):
                continue
            if "hasattr(other, '__len__')" in t and "len(other)" in t:
                # true of class objects too (list, dict, a record type): len(other) then raises TypeError
                problems.append(t + "  [hasattr(other, '__len__') also holds for classes, whose len() raises: (= [] python/list) is a TypeError, not false]")
                continue
            problems.append(t)
        ctx.ob("C05.R4", f"{rel}::{cname}.__eq__::symmetric guards then seq_equals", rel, eq.lineno, not problems, "" if not problems else f"`{problems[0][:90]}` is not one of the symmetric guards: a = b and b = a may disagree")
    it = ctx.py(IFACE)
    se = P.find_def(it, "seq_equals")
    txt = P.un(se)
    # both sequences are walked together, padded with one private sentinel, and *each* element is
    # tested against it (whatever the locals are called)
    ok = False
    pa = [a.arg for a in se.args.args[:2]]
    for c in P.calls(se):
        if P.un(c.func).endswith("zip_longest") and [P.un(a) for a in c.args] == pa:
            fv = next((P.un(k.value) for k in c.keywords if k.arg == "fillvalue"), None)
            for lp in ast.walk(se):
                if isinstance(lp, ast.For) and isinstance(lp.target, ast.Tuple) and len(lp.target.elts) == 2 and (P.contains(lp.iter, c) or (isinstance(lp.iter, ast.Name) and any(
                        isinstance(a, ast.Assign) and P.un(a.targets[0]) == lp.iter.id and P.contains(a.value, c) for a in ast.walk(se)))):
                    e1, e2 = (P.un(x) for x in lp.target.elts)
                    tested = {P.un(cm.left) for cm in ast.walk(lp) if isinstance(cm, ast.Compare) and isinstance(cm.ops[0], ast.Is) and P.un(cm.comparators[0]) == fv}
                    ok = fv is not None and {e1, e2} <= tested and "return NotImplemented" in txt
    ctx.ob("C05.R4", f"{IFACE}::seq_equals::zip_longest with one sentinel, NotImplemented for non-sequential", IFACE, se.lineno, ok, "" if ok else "seq_equals no longer treats both arguments alike")
    for rel, cname, kind in ((MAP, "PersistentMap", "Mapping"), (SET, "PersistentSet", "AbstractSet")):
        eq = P.methods(P.find_def(ctx.py(rel), cname)).get("__eq__")
        t = P.un(eq)
        # NotImplemented for a foreign kind: under `if not isinstance(other, K)`, or in the else of `if isinstance(other, K)`
        defers = False
        for i in ast.walk(eq):
            if isinstance(i, ast.If):
                tt = P.un(i.test)
                if tt == f"not isinstance(other, {kind})" and any(isinstance(x, ast.Return) and P.un(x.value) == "NotImplemented" for x in i.body):
                    defers = True
                if tt == f"isinstance(other, {kind})" and any(isinstance(x, ast.Return) and P.un(x.value) == "NotImplemented" for x in i.orelse):
                    defers = True
                if tt == f"isinstance(other, {kind})" and not i.orelse and all(isinstance(x, ast.Return) or True for x in i.body) and any(isinstance(x, ast.Return) for x in ast.walk(i.body[-1])):
                    # `if isinstance(...): <all paths return>` followed by `return NotImplemented`
                    blk = P.block_of(i) or []
                    k = blk.index(i) if i in blk else -1
                    if 0 <= k < len(blk) - 1 and isinstance(blk[k + 1], ast.Return) and P.un(blk[k + 1].value) == "NotImplemented":
                        defers = True
        ok = defers and "if self is other: return True" in t.replace("\n", " ").replace("    ", " ").replace("  ", " ") or (defers and any(isinstance(i, ast.If) and P.un(i.test) == "self is other" for i in ast.walk(eq)))
        ctx.ob("C05.R4", f"{rel}::{cname}.__eq__::NotImplemented for non-{kind}", rel, eq.lineno, ok, "" if ok else f"{cname}.__eq__ does not defer to the other operand for foreign kinds")


SELFTEST = [
    {"name": "tagged literal forms compared with == (the repaired defect)", "file": "src/basilisp/lang/tagged.py", "expect": "C05.R2",
     "old": "_elem_equals(self._form, other._form)", "new": "self._form == other._form"},
    {"name": "map equality delegates to the Python mapping (the repaired defect)", "file": MAP, "expect": "C05.R2",
     "old": "        sentinel = object()\n        for k, v in self._inner.items():\n            other_v = other.get(k, sentinel)\n            if other_v is sentinel or not _elem_equals(v, other_v):\n                return False\n        return True\n",
     "new": "        return self._inner == other\n"},
    {"name": "map equality walks the entries but compares values with ==", "file": MAP, "expect": "C05.R2",
     "old": "            if other_v is sentinel or not _elem_equals(v, other_v):\n", "new": "            if other_v is sentinel or v != other_v:\n"},
    {"name": "symbol pickles its cached hash again (the repaired defect)", "file": "src/basilisp/lang/symbol.py", "expect": "C05.R6",
     "old": "    def __reduce__(self):\n", "new": "    def _rebuild_args(self):\n"},
    {"name": "tagged literal reduce hands the cached hash over", "file": "src/basilisp/lang/tagged.py", "expect": "C05.R6",
     "old": "        return TaggedLiteral, (self._tag, self._form)\n", "new": "        return _restore, (self._tag, self._form, self._hash)\n"},
    {"name": "vector caches its hash in a pickled slot", "file": VEC, "expect": "C05.R6",
     "edits": [
         {"file": VEC, "old": "        return hash(tuple(self._inner))\n", "new": "        if self._hash is None:\n            self._hash = hash(tuple(self._inner))\n        return self._hash\n"},
     ]},
    {"name": "twin: vector caches its hash and excludes it from the pickle", "file": VEC, "expect": None,
     "edits": [
         {"file": VEC, "old": "        return hash(tuple(self._inner))\n", "new": "        if self._hash is None:\n            self._hash = hash(tuple(self._inner))\n        return self._hash\n\n    def __reduce__(self):\n        return PersistentVector, (self._inner, self._meta)\n"},
     ]},
    {"name": "twin: symbol defines __getstate__/__setstate__ instead of __reduce__", "file": "src/basilisp/lang/symbol.py", "expect": None,
     "old": "    def __reduce__(self):\n        # `_hash` depends on this process's string hash seed: rebuild the symbol (and\n        # its hash) in the process which unpickles it rather than copying the slot\n        return Symbol, (self._name, self._ns, self._meta)\n",
     "new": "    def __getstate__(self):\n        return (self._name, self._ns, self._meta)\n\n    def __setstate__(self, st):\n        self.__init__(*st)\n"},
    {"name": "vector hash back on the native delegate (the repaired defect)", "file": VEC, "expect": "C05.R1",
     "old": "        return hash(tuple(self._inner))\n", "new": "        return hash(self._inner)\n"},
    {"name": "queue hashes by length", "file": QUE, "expect": "C05.R1",
     "old": "    def __hash__(self):\n        return hash(self._inner)\n", "new": "    def __hash__(self):\n        return hash(len(self._inner))\n"},
    {"name": "seq hash includes the type", "file": IFACE, "expect": "C05.R1",
     "old": "    def __hash__(self):\n        return hash(tuple(self))\n", "new": "    def __hash__(self):\n        return hash((type(self).__name__, tuple(self)))\n"},
    {"name": "seq_equals back on raw != (the repaired defect)", "file": IFACE, "expect": "C05.R2",
     "old": "        if not _elem_equals(e1, e2):\n", "new": "        if e1 != e2:\n"},
    {"name": "element helper guards one operand only", "file": IFACE, "expect": "C05.R2",
     "old": "    if isinstance(e1, (bool, type(None))) or isinstance(e2, (bool, type(None))):\n        return e1 is e2\n    return e1 == e2\n", "new": "    if isinstance(e1, (bool, type(None))):\n        return e1 is e2\n    return e1 == e2\n"},
    {"name": "equals guards one operand only", "file": RT, "expect": "C05.R3",
     "old": "    if isinstance(v1, (bool, type(None))) or isinstance(v2, (bool, type(None))):\n        return v1 is v2\n    return v1 == v2\n", "new": "    if isinstance(v1, (bool, type(None))):\n        return v1 is v2\n    return v1 == v2\n"},
    {"name": "core = compares with ==", "file": CORE, "expect": "C05.R3",
     "old": "     (basilisp.lang.runtime/equals x (first args)))))\n\n(defn not=", "new": "     (operator/eq x (first args)))))\n\n(defn not="},
    {"name": "vector equality with an asymmetric shortcut", "file": VEC, "expect": "C05.R4",
     "old": "        if isinstance(other, Sized) and len(self) != len(other):\n            return False\n        return seq_equals(self, other)\n\n    def __getitem__",
     "new": "        if not isinstance(other, PersistentVector):\n            return False\n        return seq_equals(self, other)\n\n    def __getitem__"},
    {"name": "length short-cut guarded by hasattr (the repaired defect)", "file": VEC, "expect": "C05.R4",
     "old": "        if isinstance(other, Sized) and len(self) != len(other):\n", "new": "        if hasattr(other, \"__len__\") and len(self) != len(other):\n"},
    # twins
    {"name": "twin: vector hashes via tuple(self)", "file": VEC, "expect": None,
     "old": "        return hash(tuple(self._inner))\n", "new": "        return hash(tuple(self))\n"},
    {"name": "twin: list hashes via tuple(self)", "file": LST, "expect": None,
     "old": "    def __hash__(self):\n        return hash(self._inner)\n", "new": "    def __hash__(self):\n        return hash(tuple(self))\n"},
]
