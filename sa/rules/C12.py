"""C12 -- atom updates are atomic under every schedule and always terminate.

Decides: lock discipline / CAS template / identity precondition (necessary structural conditions),
in both halves (atom.py and the compare-and-set! loops of core.lpy).  Does not decide
linearizability of concrete histories.
"""
from __future__ import annotations

import ast

from ..core import AnalysisError, rule
from .. import lispread as L
from .. import pyfacts as P
from ..pycfg import CFG

ATOM = "src/basilisp/lang/atom.py"
REF = "src/basilisp/lang/reference.py"
CORE = "src/basilisp/core.lpy"

EXPLANATION = (
    "Lock-discipline, CAS-template and identity-precondition rules over Atom/RefBase (Python AST + CFG) and over the "
    "swap!/reset!/swap-vals!/reset-vals! retry loops in core.lpy (s-expression patterns). A schedule property reduces to these "
    "because every interleaving runs the same few paths: the only store to the cell is inside the lock and control-dependent on "
    "a comparison with the value the update was computed from."
)
DECIDES = "necessary structural conditions for atomicity, validator-before-install, watch (old,new) pairing and CAS termination"
DECLINED = "linearizability of concrete histories; behaviour of user-supplied update functions"
TRUSTED = ["threading.RLock provides mutual exclusion", "`with lock:` releases on every exit"]
ASSUMPTIONS = ["Python-level attribute store/load of `self._state` are each atomic under the GIL or free-threaded per-object locking"]

LOCK = {"self._lock"}


def _atom(ctx):
    cls = P.find_def(ctx.py(ATOM), "Atom")
    if cls is None:
        raise AnalysisError("anchor vanished: atom.py::Atom")
    return cls


def _state_reads(node):
    return [n for n in ast.walk(node) if P.is_self_attr(n, "_state") and isinstance(n.ctx, ast.Load)]


def _innermost_lock_with(node, stop):
    for w, it in P.with_items_enclosing(node, stop):
        if P.un(it.context_expr) in LOCK:
            return w
    return None


def _guarding_tests(store_stmt, func):
    """Tests (ast.expr) that control whether store_stmt executes inside func: enclosing `if`
    tests, plus tests of preceding `if ...: return/raise/continue` in the enclosing blocks."""
    out = []
    node = store_stmt
    while node is not func and node is not None:
        blk = P.block_of(node)
        par = P.parent(node)
        if blk is not None:
            for s in blk[: blk.index(node)]:
                if isinstance(s, ast.If) and _always_leaves(s.body):
                    out.append(s.test)
                if isinstance(s, ast.If) and s.orelse and _always_leaves(s.orelse):
                    out.append(s.test)
        if isinstance(par, ast.If):
            out.append(par.test)
        node = par
    return out


def _always_leaves(block):
    return bool(block) and isinstance(block[-1], (ast.Return, ast.Raise, ast.Continue, ast.Break))


def _tainted_names(func, lock_with):
    """Names whose value may derive from a read of self._state made outside `lock_with`
    (flow-insensitive closure over assignments in func)."""
    tainted: set[str] = set()
    changed = True
    assigns = [n for n in ast.walk(func) if isinstance(n, (ast.Assign, ast.AnnAssign, ast.AugAssign)) and getattr(n, "value", None) is not None]
    while changed:
        changed = False
        for a in assigns:
            val = a.value
            dep = False
            for r in _state_reads(val):
                if lock_with is None or not P.contains(lock_with, r):
                    dep = True
            if P.names_read(val) & tainted:
                dep = True
            if dep:
                for t in P.store_targets(a):
                    if isinstance(t, ast.Name) and t.id not in tainted:
                        tainted.add(t.id)
                        changed = True
    return tainted


@rule("C12.R1", floor=1)
def r1_no_lost_update(ctx):
    """Every store to Atom._state outside __init__ is under self._lock; a store whose value (or
    whose caller-supplied value) derives from an unlocked read of _state must be control-dependent
    on a comparison with self._state inside the same critical section."""
    cls = _atom(ctx)
    meths = P.methods(cls)
    for m in P.all_methods(cls):
        if m.name == "__init__":
            continue
        for stmt, attr in P.self_attr_stores(m):
            if attr != "_state":
                continue
            inst = f"{ATOM}::Atom.{m.name}::{P.un(stmt)}"
            if not P.under_lock(stmt, LOCK, stop=m):
                ctx.ob("C12.R1", inst, ATOM, stmt.lineno, False, "store to _state outside `with self._lock`: a concurrent update can be lost")
                continue
            w = _innermost_lock_with(stmt, m)
            # CAS guard: a controlling test that compares self._state (read inside the same critical section)
            guards = [t for t in _guarding_tests(stmt, m) if any(w is None or P.contains(w, r) for r in _state_reads(t))]
            if guards:
                ctx.ob("C12.R1", inst, ATOM, stmt.lineno, True, f"locked store guarded by comparison `{P.un(guards[0])}`")
                continue
            # plain locked store: its value must not derive from an unlocked read of _state
            value = getattr(stmt, "value", None)
            bad = None
            if value is not None:
                tainted = _tainted_names(m, w)
                if any(not P.contains(w, r) for r in _state_reads(value)) if w is not None else _state_reads(value):
                    bad = "value reads _state outside the critical section"
                elif P.names_read(value) & tainted:
                    bad = f"value derives from an unlocked read of _state via {sorted(P.names_read(value) & tainted)}"
                else:
                    # parameters: look at intra-class callers
                    params = {a.arg for a in m.args.args + m.args.kwonlyargs}
                    used = P.names_read(value) & params
                    if used:
                        for caller in P.all_methods(cls):
                            ct = _tainted_names(caller, None)
                            for c in P.calls(caller):
                                if P.un(c.func) == f"self.{m.name}":
                                    for i, a in enumerate(c.args):
                                        pname = m.args.args[i + 1].arg if i + 1 < len(m.args.args) else None
                                        if pname in used and (P.names_read(a) & ct or _state_reads(a)):
                                            bad = f"caller {caller.name} passes `{P.un(a)}`, computed from an unlocked read of _state, and nothing re-checks it under the lock"
            ctx.ob("C12.R1", inst, ATOM, stmt.lineno, bad is None, bad or "locked store of a state-independent value")
    _ = meths


def _calls_named(func, name):
    return [c for c in P.calls(func) if P.un(c.func) == name]


@rule("C12.R2", floor=3)
def r2_validate_before_install_and_notify_on_success(ctx):
    """In every method that calls self._compare_and_set(old, new): self._validate(new) dominates
    the call; every self._notify_watches(a, b) lies on the success edge of a test of
    _compare_and_set(a, b) with the same arguments."""
    cls = _atom(ctx)
    n = 0
    for m in P.all_methods(cls):
        cas_calls = _calls_named(m, "self._compare_and_set")
        notif = _calls_named(m, "self._notify_watches")
        if not cas_calls and not notif:
            continue
        g = CFG(m)
        for c in cas_calls:
            if len(c.args) < 2:
                raise AnalysisError(f"unsupported call shape {P.un(c)}")
            new = P.un(c.args[1])
            vnodes = [nd for nd in g.nodes if nd.kind in ("stmt", "test") and any(P.un(v.func) == "self._validate" and v.args and P.un(v.args[0]) == new for v in P.calls(nd.ast))]
            tnodes = [nd for nd in g.nodes if nd.kind in ("stmt", "test") and nd.ast is not None and P.contains(nd.ast, c)]
            ok = bool(tnodes) and all(g.dominated(t, vnodes) for t in tnodes)
            ctx.ob("C12.R2", f"{ATOM}::Atom.{m.name}::validate-before::{P.un(c)}", ATOM, c.lineno, ok,
                   "" if ok else f"a path reaches {P.un(c)} without self._validate({new}) first: an invalid value can be installed")
            n += 1
        for nc in notif:
            args = [P.un(a) for a in nc.args]
            nn = [nd for nd in g.nodes if nd.kind in ("stmt", "test") and nd.ast is not None and P.contains(nd.ast, nc)]

            def success_edge(a, b, lab, args=args):
                if a.kind != "test" or lab is not True:
                    return False
                return any(P.un(c.func) == "self._compare_and_set" and [P.un(x) for x in c.args] == args for c in P.calls(a.ast))

            ok = bool(nn) and all(g.edge_dominated(t, success_edge) for t in nn)
            if not ok and len(nc.args) == 2:
                # accepted idiom: old read and new stored inside one critical section that dominates the notification
                for w in ast.walk(m):
                    if isinstance(w, ast.With) and any(P.un(it.context_expr) in LOCK for it in w.items):
                        reads = [s for s in w.body if isinstance(s, ast.Assign) and P.un(s.value) == "self._state" and any(P.un(t) == args[0] for t in s.targets)]
                        stores = [s for s in w.body if isinstance(s, ast.Assign) and any(P.is_self_attr(t, "_state") for t in s.targets) and P.un(s.value) == args[1]]
                        if reads and stores and w.body.index(reads[0]) < w.body.index(stores[0]):
                            sn = [nd for nd in g.nodes if nd.ast is stores[0]]
                            if nn and all(g.dominated(t, sn) for t in nn):
                                ok = True
            ctx.ob("C12.R2", f"{ATOM}::Atom.{m.name}::notify-on-success::{P.un(nc)}", ATOM, nc.lineno, ok,
                   "" if ok else f"{P.un(nc)} is reachable without a successful _compare_and_set({', '.join(args)}): watches would see a transition that did not happen")


def _three_valued(expr, ident_pairs):
    """Evaluates a test under the assumption that every pair in ident_pairs is the same object.
    Returns True / False / None (unknown)."""
    if isinstance(expr, ast.BoolOp):
        vals = [_three_valued(v, ident_pairs) for v in expr.values]
        if isinstance(expr.op, ast.And):
            if any(v is False for v in vals):
                return False
            return True if all(v is True for v in vals) else None
        if any(v is True for v in vals):
            return True
        return False if all(v is False for v in vals) else None
    if isinstance(expr, ast.UnaryOp) and isinstance(expr.op, ast.Not):
        v = _three_valued(expr.operand, ident_pairs)
        return None if v is None else (not v)
    if isinstance(expr, ast.Compare) and len(expr.ops) == 1:
        a, b = P.un(expr.left), P.un(expr.comparators[0])
        if frozenset((a, b)) in ident_pairs:
            if isinstance(expr.ops[0], ast.Is):
                return True
            if isinstance(expr.ops[0], ast.IsNot):
                return False
            return None  # == / != on the same object: not decided by identity (NaN, pathological __eq__)
    return None


@rule("C12.R4", floor=1)
def r4_identity_precondition(ctx):
    """In every CAS function (a locked store to _state guarded by a comparison with a parameter),
    whenever the cell still holds the same object that was passed as `old`, the store is reached:
    the tests are evaluated three-valued under `self._state is old` with ==/!= left unknown."""
    cls = _atom(ctx)
    for m in P.all_methods(cls):
        if m.name == "__init__":
            continue
        for stmt, attr in P.self_attr_stores(m):
            if attr != "_state":
                continue
            params = [a.arg for a in m.args.args[1:]]
            guards = [t for t in _guarding_tests(stmt, m) if _state_reads(t)]
            if not guards:
                continue
            olds = {p for p in params for t in guards if p in P.names_read(t)}
            if not olds:
                continue
            ident = {frozenset(("self._state", o)) for o in olds}
            g = CFG(m)
            store_nodes = [nd for nd in g.nodes if nd.ast is stmt]

            def blocked(a, b, lab):
                if lab == "exc":
                    return True
                if a.kind == "test":
                    v = _three_valued(a.ast, ident)
                    if v is True and lab is False:
                        return True
                    if v is False and lab is True:
                        return True
                return False

            r = g.reach([g.entry], avoid=store_nodes, avoid_edges=blocked)
            ok = g.exit.id not in r
            ctx.ob("C12.R4", f"{ATOM}::Atom.{m.name}::{' ; '.join(P.un(t) for t in guards)}", ATOM, guards[0].lineno, ok,
                   "" if ok else "the CAS can be rejected although the cell still holds the very object that was read (the test uses ==/!= only): a value not equal to itself can never be replaced and reset!/swap! spin forever",
                   witness="(reset! (atom ##NaN) 1) never returns")


@rule("C12.R5", floor=5)
def r5_refbase_mutations_locked(ctx):
    """Every store to a field of ReferenceBase / RefBase (outside __init__) is under self._lock."""
    tree = ctx.py(REF)
    for cname in ("ReferenceBase", "RefBase"):
        cls = P.find_def(tree, cname)
        if cls is None:
            raise AnalysisError(f"anchor vanished: reference.py::{cname}")
        for m in P.all_methods(cls):
            if m.name == "__init__":
                continue
            for stmt, attr in P.self_attr_stores(m):
                ok = P.under_lock(stmt, LOCK, stop=m)
                ctx.ob("C12.R5", f"{REF}::{cname}.{m.name}::{P.un(stmt)}", REF, stmt.lineno, ok,
                       "" if ok else f"store to self.{attr} outside `with self._lock`")
    # and Atom.deref reads under the lock or as a single attribute load
    cls = _atom(ctx)
    for m in P.all_methods(cls):
        if m.name == "__init__":
            continue
        for stmt, attr in P.self_attr_stores(m):
            if attr != "_state":
                ok = P.under_lock(stmt, LOCK, stop=m)
                ctx.ob("C12.R5", f"{ATOM}::Atom.{m.name}::{P.un(stmt)}", ATOM, stmt.lineno, ok, "" if ok else f"store to self.{attr} outside the lock")


# ------------------------------------------------------------------------------------------
# Lisp half

LOOPS = ("reset!", "reset-vals!", "swap!", "swap-vals!")


def _let_bindings(letf):
    v = letf.items[1]
    if not isinstance(v, L.Vec):
        raise AnalysisError("let without binding vector")
    return list(zip(v.items[0::2], v.items[1::2]))


@rule("C12.R3", floor=4)
def r3_lisp_cas_loops(ctx):
    """swap!/reset!/swap-vals!/reset-vals! match the retry template: one (deref atom) bound to CUR,
    NEW computed from CUR (or the parameter), (compare-and-set! atom CUR NEW) as the test, the
    result mentions only bound names (no second deref), failure branch is (recur ...) with the
    original parameters."""
    defs = L.top_defs(ctx.lisp(CORE))
    for name in LOOPS:
        d = defs.get(name)
        if d is None:
            raise AnalysisError(f"anchor vanished: core.lpy::{name}")
        ar = L.fn_arities(d)
        for params, body in ar:
            inst = f"{CORE}::{name}::{params.text()}"
            if not body:
                raise AnalysisError(f"{name}: empty body")
            form = body[-1]
            problems = []
            pnames = [p.val for p in params.items if isinstance(p, L.Sym) and p.val != "&"]
            atom_p = pnames[0] if pnames else None
            if L.head(form) not in ("let", "let*"):
                # a direct delegation such as (.swap atom f ...) / (.reset atom v) is also atomic (Python half checks it)
                if isinstance(form, L.List) and L.head(form) in (".swap", ".reset") and len(form.items) > 1 and L.is_sym(form.items[1], atom_p) and name in ("swap!", "reset!"):
                    ctx.ob("C12.R3", inst, CORE, form.line, True, "delegates to the Python method (checked by R1/R2/R4)")
                    continue
                problems.append("body is not the let/compare-and-set!/recur template")
                ctx.ob("C12.R3", inst, CORE, form.line, False, "; ".join(problems))
                continue
            binds = _let_bindings(form)
            derefs = [(b, v) for b, v in binds if (L.head(v) == "deref" and len(v.items) == 2 and L.is_sym(v.items[1], atom_p)) or (isinstance(v, L.Wrap) and v.tag == "deref" and L.is_sym(v.form, atom_p))]
            all_derefs = [f for f in L.walk(form) if (L.head(f) == "deref") or (isinstance(f, L.Wrap) and f.tag == "deref")]
            if len(derefs) != 1 or len(all_derefs) != 1:
                problems.append(f"expected exactly one (deref {atom_p}) in the loop body, found {len(all_derefs)}")
            cur = derefs[0][0].val if derefs and isinstance(derefs[0][0], L.Sym) else None
            body_forms = form.items[2:]
            iff = body_forms[-1] if body_forms else None
            if L.head(iff) != "if" or len(iff.items) != 4:
                problems.append("let body is not (if (compare-and-set! ...) RET (recur ...))")
            else:
                test, ret, els = iff.items[1:]
                if not (L.head(test) in ("compare-and-set!", ".compare-and-set") and len(test.items) == 4 and L.is_sym(test.items[1], atom_p)):
                    problems.append("test is not (compare-and-set! atom CUR NEW)")
                else:
                    if not L.is_sym(test.items[2], cur):
                        problems.append(f"the expected-old argument `{test.items[2].text()}` is not the symbol bound from the single deref (`{cur}`)")
                    new = test.items[3]
                    if name.startswith("swap"):
                        nb = [v for b, v in binds if L.is_sym(b) and L.is_sym(new, b.val)]
                        if not nb:
                            problems.append("NEW is not a let-bound value")
                        else:
                            v = nb[0]
                            uses_cur = any(L.is_sym(x, cur) for x in L.walk(v))
                            uses_f = any(L.is_sym(x, pnames[1]) for x in L.walk(v)) if len(pnames) > 1 else False
                            ok_shape = L.head(v) == "apply" and len(v.items) >= 3 and L.is_sym(v.items[1], pnames[1]) and L.is_sym(v.items[2], cur)
                            if not (uses_cur and uses_f and ok_shape):
                                problems.append(f"NEW `{v.text()}` is not (apply f CUR args...)")
                            elif [x.text() for x in v.items[3:]] != pnames[2:]:
                                problems.append(f"NEW `{v.text()}` does not pass the extra arguments {pnames[2:]} in order")
                    else:
                        if not L.is_sym(new, pnames[1]):
                            problems.append(f"NEW `{new.text()}` is not the parameter `{pnames[1]}`")
                    # RET
                    newname = new.text()
                    want = {"reset!": newname, "swap!": newname, "reset-vals!": f"[{newname} {cur}]", "swap-vals!": f"[{newname} {cur}]"}[name]
                    # documented order in this code base: [new old]
                    if ret.text() != want:
                        problems.append(f"success result `{ret.text()}` is not `{want}` (the value installed{' and the value replaced' if 'vals' in name else ''})")
                    if not (L.head(els) == "recur" and [x.text() for x in els.items[1:]] == pnames):
                        problems.append(f"failure branch `{els.text()}` is not (recur {' '.join(pnames)})")
            ctx.ob("C12.R3", inst, CORE, form.line, not problems, "; ".join(problems))
    # compare-and-set! itself reaches the Python method with arguments in order
    d = defs.get("compare-and-set!")
    if d is None:
        raise AnalysisError("anchor vanished: core.lpy::compare-and-set!")
    for params, body in L.fn_arities(d):
        pn = [p.val for p in params.items if isinstance(p, L.Sym)]
        f = body[-1]
        ok = L.head(f) == ".compare-and-set" and [x.text() for x in f.items[1:]] == pn
        ctx.ob("C12.R3", f"{CORE}::compare-and-set!::{params.text()}", CORE, f.line, ok, "" if ok else f"`{f.text()}` does not forward {pn} in order")


SELFTEST = [
    {"name": "store outside lock", "file": ATOM, "expect": "C12.R1",
     "old": "        with self._lock:\n            if self._state is not old and self._state != old:\n                return False\n            self._state = new\n            return True\n",
     "new": "        with self._lock:\n            if self._state is not old and self._state != old:\n                return False\n        self._state = new\n        return True\n"},
    {"name": "CAS comparison dropped", "file": ATOM, "expect": "C12.R1",
     "old": "            if self._state is not old and self._state != old:\n                return False\n", "new": ""},
    {"name": "swap without CAS", "file": ATOM, "expect": "C12.R1",
     "old": "            if self._compare_and_set(oldval, newval):\n                self._notify_watches(oldval, newval)\n                return newval\n",
     "new": "            with self._lock:\n                self._state = newval\n            self._notify_watches(oldval, newval)\n            return newval\n"},
    {"name": "validate after CAS", "file": ATOM, "expect": "C12.R2",
     "old": "            self._validate(newval)\n            if self._compare_and_set(oldval, newval):\n                self._notify_watches(oldval, newval)\n",
     "new": "            if self._compare_and_set(oldval, newval):\n                self._validate(newval)\n                self._notify_watches(oldval, newval)\n"},
    {"name": "notify regardless of CAS outcome", "file": ATOM, "expect": "C12.R2",
     "old": "        if self._compare_and_set(old, new):\n            self._notify_watches(old, new)\n            return True\n        return False\n",
     "new": "        ok = self._compare_and_set(old, new)\n        self._notify_watches(old, new)\n        return ok\n"},
    {"name": "notify with swapped pair", "file": ATOM, "expect": "C12.R2",
     "old": "                self._notify_watches(oldval, newval)\n                return newval\n", "new": "                self._notify_watches(newval, oldval)\n                return newval\n"},
    {"name": "equality-only CAS (the repaired defect)", "file": ATOM, "expect": "C12.R4",
     "old": "if self._state is not old and self._state != old:", "new": "if self._state != old:"},
    {"name": "negated-equality CAS", "file": ATOM, "expect": "C12.R4",
     "old": "if self._state is not old and self._state != old:", "new": "if not (self._state == old):"},
    {"name": "add_watch unlocked", "file": REF, "expect": "C12.R5",
     "old": "        with self._lock:\n            self._watches = self._watches.assoc(k, wf)\n            return self\n",
     "new": "        self._watches = self._watches.assoc(k, wf)\n        return self\n"},
    {"name": "swap-vals! re-derefs for its result", "file": CORE, "expect": "C12.R3",
     "old": "      [new-val current]\n      (recur atom f args))))", "new": "      [new-val (deref atom)]\n      (recur atom f args))))"},
    {"name": "swap! compares against a second deref", "file": CORE, "expect": "C12.R3",
     "old": "    (if (compare-and-set! atom current new-val)\n      new-val\n", "new": "    (if (compare-and-set! atom (deref atom) new-val)\n      new-val\n"},
    {"name": "reset-vals! result order", "file": CORE, "expect": "C12.R3",
     "old": "      [v current]", "new": "      [current v]"},
    {"name": "swap! drops extra args", "file": CORE, "expect": "C12.R3",
     "old": "        new-val (apply f current args)]\n    (if (compare-and-set! atom current new-val)\n      new-val\n", "new": "        new-val (f current)]\n    (if (compare-and-set! atom current new-val)\n      new-val\n"},
    # benign twins
    {"name": "twin: with -> acquire/try/finally", "file": ATOM, "expect": None,
     "old": "        with self._lock:\n            if self._state is not old and self._state != old:\n                return False\n            self._state = new\n            return True\n",
     "new": "        self._lock.acquire()\n        try:\n            if self._state is not old and self._state != old:\n                return False\n            self._state = new\n            return True\n        finally:\n            self._lock.release()\n"},
    {"name": "twin: positive-form CAS", "file": ATOM, "expect": None,
     "old": "            if self._state is not old and self._state != old:\n                return False\n            self._state = new\n            return True\n",
     "new": "            if self._state is old or self._state == old:\n                self._state = new\n                return True\n            return False\n"},
    {"name": "twin: identity-only CAS", "file": ATOM, "expect": None,
     "old": "if self._state is not old and self._state != old:", "new": "if self._state is not old:"},
    {"name": "twin: rename locals in swap", "file": ATOM, "expect": None, "count": "all",
     "old": "newval", "new": "nv"},
    {"name": "twin: reset as a locked plain store", "file": ATOM, "expect": None,
     "old": "        while True:\n            oldval = self._state\n            self._validate(v)\n            if self._compare_and_set(oldval, v):\n                self._notify_watches(oldval, v)\n                return v\n",
     "new": "        self._validate(v)\n        with self._lock:\n            oldval = self._state\n            self._state = v\n        self._notify_watches(oldval, v)\n        return v\n"},
]
