"""C02 -- sub-expressions are evaluated left to right, exactly once."""
from __future__ import annotations

import ast

from ..core import AnalysisError, rule
from .. import lispread as L
from .. import pyfacts as P

GEN = "src/basilisp/lang/compiler/generator.py"
NODES = "src/basilisp/lang/compiler/nodes.py"
CORE = "src/basilisp/core.lpy"

EXPLANATION = (
    "Rules over the generator's (expression, dependency-statements) discipline: the chaining combinator assigns an earlier "
    "sibling's value to a temporary whenever a later sibling brings statements; every handler that builds one expression from "
    "several children goes through that combinator (manual merges are findings); the order in which a handler generates its "
    "children is the order nodes.py declares; dependencies of a branch (then/else, try body/handler/finally, loop body) only "
    "flow into that branch; no handler generates the same child twice, and the `if` test is spliced in twice only as a bare "
    "name; inline expansion templates use each parameter once, in order, unconditionally."
)
DECIDES = "sequencing-soundness of the generator's combinators and handlers, child order, branch-locality of hoisted statements, once-ness (incl. inline templates), a generated child placed at most once per path, core macros evaluating their operands once (template paths, recursive expansion, template loops), keyword-argument order"
DECLINED = "CPython's own evaluation order; map-literal key/value interleaving, set-literal member order and metadata-vs-elements order (not fixed by the statement)"
TRUSTED = ["Python evaluates call func, then positional args left to right, then keyword values; statements in order"]
ASSUMPTIONS = []
TECHNIQUE = "dataflow over the generator's GeneratedPyAST(node, dependencies) templates + declared-children order table from nodes.py + linearity analysis of inline templates"


def _gen(ctx):
    return ctx.py(GEN)


def _chain_operands(tree, fn):
    """The operands handed to _chain_py_ast on behalf of handler `fn`, in order, each as the set of
    handler-level expressions it is computed from.  The call may be direct or go through one
    module-level helper whose parameters are forwarded (locals of the helper are traced back to the
    parameters they are computed from)."""
    import re
    for c in P.calls(fn):
        if P.un(c.func) == "_chain_py_ast":
            out = []
            for a in c.args:
                t = P.un(a.value if isinstance(a, ast.Starred) else a)
                m = re.findall(r"node\.\w+", t)
                out.append(set(m) if m else {t})
            return out
    for c in P.calls(fn):
        h = P.find_def(tree, P.un(c.func))
        if h is None or h is fn or not isinstance(h, P.FUNC):
            continue
        inner = [x for x in P.calls(h) if P.un(x.func) == "_chain_py_ast"]
        if not inner:
            continue
        params = [a.arg for a in h.args.args]
        actual = {p: P.un(a) for p, a in zip(params, c.args)}
        derives = {p: {p} for p in params}
        changed = True
        while changed:
            changed = False
            for a in ast.walk(h):
                if isinstance(a, ast.Assign) and len(a.targets) == 1 and isinstance(a.targets[0], ast.Name):
                    src = set()
                    for x in ast.walk(a.value):
                        if isinstance(x, ast.Name) and x.id in derives:
                            src |= derives[x.id]
                    if src and derives.get(a.targets[0].id, set()) != derives.get(a.targets[0].id, set()) | src:
                        derives[a.targets[0].id] = derives.get(a.targets[0].id, set()) | src
                        changed = True
        out = []
        for a in inner[0].args:
            e = a.value if isinstance(a, ast.Starred) else a
            ps = set()
            for x in ast.walk(e):
                if isinstance(x, ast.Name) and x.id in derives:
                    ps |= derives[x.id]
            ps -= {"ctx"}
            out.append({actual.get(p, p) for p in ps})
        return out
    return []


@rule("C02.R1", floor=6)
def r1_sequencing_sound_combination(ctx):
    """_chain_py_ast hoists an earlier node into a temporary when a later sibling has dependencies;
    GeneratedPyAST.reduce emits each node after its own dependencies, in order; handlers that build
    one expression from several generated children use those combinators (a manual merge hoists
    all dependency statements before every child's value)."""
    tree = _gen(ctx)
    ch = ctx.fn(GEN, "_chain_py_ast")
    # (a syntactic description of the hoisting loop stood here; it reported a maintainer's rewrite of
    # the same loop -- guard clause, extracted helper -- and was dropped: what the combinator does is
    # decided by evaluating it, below)
    # the combinator itself, evaluated (own interpreter, modelled AST nodes) on every sibling
    # list of length 2 and 3 over {constant, call, bare name} values x {no statements, an expression statement,
    # a function definition, both}: the trace of what runs -- each sibling's statements, then its
    # value -- must be in source order.  A `def` statement counts like any other: executing it
    # evaluates its decorators, default values and annotations.
    from ..minipy import ClassModel, Interp, Obj, PyRaise, Unsupported
    import itertools as _it

    def _mk(name):
        return ClassModel(ast.parse(f"class {name}:\n    pass\n").body[0])
    K = {n: _mk(n) for n in ("Constant", "Call", "Name", "Assign", "Expr", "FunctionDef", "AsyncFunctionDef", "GeneratedPyAST")}
    counter = [0]

    def _genname(prefix):
        counter[0] += 1
        return f"{prefix}_{counter[0]}"
    interp = Interp(globals_={
        "genname": _genname, "cast": lambda _t, x: x, "all": lambda it: all(it), "any": lambda it: any(it),
        "ast.Assign": lambda targets=None, value=None, **_k: Obj(K["Assign"], targets=targets, value=value),
        "ast.Name": lambda id=None, ctx=None, **_k: Obj(K["Name"], id=id),
        "ast.Store": lambda: "store", "ast.Load": lambda: "load",
    }, fuel=3_000_000)
    interp.mutable_lists = True
    interp.globals.setdefault("map", lambda f, *its: [f(*xs) for xs in zip(*[interp.iterate(i) for i in its])])
    interp.globals.setdefault("filter", lambda f, it: [x for x in interp.iterate(it) if interp.truth(f(x) if f is not None else x)])
    # module-level helpers the combinator calls are interpreted too (two levels)
    frontier = [ch]
    for _level in range(2):
        nxt = []
        for fn_ in frontier:
            for nm in {n.id for n in ast.walk(fn_) if isinstance(n, ast.Name) and isinstance(n.ctx, ast.Load)}:
                h = P.find_def(tree, nm)
                if h is not None and isinstance(h, P.FUNC) and h is not ch and nm not in interp.globals:
                    interp.globals[nm] = (lambda *a, _h=h: interp.call_function(_h, list(a), {}))
                    nxt.append(h)
        frontier = nxt
    for c in ast.walk(tree):
        if isinstance(c, ast.Assign) and isinstance(c.targets[0], ast.Name) and isinstance(c.value, ast.Constant) and isinstance(c.value.value, str) and c.targets[0].id.isupper():
            interp.globals.setdefault(c.targets[0].id, c.value.value)
    DEPS = {"none": (), "expr": ("Expr",), "def": ("FunctionDef",), "expr+def": ("Expr", "FunctionDef")}
    bad_order = None
    n_cases = 0
    try:
        for n_sib in (2, 3):
            # a bare name is a *read*: of a local, or of the module global a direct-linked Var compiles
            # to -- a later sibling's statements can (re)def it, so it is sequenced like a call
            for combo in _it.product(_it.product(("Constant", "Call", "Name"), sorted(DEPS)), repeat=n_sib):
                n_cases += 1
                sibs, own = [], {}
                for i, (nk, dk) in enumerate(combo):
                    node = Obj(K[nk], sib=i)
                    deps = [Obj(K[k], sib=i) for k in DEPS[dk]]
                    for d in deps:
                        own[id(d)] = i
                    sibs.append(Obj(K["GeneratedPyAST"], node=node, dependencies=deps))
                out = interp.call_function(ch, sibs, {})
                deps_out, nodes_out = list(interp.iterate(out[0])), list(interp.iterate(out[1]))
                trace = []
                for d in deps_out:
                    if id(d) in own:
                        trace.append(("stmt", own[id(d)]))
                    elif isinstance(d, Obj) and d.cls.name == "Assign" and isinstance(d.f.get("value"), Obj) and "sib" in d.f["value"].f:
                        trace.append(("value", d.f["value"].f["sib"]))
                for nd in nodes_out:
                    if isinstance(nd, Obj) and "sib" in nd.f:
                        trace.append(("value", nd.f["sib"]))
                want = []
                for i, (nk, dk) in enumerate(combo):
                    want += [("stmt", i)] * len(DEPS[dk]) + [("value", i)]
                # a constant has no effects: where it is "evaluated" does not matter
                const = {i for i, (nk, _dk) in enumerate(combo) if nk == "Constant"}
                norm = lambda tr: [e for e in tr if not (e[0] == "value" and e[1] in const)]
                if norm(trace) != norm(want) and bad_order is None:
                    descr = ", ".join(f"{ {'Constant': 'a constant', 'Call': 'a call', 'Name': 'a bare name (a local or a direct-linked Var)'}[nk]} with {dk.replace('none', 'no')} statement(s)" for nk, dk in combo)
                    bad_order = f"for the siblings ({descr}) the generated code runs {norm(trace)}, source order is {norm(want)}"
    except Unsupported as e:
        raise AnalysisError(f"_chain_py_ast outside the interpretable fragment: {e}")
    except PyRaise as e:
        bad_order = f"_chain_py_ast raises {e.name} on modelled siblings"
    ctx.ob("C02.R1", f"{GEN}::_chain_py_ast::statements and values of the siblings run in source order (evaluated on {n_cases} sibling lists)", GEN, ch.lineno, bad_order is None, bad_order or "",
           witness="(f (mark 1) ^{:k (mark 2)} (fn [] nil) (mark 3)) must record [1 2 3]: the fn literal's `def` evaluates its metadata decorator when it executes")
    red = ctx.fn(GEN, "GeneratedPyAST.reduce")
    body = [P.un(s) for l in ast.walk(red) if isinstance(l, ast.For) for s in l.body]
    ok = body == ["deps.extend(n.dependencies)", "deps.append(n.node)"]
    ctx.ob("C02.R1", f"{GEN}::GeneratedPyAST.reduce::node after its own dependencies, in order", GEN, red.lineno, ok, "" if ok else "reduce no longer interleaves each node after its dependencies")
    ca = ctx.fn(GEN, "_collection_ast")
    ok = "_chain_py_ast(*map(partial(gen_py_ast, ctx), form))" in P.un(ca)
    ctx.ob("C02.R1", f"{GEN}::_collection_ast::delegates to _chain_py_ast", GEN, ca.lineno, ok, "" if ok else "_collection_ast merges children without the chaining combinator")
    # census of manual merges
    for fn in P.all_defs(tree):
        if P.enclosing_func(fn) is not None or fn.name in ("_chain_py_ast",):
            continue
        for l in ast.walk(fn):
            if not isinstance(l, ast.For) or "tag" in P.un(l.iter):
                continue  # type-hint (tag) expressions are class references, not user sub-expressions
            gens =[a for a in ast.walk(l) if isinstance(a, ast.Assign) and isinstance(a.value, ast.Call) and P.un(a.value.func) == "gen_py_ast" and isinstance(a.targets[0], ast.Name)]
            for a in gens:
                v = a.targets[0].id
                collects_node = any(isinstance(c, ast.Call) and isinstance(c.func, ast.Attribute) and c.func.attr == "append" and c.args and P.un(c.args[0]) == f"{v}.node" for c in ast.walk(l))
                collects_deps = any(isinstance(c, ast.Call) and isinstance(c.func, ast.Attribute) and c.func.attr == "extend" and c.args and P.un(c.args[0]) == f"{v}.dependencies" for c in ast.walk(l))
                if collects_node and collects_deps:
                    ctx.ob("C02.R1", f"{GEN}::{fn.name}::manual merge loop over `{P.un(l.iter)}`", GEN, l.lineno, False,
                           "the loop appends every child's dependency statements to one list and every child's value to another: an earlier value is evaluated after a later child's statements",
                           witness="(f ** :a (t 1) :b (if (t 2) 3 4)) evaluates 2 before 1")
    # ... and the same merge written without a loop: the dependency lists of two separately generated
    # children concatenated in one chain(...) -- the first child's value is then evaluated after the
    # second child's statements (type-hint `tag` children are class references and exempt)
    for fn in P.all_defs(tree):
        if P.enclosing_func(fn) is not None or fn.name in ("_chain_py_ast",):
            continue
        gens = {a.targets[0].id for a in ast.walk(fn) if isinstance(a, ast.Assign) and isinstance(a.value, ast.Call) and isinstance(a.targets[0], ast.Name)
                and (P.un(a.value.func) == "gen_py_ast" or P.un(a.value.func).endswith("_to_py_ast"))}
        gens |= {n.target.id for n in ast.walk(fn) if isinstance(n, ast.NamedExpr) and isinstance(n.value, ast.Call) and P.un(n.value.func) == "gen_py_ast"}
        alias = {a.targets[0].id: a.value.value.id for a in ast.walk(fn) if isinstance(a, ast.Assign) and isinstance(a.targets[0], ast.Name) and isinstance(a.value, ast.Attribute)
                 and a.value.attr == "dependencies" and isinstance(a.value.value, ast.Name) and a.value.value.id in gens}
        for c in ast.walk(fn):
            if not (isinstance(c, ast.Call) and P.un(c.func) in ("chain", "itertools.chain")):
                continue
            srcs = []
            for a in c.args:
                for x in ast.walk(a):
                    if isinstance(x, ast.Attribute) and x.attr == "dependencies" and isinstance(x.value, ast.Name) and x.value.id in gens:
                        srcs.append(x.value.id)
                    if isinstance(x, ast.Name) and x.id in alias:
                        srcs.append(alias[x.id])
            srcs = [s for s in dict.fromkeys(srcs) if "tag" not in s]
            if len(srcs) >= 2:
                ctx.ob("C02.R1", f"{GEN}::{fn.name}::dependencies of {srcs} concatenated by hand", GEN, c.lineno, False,
                       f"the statements of `{srcs[1]}` are emitted before the expression that uses `{srcs[0]}.node`: the first child is evaluated after the second child's effects whenever the second is a compound form",
                       witness="(throw (python/ValueError (t 1)) (if (t 2) (python/KeyError (t 3)) nil)) evaluates 2, 3, 1")
    # handlers with a separately generated head and a chained tail must chain the head too
    for name, head in (("_invoke_to_py_ast", "fn_ast"), ("_interop_call_to_py_ast", "target_ast")):
        fn = ctx.fn(GEN, name)
        ops = _chain_operands(tree, fn)
        ok = bool(ops) and ops[0] == {head}
        ctx.ob("C02.R1", f"{GEN}::{name}::{head} is chained with the arguments", GEN, fn.lineno, ok,
               "" if ok else f"the value of {head}.node is used in the call expression while the arguments' statements are hoisted before it: ((t f) (if ...)) evaluates the arguments' effects first")
    for name in ("__fn_recur_to_py_ast", "__deftype_method_recur_to_py_ast", "__loop_recur_to_py_ast"):
        fn = ctx.fn(GEN, name)
        ok = any(P.un(c.func) == "_chain_py_ast" for c in P.calls(fn))
        ctx.ob("C02.R1", f"{GEN}::{name}::recur arguments are chained", GEN, fn.lineno, ok, "" if ok else "recur arguments are merged by hand: an earlier argument is evaluated after a later argument's statements")


def _children_table(ctx):
    tree = ctx.py(NODES)
    out = {}
    for c in P.all_classes(tree):
        v = P.class_assign(c, "children")
        if v is not None and isinstance(v, ast.Call) and P.un(v.func) == "vec.v":
            out[c.name] = [P.un(a).lower() for a in v.args]
    ctx.analysed["tables"].add(f"nodes.py children declarations: {len(out)}")
    return out


ORDERED = {
    # handler -> (node class, {declared child keyword -> attribute used in the handler})
    "_invoke_to_py_ast": ("Invoke", {"fn": "fn", "args": "args"}),
    "_interop_call_to_py_ast": ("HostCall", {"target": "target", "args": "args"}),
    "_if_to_py_ast": ("If", {"test": "test", "then": "then", "else": "else_"}),
    "_do_to_py_ast": ("Do", {"statements": "statements", "ret": "ret"}),
    "_let_to_py_ast": ("Let", {"bindings": "bindings", "body": "body"}),
    "_loop_to_py_ast": ("Loop", {"bindings": "bindings", "body": "body"}),
    "_letfn_to_py_ast": ("LetFn", {"bindings": "bindings", "body": "body"}),
}


@rule("C02.R2", floor=6)
def r2_children_generated_in_declared_order(ctx):
    """Each handler generates its children in the order nodes.py declares for the node (FN, ARGS),
    (TEST, THEN, ELSE), (BINDINGS, BODY), (STATEMENTS, RET); let / loop bindings are generated
    inside the per-binding loop, in iteration order, each init before its assignment."""
    table = _children_table(ctx)
    for hname, (ncls, fields) in ORDERED.items():
        fn = ctx.fn(GEN, hname)
        declared = [c for c in table.get(ncls, []) if c in fields]
        if not declared:
            raise AnalysisError(f"nodes.py no longer declares children for {ncls}")
        first_use = {}
        for n in ast.walk(fn):
            if isinstance(n, ast.Attribute) and isinstance(n.value, ast.Name) and n.value.id == "node":
                for key, attr in fields.items():
                    if n.attr == attr and key not in first_use:
                        pass
        # order of first occurrence in source order
        occ = []
        for n in sorted((x for x in ast.walk(fn) if isinstance(x, ast.Attribute) and isinstance(x.value, ast.Name) and x.value.id == "node"), key=lambda x: (x.lineno, x.col_offset)):
            for key, attr in fields.items():
                if n.attr == attr and key not in occ:
                    occ.append(key)
        got = [k for k in occ if k in declared]
        ok = got == declared
        ctx.ob("C02.R2", f"{GEN}::{hname}::generates {declared}", GEN, fn.lineno, ok, "" if ok else f"children are generated in order {got}, nodes.py declares {declared}")
    # invoke: fn first in the chain
    for hname, head in (("_invoke_to_py_ast", "fn_ast"), ("_interop_call_to_py_ast", "target_ast")):
        fn = ctx.fn(GEN, hname)
        ops = _chain_operands(ctx.py(GEN), fn)
        # every operand of the call, in source order: the callee/target, the positional arguments, then
        # (if the handler chains them at all) the keyword argument values
        want = [{head}, {"node.args"}] + ([{"node.kwargs"}] if any("node.kwargs" in o for o in ops) else [])
        ok = ops == want
        kw_used = any(isinstance(a, ast.Attribute) and P.un(a) == "node.kwargs" for a in ast.walk(fn))
        ok = ok and (not kw_used or any("node.kwargs" in o for o in ops))
        ctx.ob("C02.R2", f"{GEN}::{hname}::chain order ({head}, *args, *keyword values)", GEN, fn.lineno, ok,
               "" if ok else f"the operands are chained as {[sorted(o) for o in ops]}: the callee/target is not first, the arguments are not chained in order, or the keyword values are evaluated outside the chain")
    # per-binding loop: init deps, then assignment
    for hname in ("_let_to_py_ast", "_loop_to_py_ast"):
        fn = ctx.fn(GEN, hname)
        loops = [l for l in ast.walk(fn) if isinstance(l, ast.For) and "node.bindings" in P.un(l.iter)]
        ok = False
        if loops:
            body = [P.un(s) for s in loops[0].body]
            i_dep = next((i for i, s in enumerate(body) if ".extend(init_ast.dependencies)" in s), None)
            i_asg = next((i for i, s in enumerate(body) if "value=init_ast.node" in s), None)
            ok = i_dep is not None and i_asg is not None and i_dep < i_asg
        ctx.ob("C02.R2", f"{GEN}::{hname}::each binding: init statements, then its assignment, then the next binding", GEN, fn.lineno, ok, "" if ok else "binding initialisers are not emitted binding by binding in order")


def _kw_of_call_containing(fn, attr_node, ctor: str):
    """The keyword name (of the nearest enclosing `ctor(...)` call) under which attr_node sits."""
    prev = attr_node
    for a in P.ancestors(attr_node):
        if a is fn:
            return None
        if isinstance(a, ast.keyword):
            par = P.parent(a)
            if isinstance(par, ast.Call) and P.un(par.func) == ctor:
                return a.arg
        prev = a
    _ = prev
    return None


@rule("C02.R3", floor=5)
def r3_branch_local_dependencies(ctx):
    """Statements hoisted out of a branch stay in that branch: then/else dependencies only flow
    into the If's orelse/body, try-body dependencies into Try.body, finally into finalbody, loop
    body into the While body (hoisting any of them would evaluate an untaken branch)."""
    f = ctx.fn(GEN, "_if_to_py_ast")
    for var, want in (("then_ast", "orelse"), ("else_ast", "body")):
        uses = [n for n in ast.walk(f) if isinstance(n, ast.Attribute) and n.attr in ("dependencies", "node") and isinstance(n.value, ast.Name) and n.value.id == var]
        where = set().union(*[P.keyword_sinks(f, u, "ast.If") for u in uses]) if uses else set()
        ok = bool(uses) and where == {want}
        ctx.ob("C02.R3", f"{GEN}::_if_to_py_ast::{var} only inside ast.If({want}=...)", GEN, f.lineno, ok,
               "" if ok else f"{var}'s statements or value are used outside the If's `{want}` block ({sorted(str(w) for w in where)}): the branch would run although not taken")
    rets = [r for r in ast.walk(f) if isinstance(r, ast.Return) and isinstance(r.value, ast.Call) and P.un(r.value.func) == "GeneratedPyAST"]
    deps = [P.un(k.value) for r in rets for k in r.value.keywords if k.arg == "dependencies"]
    ok = deps == ["list(chain(test_ast.dependencies, if_test_deps, [ifstmt]))"]
    ctx.ob("C02.R3", f"{GEN}::_if_to_py_ast::dependencies = test statements, test temp, the if", GEN, f.lineno, ok, "" if ok else f"the if's own dependency list is {deps}")
    t = ctx.fn(GEN, "_try_to_py_ast")
    for var, want in (("body_ast", "body"),):
        uses = [n for n in ast.walk(t) if isinstance(n, ast.Attribute) and n.attr in ("dependencies", "node") and isinstance(n.value, ast.Name) and n.value.id == var]
        where = set().union(*[P.keyword_sinks(t, u, "ast.Try") for u in uses]) if uses else set()
        ok = bool(uses) and where == {want}
        ctx.ob("C02.R3", f"{GEN}::_try_to_py_ast::{var} only inside ast.Try({want}=...)", GEN, t.lineno, ok, "" if ok else f"the try body's statements escape the protected block: {sorted(str(w) for w in where)}")
    fin = [a for a in ast.walk(t) if isinstance(a, ast.Call) and isinstance(a.func, ast.Attribute) and P.un(a.func.value) == "finallys"]
    ok = bool(fin) and "finalbody=finallys" in P.un(t)
    ctx.ob("C02.R3", f"{GEN}::_try_to_py_ast::finally statements only in finalbody", GEN, t.lineno, ok, "" if ok else "finally statements are not confined to finalbody")
    lp = ctx.fn(GEN, "_loop_to_py_ast")
    ok = "loop_body_ast.extend(map(statementize, body_ast.dependencies))" in P.un(lp) and "ast.While(test=ast.Constant(True), body=loop_body_ast, orelse=[])" in P.un(lp)
    ctx.ob("C02.R3", f"{GEN}::_loop_to_py_ast::body statements inside the While", GEN, lp.lineno, ok, "" if ok else "loop body statements are emitted outside the while loop")
    ib = ctx.fn(GEN, "__if_body_to_py_ast")
    ok = "dependencies=py_ast.dependencies" in P.un(ib)
    ctx.ob("C02.R3", f"{GEN}::__if_body_to_py_ast::passes the branch's dependencies through", GEN, ib.lineno, ok, "" if ok else "a branch's dependency statements are dropped or replaced")


@rule("C02.R4", floor=20)
def r4_each_child_generated_once(ctx):
    """No handler calls gen_py_ast twice on the same child expression; the `if` test value is
    spliced into the generated comparison twice only as a bare name (a temp, or the test itself
    when it already is an ast.Name)."""
    tree = _gen(ctx)
    for fn in P.all_defs(tree):
        if P.enclosing_func(fn) is not None:
            continue
        seen = {}
        for c in sorted(P.calls(fn), key=lambda c: (c.lineno, c.col_offset)):
            if P.un(c.func) == "gen_py_ast" and len(c.args) >= 2:
                k = P.un(c.args[1])
                seen.setdefault(k, []).append(c)
        for k, cs in seen.items():
            if k.startswith("node.") or k.endswith(".init") or k.endswith(".tag"):
                # the same text may appear in exclusive branches: count per branch-free path (approximation: siblings in one block)
                blocks = {id(P.block_of(P.stmt_of(c))) for c in cs}
                ok = len(cs) == 1 or len(blocks) == len(cs)
                ctx.ob("C02.R4", f"{GEN}::{fn.name}::gen_py_ast(ctx, {k}) once", GEN, cs[0].lineno, ok, "" if ok else f"{k} is generated {len(cs)} times on one path: the sub-expression is evaluated more than once")
    f = ctx.fn(GEN, "_if_to_py_ast")
    ifc = [c for c in P.calls(f) if P.un(c.func) == "ast.If"]
    if not ifc:
        raise AnalysisError("_if_to_py_ast no longer builds ast.If")
    test = next(k.value for k in ifc[0].keywords if k.arg == "test")
    comps = [c for c in ast.walk(test) if isinstance(c, ast.Call) and P.un(c.func) == "ast.Compare"]
    ok = len(comps) == 2 and all("comparators=[ast.Name(id=test_name, ctx=ast.Load())]" in P.un(c) for c in comps)
    ctx.ob("C02.R4", f"{GEN}::_if_to_py_ast::test value referenced through ast.Name(id=test_name)", GEN, f.lineno, ok, "" if ok else "the test expression itself (not a name bound to its value) appears in both comparisons: it is evaluated twice")
    guards = [i for i in ast.walk(f) if isinstance(i, ast.If) and "test_ast.node" in P.un(i.test)]
    ok = bool(guards) and all(P.un(i.test) == "isinstance(test_ast.node, ast.Name)" for i in guards)
    ctx.ob("C02.R4", f"{GEN}::_if_to_py_ast::temp skipped only when the test already is an ast.Name", GEN, f.lineno, ok,
           "" if ok else f"the temporary for the test value is skipped under `{P.un(guards[0].test) if guards else '?'}`: any expression other than a bare name would be evaluated once per comparison (an attribute read can run a property)")
    asg = [a for a in ast.walk(f) if isinstance(a, ast.Call) and P.un(a.func) == "ast.Assign" and "value=test_ast.node" in P.un(a)]
    ctx.ob("C02.R4", f"{GEN}::_if_to_py_ast::otherwise the test value is assigned to the temp once", GEN, f.lineno, len(asg) == 1, "" if len(asg) == 1 else "the test value is not assigned to the temporary exactly once")


ONE_SHOT = ("chain", "chain.from_iterable", "map", "filter", "zip", "iter", "itertools.chain", "reversed")


@rule("C02.R5", floor=40)
def r5_dependencies_are_reiterable(ctx):
    """The dependency statements of a GeneratedPyAST are walked more than once (location decorators
    stamp them, the consumer emits them): every `dependencies=` is a list (list(...), a display, a
    list variable, another node's .dependencies), never a one-shot iterator -- a chain/map/generator
    would be exhausted by the first walk and the statements (and their effects) silently dropped."""
    tree = _gen(ctx)
    for c in ast.walk(tree):
        if not (isinstance(c, ast.Call) and P.un(c.func) == "GeneratedPyAST"):
            continue
        kw = next((k for k in c.keywords if k.arg == "dependencies"), None)
        if kw is None:
            continue
        v = kw.value
        fn = P.enclosing_func(c)
        bad = None
        if isinstance(v, ast.GeneratorExp):
            bad = "a generator expression"
        elif isinstance(v, ast.Call) and P.un(v.func) in ONE_SHOT:
            bad = f"`{P.un(v.func)}(...)`, a one-shot iterator"
        elif isinstance(v, ast.Name) and fn is not None:
            for a in ast.walk(fn):
                if isinstance(a, ast.Assign) and any(P.un(t) == v.id for t in a.targets) and isinstance(a.value, ast.Call) and P.un(a.value.func) in ONE_SHOT:
                    bad = f"`{v.id}`, assigned from {P.un(a.value.func)}(...)"
                if isinstance(a, ast.Assign) and isinstance(a.value, ast.GeneratorExp) and any(P.un(t) == v.id for t in a.targets):
                    bad = f"`{v.id}`, a generator expression"
        if bad is not None and fn is not None and fn.name == "__multi_arity_dispatch_fn":
            # reviewed exemption: an undecorated private helper whose single caller consumes the
            # stream exactly once inside list(chain(...)); holds only while that stays true
            callers = [x for x in ast.walk(tree) if isinstance(x, ast.Call) and P.un(x.func).endswith("__multi_arity_dispatch_fn")]
            if len(callers) == 1 and not fn.decorator_list:
                ctx.ob("C02.R5", f"{GEN}::{fn.name}::dependencies={P.un(v)[:50]} (consumed once by its only caller)", GEN, c.lineno, True, "reviewed exemption")
                continue
        ctx.ob("C02.R5", f"{GEN}::{fn.name if fn else '?'}::dependencies={P.un(v)[:50]}", GEN, c.lineno, bad is None,
               "" if bad is None else f"dependencies is {bad}: the first consumer (the location-stamping decorator) exhausts it and the hoisted statements never run")
    ch = ctx.fn(GEN, "_chain_py_ast")
    rets = [r for r in ast.walk(ch) if isinstance(r, ast.Return)]
    ok = bool(rets) and all(isinstance(r.value, ast.Tuple) and isinstance(r.value.elts[0], ast.Name) and any(isinstance(a, (ast.Assign, ast.AnnAssign)) and P.un(a.target if isinstance(a, ast.AnnAssign) else a.targets[0]) == r.value.elts[0].id and isinstance(a.value, ast.List) for a in ast.walk(ch)) for r in rets)
    ctx.ob("C02.R5", f"{GEN}::_chain_py_ast::returns its dependency statements as a list", GEN, ch.lineno, ok, "" if ok else "_chain_py_ast hands out a one-shot iterator of dependency statements")


CONDITIONAL_HEADS = {"if", "when", "when-not", "and", "or", "cond", "condp", "case", "if-let", "when-let", "if-not", "if-some", "when-some", "fn", "fn*", "loop", "loop*", "lazy-seq", "delay", "future", "try", "while", "for", "doseq", "dotimes", "quote"}


def param_uses(body, pnames):
    uses = []

    def walk(f, cond):
        if isinstance(f, L.FnLit):
            cond = True
        if isinstance(f, L.Sym):
            if f.val in pnames:
                uses.append((f.val, cond))
            return
        if isinstance(f, L.Wrap) and f.tag == "quote":
            return
        if isinstance(f, L.Wrap) and f.tag == "unquote" and isinstance(f.form, L.Sym):
            if f.form.val in pnames:
                uses.append((f.form.val, cond))
            return
        h = L.head(f)
        for i, k in enumerate(f.children()):
            c = cond
            if h in CONDITIONAL_HEADS and i >= 1 and not (h in ("if", "when", "when-not", "if-not") and i == 1):
                c = True
            walk(k, c)

    walk(body, False)
    return uses


def linearity(pn, body):
    uses = param_uses(body, set(pn))
    order = [u for u, _c in uses]
    problems = []
    if any(c for _u, c in uses):
        problems.append(f"parameter {[u for u, c in uses if c][0]} is used in a conditional/deferred position: the argument may be evaluated zero or many times when inlined")
    if sorted(order) != sorted(pn):
        dup = [p for p in pn if order.count(p) != 1]
        problems.append(f"parameter(s) {dup} used {[order.count(p) for p in dup]} time(s): the argument expression is evaluated that many times when inlined")
    elif order != pn:
        problems.append(f"arguments are evaluated in order {order}, a call evaluates {pn}")
    return problems


@rule("C02.R6", floor=100)
def r6_inline_templates_are_linear(ctx):
    """Inline expansion substitutes argument *expressions* for parameters: every ^:inline function
    (auto-inlined from its body) and every explicit :inline template in core.lpy uses each parameter
    exactly once, in parameter order, outside conditional or deferred positions."""
    forms = ctx.lisp(CORE)
    n = 0
    for f in forms:
        h = L.head(f)
        if h in ("defn", "defn-"):
            metas = []
            for x in f.items[1:3]:
                metas.extend(x.meta or [])
            if not any(isinstance(m, L.Kw) and m.val == "inline" for m in metas):
                continue
            ar = L.fn_arities(f)
            if len(ar) != 1 or not ar[0][1]:
                continue
            params, body = ar[0]
            pn = [p.val for p in params.items if isinstance(p, L.Sym)]
            if len(pn) != len(params.items):
                continue
            problems = linearity(pn, body[-1])
            n += 1
            ctx.ob("C02.R6", f"{CORE}::{f.items[1].val}::inline-linear", CORE, f.line, not problems, "; ".join(problems),
                   witness="(peek (do (swap! a inc) [1 2])) evaluated its argument twice")
        elif h == ".alter-meta" and len(f.items) >= 5 and isinstance(f.items[3], L.Kw) and f.items[3].val == "inline":
            target = f.items[1].text()
            tmpl = f.items[4]
            ar = L.fn_arities(tmpl) if L.head(tmpl) in ("fn", "fn*") else []
            if not ar:
                continue
            params, body = ar[0]
            pn = [p.val for p in params.items if isinstance(p, L.Sym)]
            # the expander may choose between templates at expansion time ((if <test on the argument
            # *forms*> `template-1 `template-2)): every template it can return is held to the rule
            # A template chosen because an argument form *is a plain symbol* may place that argument
            # anywhere: evaluating a symbol has no effect to order or to repeat.
            def symbol_test(t):
                if L.head(t) in ("symbol?", "simple-symbol?") and len(t.items) == 2 and isinstance(t.items[1], L.Sym):
                    return t.items[1].val
                if L.head(t) in ("python/isinstance", "instance?") and len(t.items) == 3:
                    a, b2 = t.items[1], t.items[2]
                    if L.head(t) == "instance?":
                        a, b2 = b2, a
                    if isinstance(a, L.Sym) and b2.text() in ("basilisp.lang.symbol/Symbol", "sym/Symbol"):
                        return a.val
                return None

            def leaves(b, pure=frozenset()):
                if L.head(b) == "if" and len(b.items) == 4:
                    s = symbol_test(b.items[1])
                    return leaves(b.items[2], pure | ({s} if s else set())) + leaves(b.items[3], pure)
                if L.head(b) in ("let", "let*", "do") and len(b.items) > 2:
                    return leaves(b.items[-1], pure)
                return [(b.form if isinstance(b, L.Wrap) and b.tag == "syntax-quote" else b, pure)]
            problems = []
            for leaf, pure in leaves(body[-1]):
                live = [p for p in pn if p not in pure]
                uses = [(u, c) for u, c in param_uses(leaf, set(pn)) if u not in pure]
                order = [u for u, _c in uses]
                leaf_problems = []
                if any(c for _u, c in uses):
                    leaf_problems.append(f"parameter {[u for u, c in uses if c][0]} is used in a conditional/deferred position: the argument may be evaluated zero or many times when inlined")
                if sorted(order) != sorted(live):
                    dup = [p for p in live if order.count(p) != 1]
                    leaf_problems.append(f"parameter(s) {dup} used {[order.count(p) for p in dup]} time(s): the argument expression is evaluated that many times when inlined")
                elif order != live:
                    leaf_problems.append(f"arguments are evaluated in order {order}, a call evaluates {live}")
                for p in leaf_problems:
                    if p not in problems:
                        problems.append(p)
            n += 1
            ctx.ob("C02.R6", f"{CORE}::{target} :inline template", CORE, f.line, not problems, "; ".join(problems),
                   witness="(instance? (do (swap! order conj :cls) python/int) (do (swap! order conj :obj) 1)) records [:obj :cls]")
    ctx.note(f"C02.R6: {n} inline functions / templates of core.lpy analysed")


ANA = "src/basilisp/lang/compiler/analyzer.py"
UNORDERED_MAPS = ("lmap.map", "lmap.hash_map", "lmap.PersistentMap", "lmap.m", "immutables.Map", "Map", "frozenset", "set", "lset.set")


@rule("C02.R8", floor=2)
def r8_keyword_arguments_keep_their_order(ctx):
    """Keyword-argument values of a call are sub-expressions like any other: the analyzer must hand
    them to the generator in the order they were written.  A persistent (hash-ordered) map loses
    it -- the values would be evaluated in an order that changes with PYTHONHASHSEED -- so the
    mapping returned by _call_args_ast is an insertion-ordered one (a dict or a read-only view of
    one) filled in source order."""
    fn = ctx.fn(ANA, "_call_args_ast")
    rets = [r.value for r in ast.walk(fn) if isinstance(r, ast.Return) and isinstance(r.value, ast.Tuple) and len(r.value.elts) == 2]
    if not rets:
        raise AnalysisError("anchor vanished: _call_args_ast no longer returns (args, kwargs)")
    kwname = P.un(rets[0].elts[1])
    assigns = [a for a in ast.walk(fn) if isinstance(a, ast.Assign) and P.un(a.targets[0]) == kwname]
    if not assigns:
        raise AnalysisError(f"anchor vanished: no assignment to `{kwname}` in _call_args_ast")
    for a in assigns:
        unordered = [c for c in ast.walk(a.value) if isinstance(c, ast.Call) and P.un(c.func) in UNORDERED_MAPS and (c.args or c.keywords)]
        ctx.ob("C02.R8", f"{ANA}::_call_args_ast::{P.un(a)[:60]} keeps source order", ANA, a.lineno, not unordered,
               "" if not unordered else f"the keyword arguments are collected into `{P.un(unordered[0].func)}(...)`, which is ordered by hash: their values are evaluated in an order that varies with PYTHONHASHSEED",
               witness="(python/dict ** :a (t 1) :b (t 2) :c (t 3)) logged 3 2 1")
    fills = [s for s in ast.walk(fn) if isinstance(s, ast.Assign) and isinstance(s.targets[0], ast.Subscript) and isinstance(P.parent(s), (ast.For, ast.If, ast.Try)) or (isinstance(s, ast.Assign) and isinstance(s.targets[0], ast.Subscript))]
    loops = [l for l in ast.walk(fn) if isinstance(l, ast.For) and any(P.contains(l, f) for f in fills)]
    ok = bool(loops) and all("sorted(" not in P.un(l.iter) and "reversed(" not in P.un(l.iter) and "set(" not in P.un(l.iter) for l in loops)
    ctx.ob("C02.R8", f"{ANA}::_call_args_ast::the mapping is filled in the order of the written pairs", ANA, loops[0].lineno if loops else fn.lineno, ok,
           "" if ok else "the key/value pairs are not visited in source order")


COMPILER = "src/basilisp/lang/compiler/__init__.py"


@rule("C02.R7", floor=3)
def r7_eval_wrapper_is_private_to_its_evaluation(ctx):
    """compile_and_exec_form (eval, load, REPL, nREPL) defines a wrapper function in the
    namespace's module, calls it and deletes it.  The module is shared by every thread and every
    nested eval of that namespace, so the wrapper's name must be fresh for each evaluated form
    (genname inside the per-form loop) and the very same name must be used to define, fetch and
    remove it: with a fixed name a concurrent or nested evaluation replaces the function between
    `exec` and the call, and one form is evaluated twice while the other never runs."""
    import ast as _ast
    tree = ctx.py(COMPILER)
    fn = P.find_def(tree, "compile_and_exec_form")
    if fn is None:
        raise AnalysisError("anchor vanished: compiler.compile_and_exec_form")
    defs = [c for c in P.calls(fn) if P.un(c.func) == "_expressionize" and len(c.args) >= 2]
    gets = [c for c in P.calls(fn) if P.un(c.func) == "getattr" and len(c.args) >= 2 and P.un(c.args[0]) == "ns.module"]
    if not defs or not gets:
        raise AnalysisError("anchor vanished: wrapper definition / lookup in compile_and_exec_form")
    loop = next((f for f in _ast.walk(fn) if isinstance(f, _ast.For) and any(P.contains(f, d) for d in defs)), None)
    name_exprs = {P.un(d.args[1]) for d in defs}
    inst = f"{COMPILER}::compile_and_exec_form::wrapper name `{' / '.join(sorted(name_exprs))}`"
    ok_fresh = False
    why = "the wrapper is defined under more than one name expression"
    if len(name_exprs) == 1 and isinstance(defs[0].args[1], _ast.Name):
        nm = defs[0].args[1].id
        assigns = [a for a in _ast.walk(fn) if isinstance(a, _ast.Assign) and any(isinstance(t, _ast.Name) and t.id == nm for t in a.targets)]
        # fresh per call is enough: the forms of one call run one after the other and each removes its wrapper
        ok_fresh = bool(assigns) and all(isinstance(a.value, _ast.Call) and P.un(a.value.func).split(".")[-1] == "genname" for a in assigns)
        why = f"`{nm}` is not assigned from genname(...): different evaluations share one module-level name"
    elif len(name_exprs) == 1:
        why = f"the wrapper is defined under `{next(iter(name_exprs))}`, which is the same for every evaluation: two threads (or a nested eval) evaluating in one namespace call each other's wrapper"
    ctx.ob("C02.R7", inst + " is fresh per evaluated form", COMPILER, defs[0].lineno, ok_fresh, "" if ok_fresh else why,
           witness="two threads evaluating different forms in the same namespace: one form runs twice, the other never")
    ok = all(P.un(g.args[1]) in name_exprs for g in gets)
    ctx.ob("C02.R7", inst + " is the name looked up and called", COMPILER, gets[0].lineno, ok, "" if ok else "the function fetched from the module is not the one just defined")
    dels = [d for d in _ast.walk(fn) if isinstance(d, _ast.Delete) and "ns.module" in P.un(d)] + [c for c in P.calls(fn) if P.un(c.func).endswith(".pop") and "ns.module" in P.un(c.func)]
    ok = bool(dels) and all(any(x in P.un(d) for x in name_exprs) for d in dels)
    ctx.ob("C02.R7", inst + " is removed from the module afterwards", COMPILER, getattr(dels[0], "lineno", fn.lineno) if dels else fn.lineno, ok, "" if ok else "the wrapper is not removed (or another name is removed)")


def _embed_uses(node, v):
    """How often `<v>.node` -- the generated expression of a child -- is placed into the output by
    this expression; inspections (isinstance / comparisons) do not place it, the two arms of a
    conditional expression are alternatives."""
    if isinstance(node, ast.IfExp):
        return _embed_uses(node.test, v) + max(_embed_uses(node.body, v), _embed_uses(node.orelse, v))
    if isinstance(node, ast.Attribute) and node.attr == "node" and isinstance(node.value, ast.Name) and node.value.id == v:
        return 1
    if isinstance(node, ast.Call) and P.un(node.func) in ("isinstance", "type", "len"):
        return 0
    if isinstance(node, ast.Compare):
        return 0
    return sum(_embed_uses(c, v) for c in ast.iter_child_nodes(node))


def _max_embeddings(fn, v):
    """The largest number of times `<v>.node` is placed into the output along one path through `fn`
    between two assignments of v (syntax-directed; a use inside a loop of a value generated outside
    it counts as many).  Returns (count, line)."""
    worst = [0, fn.lineno]

    def note(c, s):
        if c > worst[0]:
            worst[0], worst[1] = c, s.lineno

    def assigns(s):
        return isinstance(s, (ast.Assign, ast.AnnAssign)) and any(isinstance(t, ast.Name) and t.id == v for t in (s.targets if isinstance(s, ast.Assign) else [s.target]))

    def block(stmts, cnt):
        for s in stmts:
            if cnt is None:
                return None
            cnt = stmt(s, cnt)
        return cnt

    def stmt(s, cnt):
        if isinstance(s, (ast.FunctionDef, ast.AsyncFunctionDef, ast.ClassDef)):
            return cnt
        if isinstance(s, ast.If):
            cnt += _embed_uses(s.test, v)
            note(cnt, s)
            outs = [x for x in (block(s.body, cnt), block(s.orelse, cnt)) if x is not None]
            return max(outs) if outs else None
        if isinstance(s, (ast.For, ast.While)):
            cnt += _embed_uses(s.iter if isinstance(s, ast.For) else s.test, v)
            note(cnt, s)
            block(s.body, 0)
            if sum(_embed_uses(x, v) for x in s.body) and not any(assigns(x) for x in ast.walk(s)):
                note(99, s)
            block(s.orelse, cnt)
            return cnt
        if isinstance(s, ast.With):
            for it in s.items:
                cnt += _embed_uses(it.context_expr, v)
            note(cnt, s)
            return block(s.body, cnt)
        if isinstance(s, ast.Try):
            a = block(s.body, cnt)
            outs = [] if a is None else [block(s.orelse, a) if s.orelse else a]
            outs += [block(h.body, cnt) for h in s.handlers]
            outs = [o for o in outs if o is not None]
            c = max(outs) if outs else None
            if s.finalbody:
                c = block(s.finalbody, c if c is not None else cnt)
            return c
        if assigns(s):
            return 0
        cnt += _embed_uses(s, v)
        note(cnt, s)
        if isinstance(s, (ast.Return, ast.Raise, ast.Continue, ast.Break)):
            return None
        return cnt

    block(fn.body, 0)
    return worst[0], worst[1]


@rule("C02.R9", floor=35)
def r9_generated_child_is_placed_once(ctx):
    """Generating a child once (R4) is not enough: the generated expression `<child>.node` must also
    be *placed* into the output at most once on every path through the handler -- placed twice, the
    child's code is emitted twice and runs twice.  Checked for every local that holds the result of
    gen_py_ast / a *_to_py_ast helper in every handler of the generator."""
    tree = _gen(ctx)
    n = 0
    for fn in P.all_defs(tree):
        if P.enclosing_func(fn) is not None:
            continue
        vars_ = sorted({a.targets[0].id for a in ast.walk(fn) if isinstance(a, ast.Assign) and isinstance(a.value, ast.Call) and isinstance(a.targets[0], ast.Name)
                        and (P.un(a.value.func) == "gen_py_ast" or P.un(a.value.func).endswith("_to_py_ast"))})
        for v in vars_:
            cnt, line = _max_embeddings(fn, v)
            n += 1
            ctx.ob("C02.R9", f"{GEN}::{fn.name}::{v}.node placed at most once per path", GEN, line, cnt <= 1,
                   "" if cnt <= 1 else f"`{v}.node` is placed into the generated code {'repeatedly (in a loop)' if cnt >= 99 else str(cnt) + ' times'} on one path: the sub-expression it was generated from is evaluated that often",
                   witness="(let [a (atom 0) r (set! (.-attr obj) (swap! a inc))] [r @a (.-attr obj)]) => [1 2 2]")
    if n == 0:
        raise AnalysisError("no generated-child locals found in the generator")


# (macro, unquoted text): forms that a template loop re-evaluates on every iteration *by definition*
_REEVALUATED_BY_DEFINITION = {
    ("while", "~cond"): "the loop test",
    ("amap", "~expr"): "the per-element expression",
    ("areduce", "~expr"): "the per-element expression",
    ("for", "~seq-body"): "the comprehension body",
}


def _macro_locals_bound_to_names(top):
    """Macro-time locals that hold a symbol the macro itself made or validated: (gensym ...), or a
    destructured binding name.  Unquoting them evaluates nothing."""
    out = set()
    for f in L.walk(top):
        if L.head(f) in ("let", "let*", "if-let", "when-let") and len(f.items) > 1 and isinstance(f.items[1], L.Vec):
            b = f.items[1].items
            for k, val in zip(b[0::2], b[1::2]):
                if isinstance(k, L.Sym) and (L.head(val) in ("gensym",) or (L.head(val) in ("with-meta", "vary-meta") and any(L.head(x) == "gensym" for x in L.walk(val)))):
                    out.add(k.val)
    return out


def _template_paths_count(form, key_of):
    """Largest number of evaluations of one unquoted expression along an evaluation path of the
    template `form`: `if` arms are alternatives, everything else is a sequence."""
    def go(f):
        if isinstance(f, L.Wrap):
            if f.tag == "unquote":
                k = key_of(f)
                return {k: 1} if k is not None else {}
            if f.tag in ("quote", "syntax-quote", "var"):
                return {}
            return go(f.form)
        if isinstance(f, L.Coll):
            items = f.items
            if isinstance(f, L.List) and items and L.head(f) in ("if", "if-not") and len(items) >= 3:
                acc = go(items[1])
                arms = [go(x) for x in items[2:4]]
                for k in set().union(*arms) if arms else ():
                    acc[k] = acc.get(k, 0) + max(a.get(k, 0) for a in arms)
                return acc
            acc = {}
            for x in items:
                for k, c in go(x).items():
                    acc[k] = acc.get(k, 0) + c
            return acc
        return {}
    return go(form)


@rule("C02.R10", floor=40)
def r10_core_macros_evaluate_their_operands_once(ctx):
    """A macro of basilisp.core places an operand form into its expansion so that it is evaluated at
    most once: (a) no operand is unquoted twice on one evaluation path of a template (the arms of
    an `if` are alternatives), (b) a macro that expands into a call of itself does not both
    evaluate an operand and hand the same operand form on to the next expansion, unless it has
    made sure the operand is a symbol, (c) no operand is unquoted inside the body of a `loop` the
    template sets up, apart from the forms listed as re-evaluated by definition.  Operands used as
    binding names (they are symbols) and macro-made gensyms are not evaluations."""
    forms = ctx.lisp(CORE)
    n = 0
    for top in forms:
        if L.head(top) != "defmacro" or len(top.items) < 3 or not isinstance(top.items[1], L.Sym):
            continue
        mname = top.items[1].val
        made = _macro_locals_bound_to_names(top)
        for ai, (params, body) in enumerate(L.fn_arities(top)):
            ps = {p.val for p in params.items if isinstance(p, L.Sym) and p.val != "&"}
            templates = [f for b in body for f in L.walk(b) if isinstance(f, L.Wrap) and f.tag == "syntax-quote"
                         and not any(isinstance(a, L.Wrap) and a.tag == "syntax-quote" for a in L.ancestors(f))]
            if not templates:
                continue
            # operands that the templates use as names: binding positions, def / fn names, (var x), set!
            names = set()
            for t in templates:
                for f in L.walk(t.form):
                    if L.head(f) in ("let", "let*", "loop", "loop*", "binding", "with-open", "doseq", "for", "dotimes", "if-let", "when-let", "if-some", "when-some", "letfn") and len(f.items) > 1 and isinstance(f.items[1], L.Vec):
                        for k in f.items[1].items[0::2]:
                            for x in L.walk(k):
                                if isinstance(x, L.Wrap) and x.tag == "unquote":
                                    names.add(x.form.text())
                    if L.head(f) in ("def", "defn", "defmacro", "fn", "fn*", "deftype", "deftype*", "defrecord", "declare", "var", "set!", "ns", "in-ns", "defonce", "reify", "import", "quote") and len(f.items) > 1:
                        x = f.items[1]
                        if isinstance(x, L.Wrap) and x.tag == "unquote":
                            names.add(x.form.text())
                    if isinstance(f, L.Wrap) and f.tag in ("quote", "var") and isinstance(f.form, L.Wrap) and f.form.tag == "unquote":
                        names.add(f.form.form.text())
                    if isinstance(f, L.Vec) and L.head(f.parent) in ("fn", "fn*", "defn"):
                        for x in f.items:
                            if isinstance(x, L.Wrap) and x.tag == "unquote":
                                names.add(x.form.text())

            def key_of(u, ps=ps, names=names, made=made):
                e = u.form
                txt = e.text()
                if txt in names:
                    return None
                if isinstance(e, L.Sym):
                    return txt if (e.val in ps and e.val not in made) else None
                # ~(first xs) / ~(second binding) ...: an operand sub-form taken out of a parameter
                if isinstance(e, L.List) and L.head(e) in ("first", "second", "last", "nth", "fnext") and any(isinstance(x, L.Sym) and x.val in ps for x in e.items[1:]):
                    return txt
                return None

            for ti, t in enumerate(templates):
                n += 1
                inst = f"{CORE}::{mname}[arity {ai}]::template {ti}"
                counts = _template_paths_count(t.form, key_of)
                dup = sorted(k for k, c in counts.items() if c > 1)
                ctx.ob("C02.R10", inst + "::no operand unquoted twice on one path", CORE, t.line, not dup,
                       "" if not dup else f"~{dup[0]} is placed {counts[dup[0]]} times on one evaluation path of the expansion: the operand is evaluated that often",
                       witness="(some-> (swap! a inc) (* 10)) bumps the atom twice")
                # (b) recursion
                rec = [f for f in L.walk(t.form) if isinstance(f, L.List) and f.items and isinstance(f.items[0], L.Sym) and f.items[0].val in (mname, "basilisp.core/" + mname)]
                fwd = set()
                for r in rec:
                    for x in r.items[1:]:
                        if isinstance(x, L.Wrap) and x.tag == "unquote" and isinstance(x.form, L.Sym) and x.form.val in ps and x.form.val not in made and x.form.text() not in names:
                            fwd.add(x.form.val)
                if fwd:
                    # evaluated at this level too: unquoted elsewhere in the template, or spliced through (list p ...)
                    evaluated = set()
                    for f in L.walk(t.form):
                        if any(f is r or any(a is r for a in L.ancestors(f)) for r in rec):
                            continue
                        if isinstance(f, L.Wrap) and f.tag == "unquote":
                            for x in L.walk(f.form):
                                if isinstance(x, L.Sym) and x.val in fwd:
                                    evaluated.add(x.val)
                    # a guard that made sure they are symbols
                    def known_symbol(p, t=t):
                        for a in L.ancestors(t):
                            if L.head(a) == "if" and len(a.items) >= 4:
                                test, then, els = a.items[1], a.items[2], a.items[3]
                                in_then = then is t or any(x is t for x in L.walk(then))
                                tt = test.text()
                                pos = f"(symbol? {p})" in tt
                                neg = tt.startswith("(not ")
                                if pos and ((in_then and not neg) or (not in_then and neg)):
                                    return True
                        return False
                    bad = sorted(p for p in evaluated if not known_symbol(p))
                    ctx.ob("C02.R10", inst + "::an operand handed to the next expansion is not also evaluated here", CORE, t.line, not bad,
                           "" if not bad else f"`{bad[0]}` is evaluated by this expansion and passed on, as a form, to the {mname} it expands into: it is evaluated once per clause tried",
                           witness="(condp = (swap! a inc) 5 :five 1 :one :other) => :other")
                # (c) template loops
                for lp in L.walk(t.form):
                    if L.head(lp) not in ("loop", "loop*"):
                        continue
                    for part in lp.items[2:]:
                        for x in L.walk(part):
                            if isinstance(x, L.Wrap) and x.tag == "unquote":
                                k = key_of(x)
                                if k is None or (mname, "~" + k) in _REEVALUATED_BY_DEFINITION:
                                    continue
                                ctx.ob("C02.R10", inst + f"::~{k} is not re-evaluated by the template's loop", CORE, x.line, False,
                                       f"~{k} sits inside the body of the loop the expansion sets up: the operand is evaluated on every iteration",
                                       witness="(dotimes [i (do (swap! calls inc) 2)] ...) evaluates the count three times")
    if n == 0:
        raise AnalysisError("no macro templates found in core.lpy")


SELFTEST = [
    {"name": "throw merges the statements of exception and cause by hand (the repaired defect)", "file": GEN, "expect": "C02.R1",
     "old": "        deps, (exc, cause) = _chain_py_ast(exc_ast, cause_ast)\n", "new": "        deps, exc, cause = list(chain(exc_ast.dependencies, cause_ast.dependencies)), exc_ast.node, cause_ast.node\n"},
    {"name": "set! places its value twice in expression position (the repaired defect)", "file": GEN, "expect": "C02.R9",
     "old": "        assign_ast = [ast.Assign(targets=[target_ast.node], value=val_node)]\n    elif isinstance(target, VarRef):",
     "new": "        assign_ast = [ast.Assign(targets=[target_ast.node], value=val_ast.node)]\n    elif isinstance(target, VarRef):"},
    {"name": "some-> evaluates x for the nil test and again for the step (the repaired defect)", "file": CORE, "expect": "C02.R10",
     "old": "    `(let [x# ~x]\n       (when-not (nil? x#)\n         (let [result# (-> x# ~(first forms))]", "new": "    `(let [x# 1]\n       (when-not (nil? ~x)\n         (let [result# (-> ~x ~(first forms))]"},
    {"name": "amap evaluates its array twice (the repaired defect)", "file": CORE, "expect": "C02.R10",
     "old": "         len#   (alength array#)\n         ~ret   (aclone array#)]", "new": "         len#   (alength ~array)\n         ~ret   (aclone ~array)]"},
    {"name": "condp re-evaluates pred and expr per clause (the repaired defect)", "file": CORE, "expect": "C02.R10",
     "old": "  (if (not (and (symbol? pred) (symbol? expr)))\n", "new": "  (if false\n"},
    {"name": "dotimes evaluates its count in the loop test (the repaired defect)", "file": CORE, "expect": "C02.R10",
     "old": "         (when (< ~nm n#)\n", "new": "         (when (< ~nm ~(second binding))\n"},
    {"name": "eval wrapper under a fixed module-level name", "file": COMPILER, "expect": "C02.R7",
     "old": "        final_wrapped_name = genname(wrapped_fn_name)\n", "new": "        final_wrapped_name = wrapped_fn_name\n"},
    {"name": "twin: eval wrapper name generated once per call", "file": COMPILER, "expect": None,
     "edits": [
         {"file": COMPILER, "old": "        final_wrapped_name = genname(wrapped_fn_name)\n", "new": ""},
         {"file": COMPILER, "old": "    last = _sentinel\n    for unrolled_form in unrolled_forms:\n", "new": "    last = _sentinel\n    final_wrapped_name = genname(wrapped_fn_name)\n    for unrolled_form in unrolled_forms:\n"},
     ]},
    {"name": "chain without hoisting (the repaired defect)", "file": GEN, "expect": "C02.R1",
     "old": "        if i < last_with_deps and not isinstance(n.node, ast.Constant):", "new": "        if False:"},
    {"name": "invoke merges the callee by hand again", "file": GEN, "expect": "C02.R1",
     "old": "    deps, fn_node, args_nodes, kwargs_nodes = _call_args_ast(\n        ctx, fn_ast, node.args, node.kwargs\n    )\n\n    return GeneratedPyAST(\n        node=ast.Call(\n            func=fn_node,",
     "new": "    deps0, args_nodes = _collection_ast(ctx, node.args)\n    deps = list(chain(fn_ast.dependencies, deps0))\n    kwargs_nodes = []\n\n    return GeneratedPyAST(\n        node=ast.Call(\n            func=fn_ast.node,"},
    {"name": "instance? template evaluates the object first for any class form (the repaired defect)", "file": CORE, "expect": "C02.R6",
     "old": "               (if (python/isinstance class basilisp.lang.symbol/Symbol)\n", "new": "               (if true\n"},
    {"name": "keyword arguments collected into a persistent map (the repaired defect)", "file": ANA, "expect": "C02.R8",
     "old": "                kwargs = types.MappingProxyType(kw_map)\n", "new": "                kwargs = lmap.map(kw_map)\n"},
    {"name": "keyword values chained before the positional arguments", "file": GEN, "expect": "C02.R2",
     "old": "        head_ast, *args_asts, *(gen_py_ast(ctx, kwargs[k]) for k in kwargs_keys)\n    )\n    args_nodes, kwargs_nodes = nodes[: len(args_asts)], nodes[len(args_asts) :]\n",
     "new": "        head_ast, *(gen_py_ast(ctx, kwargs[k]) for k in kwargs_keys), *args_asts\n    )\n    kwargs_nodes, args_nodes = nodes[: len(kwargs_keys)], nodes[len(kwargs_keys) :]\n"},
    {"name": "twin: keyword arguments kept in a plain dict", "file": ANA, "expect": None,
     "old": "                kwargs = types.MappingProxyType(kw_map)\n", "new": "                kwargs = dict(kw_map)\n"},
    {"name": "reduce emits node before its deps", "file": GEN, "expect": "C02.R1",
     "old": "            deps.extend(n.dependencies)\n            deps.append(n.node)\n", "new": "            deps.append(n.node)\n            deps.extend(n.dependencies)\n"},
    {"name": "if generates else before then", "file": GEN, "expect": "C02.R2",
     "old": "    then_ast = __if_body_to_py_ast(ctx, node.then, result_name)\n    else_ast = __if_body_to_py_ast(ctx, node.else_, result_name)\n", "new": "    else_ast = __if_body_to_py_ast(ctx, node.else_, result_name)\n    then_ast = __if_body_to_py_ast(ctx, node.then, result_name)\n"},
    {"name": "then-branch statements hoisted before the if", "file": GEN, "expect": "C02.R3",
     "old": "        dependencies=list(chain(test_ast.dependencies, if_test_deps, [ifstmt])),", "new": "        dependencies=list(chain(test_ast.dependencies, then_ast.dependencies, if_test_deps, [ifstmt])),"},
    {"name": "seeded C02/a: test temp skipped for dotted names", "file": GEN, "expect": "C02.R4",
     "old": "    if isinstance(test_ast.node, ast.Name):\n        test_name = test_ast.node.id\n", "new": "    if isinstance(test_ast.node, (ast.Name, ast.Attribute)):\n        test_name = ast.unparse(test_ast.node)\n"},
    {"name": "inline fn with a doubled parameter", "file": CORE, "expect": "C02.R6",
     "old": "(defn ^:inline nil?\n", "new": "(defn ^:inline twice-nil?\n  [x]\n  (and (operator/is- x nil) (operator/is- x nil)))\n\n(defn ^:inline nil?\n"},
    # twins
    {"name": "twin: hoist constants too", "file": GEN, "expect": None,
     "old": "        if i < last_with_deps and not isinstance(n.node, ast.Constant):", "new": "        if i < last_with_deps:"},
]
