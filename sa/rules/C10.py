"""C10 -- a name denotes one binding, and reading it sees the value last given to it."""
from __future__ import annotations

import ast
import builtins as _builtins
import keyword as _keyword

from ..core import AnalysisError, rule
from .. import pyfacts as P
from ..pycfg import CFG

UTIL = "src/basilisp/lang/util.py"
GEN = "src/basilisp/lang/compiler/generator.py"
ANA = "src/basilisp/lang/compiler/analyzer.py"
RT = "src/basilisp/lang/runtime.py"
CLI = "src/basilisp/cli.py"

EXPLANATION = (
    "munge is a string homomorphism given by a table in the source: its injectivity is decided (letter collisions, images that "
    "are also spellable by other letters, Sardinas-Patterson on the remaining code, the keyword/builtin suffix rule). Direct "
    "linking is CFG-dominated by the four indirection tests; every foreign VarRef is dominated by the privacy test; every "
    "context-manager that pushes onto a compiler scope stack pops it in a finally; locals are consulted before Vars."
)
DECIDES = "injectivity of munge (decision procedure over the table), guard dominance for direct linking and for privacy, exception-safety of the compiler's scope stacks, locals-before-Vars, bare global names (own and other namespaces) not capturable by locals, intern binds the namespace's Var, refer stages only filter or re-key"
DECLINED = "histories of def/refer/alias and the value last given (runtime state)"
TRUSTED = ["keyword.kwlist / builtins names of the running CPython", "contextlib.contextmanager: code after `yield` runs only on normal exit unless in finally"]
ASSUMPTIONS = ["a CompilerContext outlives a failed form at the REPL (cli.repl creates it once; slot-checked)"]
TECHNIQUE = "decision procedure for homomorphism injectivity (unique decodability) + CFG dominance + context-manager exception-safety rule"


# ---------------------------------------------------------------------------------------------
# R1 munge injectivity


def _munge_table(ctx):
    tree = ctx.py(UTIL)
    v = P.module_assign(tree, "_MUNGE_REPLACEMENTS")
    if not isinstance(v, ast.Dict):
        raise AnalysisError("anchor vanished: util._MUNGE_REPLACEMENTS (dict literal)")
    table = {}
    for k, val in zip(v.keys, v.values):
        if not (isinstance(k, ast.Constant) and isinstance(val, ast.Constant)):
            raise AnalysisError("_MUNGE_REPLACEMENTS is not a literal str->str table")
        table[k.value] = val.value
    ctx.analysed["tables"].add(f"util._MUNGE_REPLACEMENTS ({len(table)} entries)")
    return table, v.lineno


def _decompose(word: str, code: dict, exclude_letter: str):
    """Can `word` be written as a concatenation of images of letters other than
    exclude_letter?  Returns the preimage string or None.  code: letter -> image."""
    n = len(word)
    best = [None] * (n + 1)
    best[0] = ""
    for i in range(n):
        if best[i] is None:
            continue
        for letter, img in code.items():
            if letter == exclude_letter or not img:
                continue
            if word.startswith(img, i) and best[i + len(img)] is None:
                best[i + len(img)] = best[i] + letter
    return best[n]


def _sardinas_patterson(words: set[str]):
    """Returns None if the code is uniquely decodable, else a dangling-suffix witness."""
    words = {w for w in words if w}
    def dangling(A, B):
        out = set()
        for a in A:
            for b in B:
                if a != b and b.startswith(a):
                    out.add(b[len(a):])
        return out
    S = dangling(words, words)
    seen = set()
    while S:
        if S & words:
            return sorted(S & words)[0]
        key = frozenset(S)
        if key in seen:
            return None
        seen.add(key)
        S = dangling(words, S) | dangling(S, words)
    return None


@rule("C10.R1", floor=10)
def r1_munge_injective(ctx):
    """munge (table + `..` rule + keyword/builtin suffix rule) maps distinct source names to
    distinct Python names.  Each way in which it does not is one instance."""
    table, line = _munge_table(ctx)
    fn = ctx.fn(UTIL, "munge")
    ident = {c for img in table.values() for c in img} - set(table)
    code = dict(table)
    for c in ident:
        code[c] = c
    # (1) two letters with one image
    by_img = {}
    for k, img in code.items():
        by_img.setdefault(img, []).append(k)
    collided = set()
    for img, ks in sorted(by_img.items()):
        if len(ks) > 1:
            ks = sorted(ks)
            collided |= set(ks)
            ctx.ob("C10.R1", f"{UTIL}::munge::letters {ks} share the image {img!r}", UTIL, line, False,
                   f"names differing only in {ks[0]!r}/{ks[1]!r} munge to the same Python name",
                   witness="(def a-b 1) (def a_b 2) a-b => 2")
    # (2) an image spellable with other letters
    for k, img in sorted(table.items()):
        if len(img) <= 1:
            if k not in collided:
                ctx.ob("C10.R1", f"{UTIL}::munge::entry {k!r}->{img!r}", UTIL, line, True, "single-character image, no collision")
            continue
        pre = _decompose(img, code, k)
        ok = pre is None
        ctx.ob("C10.R1", f"{UTIL}::munge::entry {k!r}->{img!r} is also the image of another name", UTIL, line, ok,
               "" if ok else f"the names {k!r} and {pre!r} both munge to {img!r}", witness=f"{k} vs {pre}")
    # (3) whatever ambiguity remains after removing (1)/(2): Sardinas-Patterson on multi-char images + identity letters
    rest = {img for k, img in table.items() if len(img) > 1 and _decompose(img, code, k) is None} | {c for c in ident}
    w = _sardinas_patterson(rest)
    ctx.ob("C10.R1", f"{UTIL}::munge::residual code uniquely decodable", UTIL, line, w is None, "" if w is None else f"ambiguous concatenation, dangling suffix {w!r}")
    # (4) suffix rule and the `..` rule
    src = P.un(fn)
    suffix_rules = [n for n in ast.walk(fn) if isinstance(n, ast.Return) and isinstance(n.value, ast.JoinedStr) and P.un(n.value).endswith("_'")]
    for r in suffix_rules:
        guard = next((a for a in P.ancestors(r) if isinstance(a, ast.If)), None)
        gtxt = P.un(guard.test) if guard is not None else "?"
        ctx.ob("C10.R1", f"{UTIL}::munge::suffix rule `{gtxt}` -> name + '_'", UTIL, r.lineno, False,
               "a reserved name x and the legal source name x_ munge to the same Python name",
               witness="print / print_ , class / class_")
    dd = [n for n in ast.walk(fn) if isinstance(n, ast.Return) and P.un(n.value) == "_DOUBLE_DOT_REPLACEMENT"]
    for r in dd:
        ctx.ob("C10.R1", f"{UTIL}::munge::`..` -> _DOUBLE_DOT_REPLACEMENT", UTIL, r.lineno, False,
               "the name `..` and the literal name __DOT_DOT__ munge alike", witness=".. vs __DOT_DOT__")
    _ = src, _keyword, _builtins


# ---------------------------------------------------------------------------------------------
# R2 direct link guard

GUARDS = ("has_var_indirection_override", "use_var_indirection", "_is_dynamic(var)", "_is_redefable(var)")


@rule("C10.R2", floor=5)
def r2_direct_link_dominated_by_indirection_guard(ctx):
    """In _var_sym_to_py_ast the call of __var_direct_link_to_py_ast is reachable only on paths
    where each of the four indirection tests was evaluated false; _def_to_py_ast assigns the module
    global and interns the Var under the same munged name."""
    fn = ctx.fn(GEN, "_var_sym_to_py_ast")
    g = CFG(fn)
    targets = [nd for nd in g.nodes if nd.kind in ("stmt", "test") and any(P.un(c.func).endswith("__var_direct_link_to_py_ast") for c in P.calls(nd.ast))]
    if not targets:
        raise AnalysisError("_var_sym_to_py_ast no longer calls __var_direct_link_to_py_ast")
    for gd in GUARDS:
        def false_edge(a, b, lab, gd=gd):
            return a.kind == "test" and lab is False and gd in P.un(a.ast)
        ok = all(g.edge_dominated(t, false_edge) for t in targets)
        ctx.ob("C10.R2", f"{GEN}::_var_sym_to_py_ast::direct-link guarded by not {gd}", GEN, targets[0].line, ok,
               "" if ok else f"a Var can be direct-linked without `{gd}` having been tested false: reads would miss later root changes / thread bindings")
    # the direct link result is only used when not None, and the fallback is Var.find
    rets = [nd for nd in g.nodes if nd.kind == "stmt" and isinstance(nd.ast, ast.Return)]
    last = [r for r in rets if "__var_find_to_py_ast" in P.un(r.ast)]
    ctx.ob("C10.R2", f"{GEN}::_var_sym_to_py_ast::fallback is Var.find indirection", GEN, fn.lineno, len(last) >= 2, "" if len(last) >= 2 else "the Var.find fallback disappeared")
    d = ctx.fn(GEN, "_def_to_py_ast")
    safe = [a for a in ast.walk(d) if isinstance(a, ast.Assign) and any(P.un(t) == "safe_name" for t in a.targets)]
    ok = len(safe) == 1 and P.un(safe[0].value) == "munge(defsym.name)"
    ctx.ob("C10.R2", f"{GEN}::_def_to_py_ast::safe_name = munge(defsym.name)", GEN, d.lineno, ok, "" if ok else "the def'ed global is not named munge(defsym.name): direct links (which look up munge(name)) would miss it")
    # every ast.Name store / Global in _def_to_py_ast uses safe_name
    bad = [n for n in ast.walk(d) if isinstance(n, ast.Call) and P.un(n.func) in ("ast.Name", "ast.Global") and "safe_name" not in P.un(n)]
    ctx.ob("C10.R2", f"{GEN}::_def_to_py_ast::all module-global references use safe_name", GEN, d.lineno, not bad, "" if not bad else f"`{P.un(bad[0])}` names the global differently")
    nm = ctx.fn(GEN, "__name_in_module")
    ok = "munge(name)" in P.un(nm) and "module.__dict__" in P.un(nm)
    ctx.ob("C10.R2", f"{GEN}::__name_in_module::looks up munge(name) in the Var's module", GEN, nm.lineno, ok, "" if ok else "direct-link lookup no longer uses munge(name) in the module dict")


# ---------------------------------------------------------------------------------------------
# R3 privacy


@rule("C10.R3", floor=2)
def r3_privacy_dominates_foreign_varref(ctx):
    """Each VarRef built from Var.find / Var.find_in_ns (a Var of another namespace) is reachable
    only past the SYM_PRIVATE_META_KEY test whose true outcome raises; refer/refer_all skip
    private Vars."""
    tree = ctx.py(ANA)
    n = 0
    for fn in P.all_defs(tree):
        finds = [a for a in P.walk_local(fn) if isinstance(a, ast.Assign) and isinstance(a.value, ast.Call) and P.un(a.value.func) in ("Var.find", "Var.find_in_ns", "runtime.Var.find", "runtime.Var.find_in_ns")]
        if not finds:
            continue
        g = None
        for a in finds:
            vname = P.un(a.targets[0])
            refs = [c for c in P.calls(fn) if P.un(c.func) == "VarRef" and any(k.arg == "var" and P.un(k.value) == vname for k in c.keywords)]
            if not refs:
                continue
            g = g or CFG(fn)
            anodes = [nd for nd in g.nodes if nd.ast is a]
            for c in refs:
                rn = [nd for nd in g.nodes if nd.kind == "stmt" and P.contains(nd.ast, c)]
                def _is_private_test(e, vname=vname):
                    """the private-metadata test on `vname`: written out, or a module-level predicate that is it"""
                    t = P.un(e)
                    if "SYM_PRIVATE_META_KEY" in t and vname in t:
                        return True
                    for c2 in ast.walk(e):
                        if isinstance(c2, ast.Call) and isinstance(c2.func, ast.Name) and len(c2.args) == 1 and P.un(c2.args[0]) == vname:
                            hh = P.find_def(tree, c2.func.id)
                            if hh is not None and isinstance(hh, P.FUNC) and len(hh.args.args) == 1:
                                rets_h = [P.un(r.value) for r in ast.walk(hh) if isinstance(r, ast.Return) and r.value is not None]
                                p0 = hh.args.args[0].arg
                                if len(rets_h) == 1 and "SYM_PRIVATE_META_KEY" in rets_h[0] and f"{p0}.meta" in rets_h[0]:
                                    return True
                    return False
                priv = [nd for nd in g.nodes if nd.kind == "test" and _is_private_test(nd.ast)]
                def meta_none(x, y, lab, vname=vname):
                    return x.kind == "test" and P.un(x.ast) == f"{vname}.meta is not None" and lab is False
                reach = g.reach(anodes, avoid=priv, avoid_edges=meta_none)
                unguarded = any(r.id in reach for r in rn)
                leaks = False
                for p in priv:
                    tsucc = [b for b, lab in p.succ if lab is True]
                    r2 = g.reach(tsucc)
                    if any(r.id in r2 for r in rn):
                        leaks = True
                ok = bool(priv) and not unguarded and not leaks
                n += 1
                ctx.ob("C10.R3", f"{ANA}::{P.qual(fn)}::VarRef(var={vname}) from {P.un(a.value.func)}", ANA, c.lineno, ok,
                       "" if ok else "a Var of another namespace can be referenced without the private-metadata test (or its true outcome does not raise)")
    rt = ctx.py(RT)
    ns = P.find_def(rt, "Namespace")
    if ns is None:
        raise AnalysisError("anchor vanished: runtime.Namespace")
    ms = P.methods(ns)
    for name in ("refer_all",):
        m = ms.get(name)
        if m is None:
            raise AnalysisError(f"anchor vanished: Namespace.{name}")
        ok = "is_private" in P.un(m) or "SYM_PRIVATE" in P.un(m) or "private" in P.un(m)
        ctx.ob("C10.R3", f"{RT}::Namespace.{name}::skips private Vars", RT, m.lineno, ok, "" if ok else f"{name} no longer filters private Vars")


# ---------------------------------------------------------------------------------------------
# R4 context managers


def _self_mutations(stmts):
    """Statements (within the list, descending into with/if bodies but not try) that mutate
    self.<attr> via .append/.pop/.extend/store."""
    out = []
    for s in stmts:
        for n in ast.walk(s):
            if isinstance(n, ast.Call) and isinstance(n.func, ast.Attribute) and n.func.attr in ("append", "pop", "extend", "insert", "remove", "clear") and P.un(n.func.value).startswith("self."):
                out.append((s, n))
            elif isinstance(n, (ast.Assign, ast.AugAssign)) and any(P.is_self_attr(t) for t in P.store_targets(n)):
                out.append((s, n))
    return out


@rule("C10.R4", floor=10)
def r4_scope_stacks_survive_exceptions(ctx):
    """Every @contextmanager method of the analyzer/generator contexts that mutates a `self` stack
    before `yield` undoes it in a `finally` (after-yield code is skipped when the body raises), so
    a failed form does not leave a stale scope in a context that is reused (the REPL's)."""
    for rel in (ANA, GEN):
        tree = ctx.py(rel)
        for fn in P.all_defs(tree):
            if not any(d.endswith("contextmanager") for d in P.decorators(fn)):
                continue
            yields = [n for n in P.walk_local(fn) if isinstance(n, (ast.Yield, ast.YieldFrom))]
            if len(yields) != 1:
                continue
            y = yields[0]
            ystmt = P.stmt_of(y)
            # statements before / after the yield in its own block and enclosing blocks
            before, after = [], []
            node = ystmt
            in_finally_protected = False
            fin_muts = []
            while node is not fn and node is not None:
                blk = P.block_of(node)
                par = P.parent(node)
                if blk is not None:
                    i = blk.index(node)
                    before = blk[:i] + before
                    if not in_finally_protected:
                        after = after + blk[i + 1:]
                if isinstance(par, ast.Try) and node in par.body and par.finalbody:
                    in_finally_protected = True
                    fin_muts = fin_muts + _self_mutations(par.finalbody)
                node = par
            pre = _self_mutations(before)
            if not pre:
                continue  # nothing pushed before the yield
            post = _self_mutations(after)
            inst = f"{rel}::{P.qual(fn)}::{' ; '.join(P.un(n) for _s, n in pre)}"
            if in_finally_protected and fin_muts and not post:
                ctx.ob("C10.R4", inst, rel, fn.lineno, True, "undo is in finally")
            elif post and not in_finally_protected:
                ctx.ob("C10.R4", inst, rel, fn.lineno, False,
                       f"`{P.un(post[0][1])}` after the yield is skipped when the body raises: the pushed scope stays on the stack of a context the REPL keeps using",
                       witness="(def x 5) (let [x 1] (undefined-fn x)) => error; afterwards x => AssertionError for the rest of the session")
            elif post and in_finally_protected:
                ctx.ob("C10.R4", inst, rel, fn.lineno, False, f"`{P.un(post[0][1])}` is outside the finally")
            else:
                ctx.ob("C10.R4", inst, rel, fn.lineno, False, "a scope stack is pushed before the yield and never popped")
    # the REPL keeps one compiler context across forms (this is why a leak matters)
    cli = ctx.py(CLI)
    repl = P.find_def(cli, "repl")
    if repl is None:
        raise AnalysisError("anchor vanished: cli.repl")
    ctx_assign = [a for a in P.walk_local(repl) if isinstance(a, ast.Assign) and "CompilerContext(" in P.un(a.value)]
    in_loop = any(isinstance(x, (ast.While, ast.For)) for a in ctx_assign for x in P.ancestors(a) if x is not repl)
    ctx.ob("C10.R4", f"{CLI}::repl::one CompilerContext per session", CLI, repl.lineno, True,
           "context created once outside the read loop (so scope leaks persist)" if ctx_assign and not in_loop else "context is re-created per form (leaks would not persist; rule still enforced)")


@rule("C10.R5", floor=2)
def r5_locals_shadow_vars(ctx):
    """_symbol_node consults ctx.symbol_table.find_symbol before _resolve_sym on every non-quoted
    path, and returns a Local when the symbol is lexically bound."""
    fn = ctx.fn(ANA, "_symbol_node")
    g = CFG(fn)
    res = [nd for nd in g.nodes if nd.kind == "stmt" and any(P.un(c.func) == "_resolve_sym" for c in P.calls(nd.ast))]
    look = [nd for nd in g.nodes if nd.kind == "stmt" and any(P.un(c.func) == "ctx.symbol_table.find_symbol" for c in P.calls(nd.ast))]
    if not res:
        raise AnalysisError("_symbol_node no longer calls _resolve_sym")
    ok = bool(look) and all(g.dominated(r, look) for r in res)
    ctx.ob("C10.R5", f"{ANA}::_symbol_node::local lookup dominates Var resolution", ANA, fn.lineno, ok, "" if ok else "a symbol can be resolved to a Var without first looking it up among the locals")
    def not_found(a, b, lab):
        return a.kind == "test" and "sym_entry is not None" in P.un(a.ast) and lab is False
    ok = all(g.edge_dominated(r, not_found) for r in res)
    ctx.ob("C10.R5", f"{ANA}::_symbol_node::Var resolution only when no local binds the name", ANA, fn.lineno, ok, "" if ok else "_resolve_sym is reachable although a local binding was found")
    locs = [nd for nd in g.nodes if nd.kind == "stmt" and isinstance(nd.ast, ast.Return) and "Local(" in P.un(nd.ast)]
    ctx.ob("C10.R5", f"{ANA}::_symbol_node::returns Local for a bound symbol", ANA, fn.lineno, bool(locs), "" if locs else "no Local node is produced")


@rule("C10.R6", floor=2)
def r6_def_installs_the_value(ctx):
    """Var.intern binds the root whenever a value is supplied: the only guard on bind_root(val) is
    the unbound-sentinel identity test. A guard that compares the new value with the current root
    (== / !=) would skip the store for equal-but-distinct values (0 / false, 1 / 1.0, [1 2] /
    '(1 2)) while the generated module global is updated: direct-linked and indirect reads diverge."""
    var = P.find_def(ctx.py(RT), "Var")
    if var is None:
        raise AnalysisError("anchor vanished: runtime.Var")
    it = P.methods(var).get("intern")
    if it is None:
        raise AnalysisError("anchor vanished: Var.intern")
    binds = [c for c in P.calls(it) if P.un(c.func) == "var.bind_root"]
    ctx.ob("C10.R6", f"{RT}::Var.intern::calls var.bind_root(val)", RT, it.lineno, len(binds) == 1 and P.un(binds[0].args[0]) == "val" if binds else False,
           "" if binds else "Var.intern no longer binds the root")
    for c in binds:
        tests = []
        for a in P.ancestors(c):
            if a is it:
                break
            if isinstance(a, ast.If):
                tests.append(a.test)
        bad = [cmp_ for t in tests for cmp_ in ast.walk(t) if isinstance(cmp_, ast.Compare) and any(isinstance(o, (ast.Eq, ast.NotEq)) for o in cmp_.ops)]
        extra = [t for t in tests if P.un(t) not in ("val is not cls.__UNBOUND_SENTINEL",)]
        ok = not bad and not extra
        ctx.ob("C10.R6", f"{RT}::Var.intern::bind_root guarded only by the unbound sentinel", RT, c.lineno, ok,
               "" if ok else f"bind_root(val) is skipped under `{P.un((bad or extra)[0])}`: a redefinition with an equal-but-distinct value leaves the Var's root stale while the module global changes")


@rule("C10.R10", floor=1)
def r10_resolution_follows_the_var_not_the_spelling(ctx):
    """'A symbol denotes the same Var whether written bare (interned or referred), through an alias
    or fully qualified': the runtime's symbol resolution (resolve_alias, used by syntax-quote,
    resolve and ns-resolve) must name a referred Var by the Var's own name and namespace, not by
    the local nickname it was referred under."""
    from .C09 import resolve_alias_problem
    ra = ctx.fn(RT, "resolve_alias")
    problem = resolve_alias_problem(ra)
    ctx.ob("C10.R10", f"{RT}::resolve_alias::a bare symbol resolves to the Var's own name and namespace", RT, ra.lineno, problem is None, problem or "",
           witness="(refer 'lib :rename '{orig renamed}) (resolve 'renamed) must be #'lib/orig")


OPT = "src/basilisp/lang/compiler/optimizer.py"


@rule("C10.R9", floor=4)
def r9_every_function_declares_its_own_globals(ctx):
    """A `def` inside a function assigns the module global that direct-linked references read, which
    needs `global NAME` in *that* function: Python's global declarations do not reach into nested
    functions.  The optimizer, which de-duplicates and hoists these declarations, must therefore
    start every function with an empty set of declared names and emit exactly the names collected
    for that function -- nothing inherited from, or subtracted because of, the enclosing function."""
    tree = ctx.py(OPT)
    cls = P.find_def(tree, "PythonASTOptimizer")
    if cls is None:
        raise AnalysisError("anchor vanished: PythonASTOptimizer")
    ms = P.methods(cls)
    ngc = ms.get("_new_global_context")
    if ngc is None:
        raise AnalysisError("anchor vanished: PythonASTOptimizer._new_global_context")
    pushes = [c for c in P.calls(ngc) if P.un(c.func) == "self._global_ctx.append"]
    ok = len(pushes) == 1 and P.un(pushes[0].args[0]) in ("set()", "set([])", "set(())")
    ctx.ob("C10.R9", f"{OPT}::_new_global_context starts a function with no declared names", OPT, ngc.lineno, ok,
           "" if ok else f"a function's context starts from `{P.un(pushes[0].args[0]) if pushes else '?'}`: declarations of the enclosing function are taken to hold in the nested one, whose own `global` is then dropped -- its def binds a local, and direct-linked reads keep the old value",
           witness="(defn init! [] (def level 1) (fn upgrade! [] (def level 2))) ((init!)) level  => 1 with direct linking, 2 through the Var")
    for vname in ("visit_FunctionDef", "visit_AsyncFunctionDef"):
        v = ms.get(vname)
        if v is None:
            raise AnalysisError(f"anchor vanished: PythonASTOptimizer.{vname}")
        withs = [w for w in ast.walk(v) if isinstance(w, ast.With) and any("_new_global_context" in P.un(i.context_expr) for i in w.items)]
        ok = bool(withs)
        ctx.ob("C10.R9", f"{OPT}::{vname} visits its body in a fresh global context", OPT, v.lineno, ok, "" if ok else f"{vname} shares the enclosing function's declared names")
        var = next((P.un(i.optional_vars) for w in withs for i in w.items if i.optional_vars is not None), None)
        if var is not None:
            reassigned = [a for a in ast.walk(v) if isinstance(a, (ast.Assign, ast.AugAssign, ast.AnnAssign)) and any(isinstance(t, ast.Name) and t.id == var for t in P.store_targets(a))]
            uses = [c for c in P.calls(v) if any(isinstance(x, ast.Name) and x.id == var for a in c.args for x in ast.walk(a))]
            narrowed = [c for c in uses for a in c.args for x in ast.walk(a) if (isinstance(x, ast.BinOp) and isinstance(x.op, (ast.Sub, ast.BitAnd))) or (isinstance(x, ast.Call) and P.un(x.func).split(".")[-1] in ("difference", "intersection"))]
            ok = not reassigned and not narrowed
            ctx.ob("C10.R9", f"{OPT}::{vname} emits exactly the names collected for this function", OPT, v.lineno, ok,
                   "" if ok else f"`{var}` is narrowed before it is emitted ({P.un((reassigned or narrowed)[0])[:70]}): a name the enclosing function also declares is not declared here, so this function's def binds a local")


CORE = "src/basilisp/core.lpy"


@rule("C10.R8", floor=1)
def r8_core_intern_binds_the_interned_var(ctx):
    """basilisp.core/intern with a value binds the root of the Var that Namespace.intern *returns*
    (the one already interned under the name, if any), not of the fresh Var it offered."""
    from .. import lispread as L
    d = L.top_defs(ctx.lisp(CORE)).get("intern")
    if d is None:
        raise AnalysisError("anchor vanished: core.lpy::intern")
    for params, body in L.fn_arities(d):
        if len(params.items) != 3:
            continue
        binds = [f for b in body for f in L.walk(b) if L.head(f) == ".bind-root"]
        if not binds:
            ctx.ob("C10.R8", f"{CORE}::intern [ns name val]::binds the root", CORE, d.line, False, "intern with a value never binds a root")
            continue
        tgt = binds[0].items[1]
        ok = False
        if isinstance(tgt, L.Sym):
            for b in body:
                for f in L.walk(b):
                    if L.head(f) in ("let", "let*") and isinstance(f.items[1], L.Vec):
                        for nm, init in zip(f.items[1].items[0::2], f.items[1].items[1::2]):
                            if L.is_sym(nm, tgt.val):
                                ok = any(L.head(x) == ".intern" for x in L.walk(init))
        elif isinstance(tgt, L.List):
            ok = any(L.head(x) == ".intern" for x in L.walk(tgt))
        ctx.ob("C10.R8", f"{CORE}::intern [ns name val]::bind-root on the Var returned by the namespace", CORE, binds[0].line, ok,
               "" if ok else "the root is bound on the freshly created Var; when a Var of that name exists the namespace returns the old one, whose root never changes",
               witness="(def ^:redef r 1) (intern 'my.ns 'r 5) r must be 5")


@rule("C10.R12", floor=2)
def r12_the_local_name_test_sees_every_enclosing_function(ctx):
    """R7's guard asks the symbol table whether a Python local of that name is in scope.  A Python
    closure sees the locals of *every* enclosing function, so the test the guard calls has to walk
    the frames up to the top level: its only negative answer is given at the frame that has no
    parent, and from every other frame that does not know the name it asks the parent.  Stopping at
    the function boundary (as the per-function queries rightly do) lets the parameter of an outer
    fn capture a Var referenced from a nested closure -- the fns that for, delay, lazy-seq and
    future wrap around their bodies included."""
    tree = ctx.py(GEN)
    dl = P.find_def(tree, "__var_direct_link_to_py_ast")
    st = P.find_def(tree, "SymbolTable")
    if dl is None or st is None:
        raise AnalysisError("anchor vanished: generator.__var_direct_link_to_py_ast / SymbolTable")
    tests = sorted({P.un(c.func).rsplit(".", 1)[1] for i in ast.walk(dl) if isinstance(i, ast.If) for c in ast.walk(i.test)
                    if isinstance(c, ast.Call) and "symbol_table." in P.un(c.func)})
    if not tests:
        raise AnalysisError("__var_direct_link_to_py_ast no longer consults the symbol table (C10.R7 decides whether it has to)")
    for tname in tests:
        m = P.methods(st).get(tname)
        if m is None:
            raise AnalysisError(f"anchor vanished: SymbolTable.{tname}")
        rets = [r for r in ast.walk(m) if isinstance(r, ast.Return)]
        rec = [r for r in rets if r.value is not None and any(isinstance(c, ast.Call) and P.un(c.func) == f"self._parent.{tname}" for c in ast.walk(r.value))]
        ok = bool(rec)
        ctx.ob("C10.R12", f"{GEN}::SymbolTable.{tname}::a frame that does not know the name asks its parent", GEN, m.lineno, ok,
               "" if ok else f"SymbolTable.{tname} never asks the parent frame: only the innermost frame is searched")
        for r in rets:
            if not (isinstance(r.value, ast.Constant) and r.value.value is False):
                continue
            conds = [i for i in P.ancestors(r) if isinstance(i, ast.If) and P.contains(m, i) and any(P.contains(b, r) for b in i.body)]
            at_top = bool(conds) and all(P.un(i.test) in ("self._parent is None", "self.is_top") for i in conds)
            ctx.ob("C10.R12", f"{GEN}::SymbolTable.{tname}::`no` is answered by the top frame only ({' and '.join(P.un(i.test) for i in conds) or 'unconditionally'})", GEN, r.lineno, at_top,
                   "" if at_top else f"SymbolTable.{tname} answers `no` under `{' and '.join(P.un(i.test) for i in conds) or 'no condition'}` without asking the enclosing frames: a parameter of an enclosing function is not seen from a nested closure, and the bare global name emitted there reads that parameter instead of the Var",
                   witness="(def helper ...) (defmacro m [] `(helper 1)) (defn g [helper] (map (fn [_] (m)) [1])) calls the argument")


@rule("C10.R7", floor=2)
def r7_bare_global_names_cannot_be_captured_by_locals(ctx):
    """A Var of the current namespace may be compiled to a bare Python global name only if no local
    in scope has that Python name.  Function parameters keep their munged source names (so that
    Python callers can pass them by keyword), hence either the direct-link path consults the
    symbol table before it emits the bare name and falls back to the Var otherwise, or every
    parameter name is generated fresh.  Without either, a qualified reference -- what syntax-quote
    writes into every macro template -- inside (fn [helper] ...) reads the parameter: macro
    hygiene and 'one name, one binding' both fail."""
    from ..pycfg import CFG
    tree = ctx.py(GEN)
    dl = P.find_def(tree, "__var_direct_link_to_py_ast")
    fa = P.find_def(tree, "__fn_args_to_py_ast")
    if dl is None or fa is None:
        raise AnalysisError("anchor vanished: generator.__var_direct_link_to_py_ast / __fn_args_to_py_ast")
    # (B) parameters always fresh?
    gens = [a for a in ast.walk(fa) if isinstance(a, ast.Assign) and P.un(a.targets[0]) == "arg_name" and isinstance(a.value, ast.Call) and P.un(a.value.func) == "genname"]
    always_fresh = any(not any(isinstance(x, ast.If) for x in P.ancestors(a) if P.contains(fa, x) and x is not fa) for a in gens)
    ctx.ob("C10.R7", f"{GEN}::__fn_args_to_py_ast::parameters keep their munged source names (fresh only on request): {not always_fresh}", GEN, fa.lineno, True,
           "informational: decides which of the two protections is required")
    # (A0) that protection only works for Python locals the symbol table knows about: every parameter
    # name handed to the Python `def` is either the name registered for the Lisp local, or recorded
    # separately -- the rest parameter is the one whose Lisp local lives under another (generated) name
    for a in ast.walk(fa):
        if isinstance(a, ast.Assign) and P.un(a.targets[0]) == "varg" and isinstance(a.value, ast.Call) and P.un(a.value.func) == "ast.arg":
            raw = next((P.un(k.value) for k in a.value.keywords if k.arg == "arg"), None)
            blk = P.block_of(a) or []
            regs = [c for s in blk for c in P.calls(s) if P.un(c.func).endswith("symbol_table.new_symbol") or P.un(c.func).endswith("symbol_table.new_python_name")]
            known = any(any(P.un(x) == raw for x in c.args) for c in regs)
            fresh = any(isinstance(x, ast.Assign) and P.un(x.targets[0]) == raw and isinstance(x.value, ast.Call) and P.un(x.value.func) == "genname"
                        and not any(isinstance(i, ast.If) and "should_generate_safe_names" in P.un(i.test) and "is_variadic" not in P.un(i.test) for i in P.ancestors(x)) for x in ast.walk(fa)) and always_fresh
            ok = known or fresh
            ctx.ob("C10.R7", f"{GEN}::__fn_args_to_py_ast::the Python name of the rest parameter is known to the symbol table", GEN, a.lineno, ok,
                   "" if ok else f"the rest parameter is declared as `*{raw}` but only the generated local holding the rest seq is registered: the direct-link guard does not see `{raw}`, so a qualified reference to a Var of that name reads the parameter",
                   witness="(def xs 1) (defn f [& xs] my.ns/xs) (f 1 2) => (1 2)")
    # (A) the bare-name return is guarded by a symbol-table test on the same name
    g = CFG(dl)
    bare = [nd for nd in g.nodes if nd.kind == "stmt" and isinstance(nd.ast, ast.Return) and nd.ast.value is not None
            and any(isinstance(c, ast.Call) and P.un(c.func) == "ast.Name" and any(k.arg == "id" for k in c.keywords) for c in ast.walk(nd.ast.value))]
    if not bare:
        raise AnalysisError("anchor vanished: the bare ast.Name return of __var_direct_link_to_py_ast")
    for nd in bare:
        call = next(c for c in ast.walk(nd.ast.value) if isinstance(c, ast.Call) and P.un(c.func) == "ast.Name")
        name = P.un(next(k.value for k in call.keywords if k.arg == "id"))

        def guard(a, b, lab, name=name):
            if a.kind != "test" or lab is not False:
                return False
            return any(isinstance(c, ast.Call) and "symbol_table" in P.un(c.func) and any(P.un(x) == name for x in c.args) for c in ast.walk(a.ast))
        guarded = g.edge_dominated(nd, guard)
        ok = guarded or always_fresh
        ctx.ob("C10.R7", f"{GEN}::__var_direct_link_to_py_ast::bare `{name}` only when no local has that Python name", GEN, nd.line, ok,
               "" if ok else f"a Var of the current namespace is emitted as the bare global `{name}` without consulting the symbol table, while fn parameters keep their source names: (defmacro m [] `(helper 1)) (defn g [helper] (m)) calls the argument",
               witness="(def x 1) ((fn [x] my.ns/x) 2) must be 1")
    # ... and the same for a Var of *another* namespace, which is reached through the bare module
    # global that holds that namespace's module: `<global>.<name>`
    attr = [nd for nd in g.nodes if nd.kind == "stmt" and isinstance(nd.ast, ast.Return) and nd.ast.value is not None
            and any(isinstance(c, ast.Call) and P.un(c.func) == "_load_attr" and c.args and isinstance(c.args[0], ast.JoinedStr) for c in ast.walk(nd.ast.value))]
    if not attr:
        raise AnalysisError("anchor vanished: the `<module global>.<name>` return of __var_direct_link_to_py_ast")
    for nd in attr:
        call = next(c for c in ast.walk(nd.ast.value) if isinstance(c, ast.Call) and P.un(c.func) == "_load_attr")
        first = next((v.value for v in call.args[0].values if isinstance(v, ast.FormattedValue)), None)
        name = P.un(first) if first is not None else "?"

        def guard2(a, b, lab, name=name):
            if a.kind != "test" or lab is not False:
                return False
            return any(isinstance(c, ast.Call) and "symbol_table" in P.un(c.func) and any(P.un(x) == name for x in c.args) for c in ast.walk(a.ast))
        ok = g.edge_dominated(nd, guard2) or always_fresh
        ctx.ob("C10.R7", f"{GEN}::__var_direct_link_to_py_ast::`{name}.<var>` only when no local has the Python name of that module global", GEN, nd.line, ok,
               "" if ok else f"a Var of another namespace is emitted as `{name}.<var>` without consulting the symbol table: a parameter or local whose munged name equals the module global of that namespace captures every reference into it",
               witness="((fn [basilisp-core] (str \"a\" basilisp-core)) \"zz\") => AttributeError under direct linking")


@rule("C10.R11", floor=2)
def r11_refer_filters_only_filter(ctx):
    """refer / :refer-basilisp build the referred names from the interns of the other namespace
    through three stages: :only / :refer and :exclude *remove* entries, :rename *re-keys* them.  The
    re-keying stage has to carry every entry along (under its new name if it has one, else its own):
    an accumulating function that returns the accumulator unchanged for an entry drops that name,
    so a bare symbol that should denote the referred Var no longer resolves."""
    from .. import lispread as L
    defs = L.top_defs(ctx.lisp(CORE))
    rf = defs.get("refer-filtered-interns")
    if rf is None:
        raise AnalysisError("anchor vanished: core.lpy::refer-filtered-interns")
    stages = [f for f in L.walk(rf) if L.head(f) in ("cond->>", "cond->")]
    if not stages:
        raise AnalysisError("refer-filtered-interns is no longer a cond->> pipeline over the interns")
    st = stages[0]
    pairs = list(zip(st.items[2::2], st.items[3::2]))
    seen = 0
    for test, step in pairs:
        which = next((n for n in ("only", "exclude", "rename") if any(isinstance(x, L.Sym) and x.val == n for x in L.walk(test))), None)
        if which is None:
            continue
        seen += 1
        if which in ("only", "exclude"):
            ok = L.head(step) in ("filter", "remove", "filterv", "keep")
            ctx.ob("C10.R11", f"{CORE}::refer-filtered-interns::the :{which} stage filters", CORE, step.line, ok, "" if ok else f"the :{which} stage is `{step.text()[:60]}`, not a filter over the entries")
            continue
        # rename: a map / reduce over all entries; the reducing fn must add an entry on every path
        fns = [f for f in L.walk(step) if L.head(f) in ("fn", "fn*") or isinstance(f, L.FnLit)]
        ok, why = True, ""
        if L.head(step) in ("reduce", "reduce*", "reduce-kv") and fns:
            fn = fns[0]
            params = next((x for x in fn.items if isinstance(x, L.Vec)), None)
            acc = params.items[0].val if params is not None and params.items and isinstance(params.items[0], L.Sym) else None
            for i in L.walk(fn):
                if L.head(i) in ("if", "if-not", "when", "when-not", "if-let", "when-let", "cond") and acc is not None:
                    branches = i.items[2:] if L.head(i) != "cond" else i.items[2::2]
                    if any(isinstance(b, L.Sym) and b.val == acc for b in branches) or (L.head(i) in ("when", "when-not", "when-let")):
                        ok, why = False, f"`{i.text()[:70]}` hands the accumulator back unchanged for some entries: a name that is not renamed is not referred at all"
        elif L.head(step) in ("map", "mapv", "into", "update-keys", "set/rename-keys"):
            ok = True
        elif L.head(step) in ("filter", "keep", "select-keys", "remove"):
            ok, why = False, "the :rename stage filters the entries instead of re-keying them"
        else:
            raise AnalysisError(f"refer-filtered-interns: unrecognised :rename stage `{step.text()[:60]}`")
        ctx.ob("C10.R11", f"{CORE}::refer-filtered-interns::the :rename stage keeps every entry", CORE, step.line, ok, why,
               witness="(ns x (:refer-basilisp :rename {map core-map})) str => unable to resolve symbol")
    if seen < 3:
        raise AnalysisError(f"refer-filtered-interns: only {seen} of the three filter stages found")


_GEN_NST ="        with old_st.new_frame(name, is_context_boundary) as st:\n            self._st.append(st)\n            try:\n                yield st\n            finally:\n                self._st.pop()\n"

SELFTEST = [
    {"name": "the local-name test stops at the function boundary", "file": GEN, "expect": "C10.R12",
     "old": "            return True\n        return self._parent.is_local_python_name(name)\n", "new": "            return True\n        if self._is_context_boundary:\n            return False\n        return self._parent.is_local_python_name(name)\n"},
    {"name": "the local-name test looks at the innermost frame only", "file": GEN, "expect": "C10.R12",
     "old": "            return True\n        return self._parent.is_local_python_name(name)\n", "new": "            return True\n        return False\n"},
    {"name": "twin: the local-name test written with is_top and one loop-free expression", "file": GEN, "expect": None,
     "old": "        if self._parent is None:\n            return False\n        if name in self._python_names:\n            return True\n        if any(entry.munged == name for entry in self._table.values()):\n            return True\n        return self._parent.is_local_python_name(name)\n",
     "new": "        if self.is_top:\n            return False\n        known = name in self._python_names or any(entry.munged == name for entry in self._table.values())\n        return known or self._parent.is_local_python_name(name)\n"},
    {"name": "the rest parameter's Python name is unknown to the symbol table (the repaired defect)", "file": GEN, "expect": "C10.R7",
     "old": "            ctx.symbol_table.new_python_name(arg_name)\n", "new": ""},
    {"name": "module global of another namespace emitted without asking the symbol table (the repaired defect)", "file": GEN, "expect": "C10.R7",
     "old": "            if ctx.symbol_table.is_local_python_name(aliased_ns_name):\n                return None\n", "new": ""},
    {"name": "refer :rename drops what is not renamed (the repaired defect)", "file": CORE, "expect": "C10.R11",
     "old": "                               (assoc m\n                                      (get rename (key entry) (key entry))\n                                      (val entry)))\n",
     "new": "                               (if (rename (key entry))\n                                 (assoc m (rename (key entry)) (val entry))\n                                 m))\n"},
    {"name": "intern binds the fresh Var (the repaired defect)", "file": CORE, "expect": "C10.R8",
     "old": "         v  (->> (basilisp.lang.runtime/Var ns name ** :meta {:ns ns :name name})\n                 (.intern ns name))]\n     (.bind-root v val)\n     v)))",
     "new": "         v  (basilisp.lang.runtime/Var ns name ** :meta {:ns ns :name name})]\n     (.bind-root v val)\n     (.intern ns name v))))"},
    {"name": "bare global emitted without asking the symbol table (the repaired defect)", "file": GEN, "expect": "C10.R7",
     "old": "            if ctx.symbol_table.is_local_python_name(safe_name):\n                return None\n", "new": ""},
    {"name": "guard inverted", "file": GEN, "expect": "C10.R7",
     "old": "            if ctx.symbol_table.is_local_python_name(safe_name):\n                return None\n            return GeneratedPyAST(node=ast.Name(id=safe_name, ctx=py_var_ctx))\n",
     "new": "            if ctx.symbol_table.is_local_python_name(safe_name):\n                return GeneratedPyAST(node=ast.Name(id=safe_name, ctx=py_var_ctx))\n            return None\n"},
    {"name": "twin: guard written as the positive branch", "file": GEN, "expect": None,
     "old": "            if ctx.symbol_table.is_local_python_name(safe_name):\n                return None\n            return GeneratedPyAST(node=ast.Name(id=safe_name, ctx=py_var_ctx))\n",
     "new": "            if not ctx.symbol_table.is_local_python_name(safe_name):\n                return GeneratedPyAST(node=ast.Name(id=safe_name, ctx=py_var_ctx))\n            return None\n"},
    {"name": "new colliding munge entry", "file": UTIL, "expect": "C10.R1",
     "old": "    \"%\": \"__PCT__\",\n", "new": "    \"%\": \"__PCT__\",\n    \"~\": \"__PCT__\",\n"},
    {"name": "munge entry whose image is a plain identifier fragment", "file": UTIL, "expect": "C10.R1",
     "old": "    \"%\": \"__PCT__\",\n", "new": "    \"%\": \"__PCT__\",\n    \"^\": \"__Q____LT__\",\n"},
    {"name": "redef guard dropped", "file": GEN, "expect": "C10.R2",
     "old": "        or _is_dynamic(var)\n        or _is_redefable(var)\n    ):\n        return __var_find_to_py_ast(var_name, var_ns_name, py_var_ctx)", "new": "        or _is_dynamic(var)\n    ):\n        return __var_find_to_py_ast(var_name, var_ns_name, py_var_ctx)"},
    {"name": "direct link tried before the guard", "file": GEN, "expect": "C10.R2",
     "old": "    # Check if we should use Var indirection\n    if (\n        ctx.has_var_indirection_override\n",
     "new": "    direct_link = __var_direct_link_to_py_ast(ctx.current_ns, var, py_var_ctx)\n    if direct_link is not None and not _is_dynamic(var):\n        return direct_link\n    # Check if we should use Var indirection\n    if (\n        ctx.has_var_indirection_override\n"},
    {"name": "def global named without munge", "file": GEN, "expect": "C10.R2",
     "old": "    safe_name = munge(defsym.name)\n", "new": "    safe_name = munge(defsym.name, allow_builtins=True)\n"},
    {"name": "privacy check dropped on alias path", "file": ANA, "expect": "C10.R3",
     "old": "        elif v.meta is not None and v.meta.val_at(SYM_PRIVATE_META_KEY, False):\n            raise ctx.AnalyzerException(\n                f\"cannot resolve private Var {form.name} from namespace {form.ns}\",\n                form=form,\n            )\n        return VarRef(", "new": "        return VarRef("},
    {"name": "privacy check only warns", "file": ANA, "expect": "C10.R3", "nth": 1,
     "old": "            raise ctx.AnalyzerException(\n                f\"cannot resolve private Var {form.name} from namespace {form.ns}\",\n                form=form,\n            )\n", "new": "            logger.warning(f\"private Var {form.name}\")\n"},
    {"name": "finally removed from expr_pos", "file": ANA, "expect": "C10.R4",
     "old": "        self._syntax_pos.append(NodeSyntacticPosition.EXPR)\n        try:\n            yield\n        finally:\n            self._syntax_pos.pop()\n", "new": "        self._syntax_pos.append(NodeSyntacticPosition.EXPR)\n        yield\n        self._syntax_pos.pop()\n"},
    {"name": "generator new_symbol_table loses finally (the repaired defect)", "file": GEN, "expect": "C10.R4",
     "old": _GEN_NST, "new": "        with old_st.new_frame(name, is_context_boundary) as st:\n            self._st.append(st)\n            yield st\n            self._st.pop()\n"},
    {"name": "locals consulted after vars", "file": ANA, "expect": "C10.R5",
     "old": "    sym_entry = ctx.symbol_table.find_symbol(form)\n    if sym_entry is not None:\n", "new": "    if not ctx.symbol_table.is_top and ctx.current_ns.find(form) is not None:\n        return _resolve_sym(ctx, form)\n    sym_entry = ctx.symbol_table.find_symbol(form)\n    if sym_entry is not None:\n"},
    # twins
    {"name": "twin: guard as early returns", "file": GEN, "expect": None,
     "old": "    if (\n        ctx.has_var_indirection_override\n        or ctx.use_var_indirection\n        or _is_dynamic(var)\n        or _is_redefable(var)\n    ):\n        return __var_find_to_py_ast(var_name, var_ns_name, py_var_ctx)\n",
     "new": "    if ctx.has_var_indirection_override or ctx.use_var_indirection:\n        return __var_find_to_py_ast(var_name, var_ns_name, py_var_ctx)\n    if _is_dynamic(var):\n        return __var_find_to_py_ast(var_name, var_ns_name, py_var_ctx)\n    if _is_redefable(var):\n        return __var_find_to_py_ast(var_name, var_ns_name, py_var_ctx)\n"},
]
