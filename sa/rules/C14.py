"""C14 -- cached namespace bytecode is transparent and never used when invalid."""
from __future__ import annotations

import ast

from ..core import AnalysisError, rule
from .. import pyfacts as P
from ..pycfg import CFG

IMP = "src/basilisp/importer.py"
GEN = "src/basilisp/lang/compiler/generator.py"
KW = "src/basilisp/lang/keyword.py"

EXPLANATION = (
    "Must-pass-through and table-agreement rules over the importer: every path to marshal.loads passes the magic, mtime and size "
    "comparisons (whose failing outcome raises); the header layout written equals the slices read, with one byte order; every "
    "exception an invalid cache can raise is in the tuple whose handler recompiles from source, and the recompile path writes a "
    "fresh cache; process-dependent constants baked into generated code (hash()) flow only into the validating keyword "
    "constructor, which must intern under a hash computed in the current process."
)
DECIDES = "validation-dominates-use, writer/reader header layout, invalid-cache exceptions reach the fallback, cache rewritten on fallback (and a failed write not failing the import), header fields compared as written, the fallback covering the read of the cache only, hash-seed independence of baked keyword hashes"
DECLINED = "observational equivalence of namespaces loaded from cache vs source; truncation inside the marshal payload is a trusted fact about marshal (EOFError)"
TRUSTED = ["FT-marshal: marshal.loads on a strict prefix of its input raises EOFError", "open() failures are OSError subclasses", "hashlib digests do not depend on the process"]
ASSUMPTIONS = ["PYTHONHASHSEED may differ between the process that wrote a cache and the one that loads it"]

EXC_PARENTS = {"FileNotFoundError": "OSError", "PermissionError": "OSError", "IsADirectoryError": "OSError", "ModuleNotFoundError": "ImportError"}


def _covers(caught: set[str], exc: str) -> bool:
    while exc:
        if exc in caught or "Exception" in caught or "BaseException" in caught:
            return True
        exc = EXC_PARENTS.get(exc)
    return False


@rule("C14.R1", floor=5)
def r1_validation_dominates_use(ctx):
    """_get_basilisp_bytecode: every path to marshal.loads takes the false outcome of the magic,
    timestamp and size comparisons, whose true outcome raises; _exec_cached_module runs
    compile_bytecode only on what _get_basilisp_bytecode returned for (mtime, size) of the source."""
    fn = ctx.fn(IMP, "_get_basilisp_bytecode")
    params = [a.arg for a in fn.args.args]
    if len(params) < 4:
        raise AnalysisError("_get_basilisp_bytecode changed signature")
    _full, mtime_p, size_p, data_p = params[:4]
    g = CFG(fn)
    loads = [nd for nd in g.nodes if nd.kind in ("stmt", "test", "iter") and nd.ast is not None and any(P.un(c.func) in ("marshal.loads", "marshal.load") for c in P.calls(nd.ast))]
    if not loads:
        raise AnalysisError("_get_basilisp_bytecode no longer decodes the payload with marshal")
    # framing: the payload is ONE marshalled object decoded from all remaining bytes, so that a file cut
    # anywhere inside it fails to decode (FT: marshal raises EOFError/ValueError on a truncated object).
    # A sequence of records read until the data runs out accepts a file cut at a record boundary.
    streamed = [nd for nd in loads if any(P.un(c.func) == "marshal.load" for c in P.calls(nd.ast))]
    in_loop = [nd for nd in loads if any(isinstance(a, (ast.While, ast.For)) for a in P.ancestors(nd.ast if not isinstance(nd.ast, ast.While) else nd.ast) if P.contains(fn, a)) or nd.kind == "iter"]
    ok = not streamed and not in_loop
    ctx.ob("C14.R1", f"{IMP}::_get_basilisp_bytecode::the payload is one marshalled object, decoded once", IMP, loads[0].line, ok,
           "" if ok else "the payload is decoded as a run of records until the data ends: a cache file cut exactly at a record boundary decodes as a shorter, valid list and a partial namespace is executed",
           witness="a .lpyc truncated right after the header, or between two top-level forms")
    checks = {"magic": "MAGIC_NUMBER", "timestamp": mtime_p, "size": size_p}
    for label, needle in checks.items():
        tests = [nd for nd in g.nodes if nd.kind == "test" and isinstance(nd.ast, ast.Compare) and needle in P.names_read(nd.ast) and isinstance(nd.ast.ops[0], (ast.NotEq, ast.Eq))]
        if not tests:
            ctx.ob("C14.R1", f"{IMP}::_get_basilisp_bytecode::{label} comparison", IMP, fn.lineno, False, f"the header's {label} is never compared: a stale or foreign cache would be executed")
            continue
        for t in tests:
            ok_label = False if isinstance(t.ast.ops[0], ast.NotEq) else True  # edge label meaning "field matches"

            def match_edge(a, b, lab, t=t, ok_label=ok_label):
                return a is t and lab is ok_label
            dom = all(g.edge_dominated(l, match_edge) for l in loads)
            bad_succ = [b for b, lab in t.succ if lab is (not ok_label)]
            leaks = any(l.id in g.reach(bad_succ) for l in loads)
            ok = dom and not leaks
            ctx.ob("C14.R1", f"{IMP}::_get_basilisp_bytecode::{label} comparison `{P.un(t.ast)}` dominates marshal.loads", IMP, t.line, ok,
                   "" if ok else f"marshal.loads is reachable without the {label} having matched")
    # payload is read from the data parameter
    for l in loads:
        c = next(c for c in P.calls(l.ast) if P.un(c.func) in ("marshal.loads", "marshal.load"))
        src_names = set(P.names_read(c.args[0]))
        # one level of local indirection (a buffer object built from the data parameter)
        for a in ast.walk(fn):
            if isinstance(a, ast.Assign) and any(isinstance(t, ast.Name) and t.id in src_names for t in a.targets):
                src_names |= set(P.names_read(a.value))
        ok = data_p in src_names
        ctx.ob("C14.R1", f"{IMP}::_get_basilisp_bytecode::{P.un(c)}", IMP, l.line, ok, "" if ok else "payload is not taken from the validated buffer")
    # the importer method that validates (calls _get_basilisp_bytecode) and the one that executes
    # (calls compile_bytecode) -- one method, or two with the validated list handed from one to the other
    icls = P.find_def(ctx.py(IMP), "BasilispImporter")
    if icls is None:
        raise AnalysisError("anchor vanished: BasilispImporter")
    meths = P.methods(icls)
    val_m = next((m for m in meths.values() if any(P.un(c.func) == "_get_basilisp_bytecode" for c in P.calls(m))), None)
    ex = next((m for m in meths.values() if any(P.un(c.func).endswith("compile_bytecode") for c in P.calls(m))), None)
    if val_m is None or ex is None:
        raise AnalysisError("the importer no longer validates with _get_basilisp_bytecode / executes with compile_bytecode in its own methods")
    cb = [x for x in P.calls(ex) if P.un(x.func).endswith("compile_bytecode")]
    if val_m is ex:
        g2 = CFG(ex)
        use = [nd for nd in g2.nodes if nd.kind == "stmt" and any(P.un(c.func).endswith("compile_bytecode") for c in P.calls(nd.ast))]
        val = [nd for nd in g2.nodes if nd.kind == "stmt" and any(P.un(c.func) == "_get_basilisp_bytecode" for c in P.calls(nd.ast))]
        ok = bool(use) and bool(val) and all(g2.dominated(u, val) for u in use)
    else:
        # the executed list is a parameter of the executing method; every caller passes what the
        # validating method returned, and that method returns the validator's result
        fed = P.un(cb[0].args[0]) if cb and cb[0].args else None
        params_x = [a.arg for a in ex.args.args]
        rets = [r for r in ast.walk(val_m) if isinstance(r, ast.Return) and r.value is not None]
        returns_validated = bool(rets) and all(
            (isinstance(r.value, ast.Call) and P.un(r.value.func) == "_get_basilisp_bytecode")
            or any(isinstance(a, ast.Assign) and P.un(a.targets[0]) == P.un(r.value) and isinstance(a.value, ast.Call) and P.un(a.value.func) == "_get_basilisp_bytecode" for a in ast.walk(val_m))
            for r in rets)
        ok = fed in params_x and returns_validated
        if ok:
            pos = params_x.index(fed) - 1  # minus self
            for m in meths.values():
                for c in P.calls(m):
                    if P.un(c.func) == f"self.{ex.name}":
                        arg = P.un(c.args[pos]) if len(c.args) > pos else None
                        src = [a for a in ast.walk(m) if isinstance(a, ast.Assign) and P.un(a.targets[0]) == arg]
                        ok = ok and bool(src) and all(isinstance(a.value, ast.Call) and P.un(a.value.func) == f"self.{val_m.name}" for a in src)
    ctx.ob("C14.R1", f"{IMP}::cached code is executed only after validation", IMP, ex.lineno, ok, "" if ok else "compile_bytecode can run on unvalidated cache data")
    vcalls = [c for c in P.calls(val_m) if P.un(c.func) == "_get_basilisp_bytecode"]
    for c in vcalls:
        def _through_temps(a):
            """an argument, with an explaining temporary replaced by what it was assigned from"""
            for _ in range(3):
                if not isinstance(a, ast.Name):
                    break
                src = [x.value for x in ast.walk(val_m) if isinstance(x, ast.Assign) and any(isinstance(t, ast.Name) and t.id == a.id for t in x.targets)]
                if len(src) != 1:
                    break
                a = src[0]
            return a
        args = [P.un(_through_temps(a)) for a in c.args]
        # (where the mapping comes from is decided below: self.path_stats(<source filename>))
        ok = len(args) == 4 and args[1].endswith("['mtime']") and args[2].endswith("['size']") and args[1][:-len("['mtime']")] == args[2][:-len("['size']")]
        ctx.ob("C14.R1", f"{IMP}::validation is given (mtime, size) of the source", IMP, c.lineno, ok, "" if ok else f"`{P.un(c)}`: validation is not given (mtime, size) of the source in that order")
        if val_m is ex:
            assigned = [P.un(t) for a in P.walk_local(ex) if isinstance(a, ast.Assign) and a.value is c for t in a.targets]
            ok = bool(assigned) and all(P.un(x.args[0]) == assigned[0] for x in cb)
        else:
            ok = bool(cb) and all(P.un(x.args[0]) in [a.arg for a in ex.args.args] for x in cb)
        ctx.ob("C14.R1", f"{IMP}::compile_bytecode consumes the validated result", IMP, c.lineno, ok, "" if ok else "compile_bytecode is fed something other than the validated code list")
    ps = ctx.fn(IMP, "BasilispImporter.path_stats")
    txt = P.un(ps)
    ok = "'mtime': int(stat.st_mtime)" in txt and "'size': stat.st_size" in txt and "os.stat(path)" in txt
    ctx.ob("C14.R1", f"{IMP}::path_stats::mtime/size of the given path", IMP, ps.lineno, ok, "" if ok else "path_stats no longer reports st_mtime / st_size of the path")
    # the (mtime, size) a header is compared with, and the (mtime, size) a header is written with, are
    # those of the source file -- and the ones written were taken *before* the source text was read:
    # a header stamped after compilation vouches for a text the payload was not compiled from when
    # the file is saved in between
    cls = P.find_def(ctx.py(IMP), "BasilispImporter")
    meths = P.methods(cls)

    def stat_origin(m, e, depth=0):
        """The self.path_stats(...) calls `e` (a name or subscript) may come from: [(method, None, call)]"""
        if isinstance(e, ast.Subscript):
            e = e.value
        if isinstance(e, ast.Call) and P.un(e.func) == "self.path_stats":
            return [(m, None, e)]
        if not isinstance(e, ast.Name) or depth > 3:
            return None
        params = [a.arg for a in m.args.args]
        assigns = [a for a in ast.walk(m) if isinstance(a, ast.Assign) and any(isinstance(t, ast.Name) and t.id == e.id for t in a.targets)]
        if e.id not in params and not assigns:
            return None
        out = []
        if e.id in params:
            idx = params.index(e.id) - 1
            sites = [(m2, c) for m2 in P.all_methods(cls) for c in P.calls(m2) if P.un(c.func) == f"self.{m.name}"]
            if not sites:
                return None
            for m2, c in sites:
                arg = c.args[idx] if idx < len(c.args) else next((k.value for k in c.keywords if k.arg == e.id), None)
                o = stat_origin(m2, arg, depth + 1) if arg is not None else None
                if o is None:
                    return None
                out += o
        for a in assigns:
            o = stat_origin(m, a.value, depth + 1)
            if o is None:
                return None
            out += o
        return out

    def source_path(m, e, depth=0):
        """True if `e` is the 'filename' entry of the loader state."""
        t = P.un(e)
        if t.endswith("loader_state['filename']"):
            return True
        if not isinstance(e, ast.Name) or depth > 3:
            return False
        assigns = [a for a in ast.walk(m) if isinstance(a, ast.Assign) and any(isinstance(t2, ast.Name) and t2.id == e.id for t2 in a.targets)]
        return bool(assigns) and all(source_path(m, a.value, depth + 1) for a in assigns)

    consumers = [(m, c, "compared") for m in P.all_methods(cls) for c in P.calls(m) if P.un(c.func) == "_get_basilisp_bytecode"] + \
                [(m, c, "written") for m in P.all_methods(cls) for c in P.calls(m) if P.un(c.func) == "_basilisp_bytecode"]
    if len(consumers) < 2:
        raise AnalysisError("anchor vanished: the importer no longer calls _get_basilisp_bytecode / _basilisp_bytecode")
    for m, c, what in consumers:
        pos = 1 if what == "compared" else 0
        o1 = stat_origin(m, c.args[pos]) if len(c.args) > pos + 1 else None
        o2 = stat_origin(m, c.args[pos + 1]) if len(c.args) > pos + 1 else None
        ok = bool(o1) and bool(o2) and all(cc.args and source_path(mm, cc.args[0]) for mm, _a, cc in o1 + o2)
        why = "" if ok else f"`{P.un(c)}`: the mtime/size {what} do not come from self.path_stats(<the loader state's source filename>)"
        if ok and what == "written":
            # taken in the writer itself: the stat has to come before the source is read there
            for mm, a, cc in o1 + o2:
                if mm is not m:
                    continue  # handed in by the caller: taken before this function started
                g = CFG(m)
                readers = [nd for nd in g.nodes if nd.ast is not None and nd.kind in ("stmt", "test") and any(P.un(x.func) in ("reader.read_file", "compiler.compile_module", "reader.read", "self.get_data", "open") for x in P.calls(nd.ast))]
                stat_nodes = [nd for nd in g.nodes if nd.ast is not None and P.contains(nd.ast, cc)]
                if not readers:
                    raise AnalysisError(f"{m.name}: the call that reads the source was not found")
                if not all(g.dominated(r, stat_nodes, follow_exc=False) for r in readers):
                    ok = False
                    why = f"{m.name} takes `{P.un(cc)}` for the header it writes after the source has been read and compiled: a save of the file in between leaves a cache whose header vouches for the new text and whose payload is the old one"
        ctx.ob("C14.R1", f"{IMP}::{m.name}::(mtime, size) {what} are the source file's, taken before it is read", IMP, c.lineno, ok, why,
               witness="save the .lpy while it is being compiled: the next process runs the old code from a cache that validates")


def _const_len(node) -> int | None:
    """Length in bytes of a constant bytes expression built from literals, `+`, and
    `(N).to_bytes(k, order)`."""
    if isinstance(node, ast.Constant) and isinstance(node.value, bytes):
        return len(node.value)
    if isinstance(node, ast.BinOp) and isinstance(node.op, ast.Add):
        a, b = _const_len(node.left), _const_len(node.right)
        return None if a is None or b is None else a + b
    if isinstance(node, ast.Call) and isinstance(node.func, ast.Attribute) and node.func.attr == "to_bytes" and node.args and isinstance(node.args[0], ast.Constant):
        return int(node.args[0].value)
    return None


@rule("C14.R2", floor=5)
def r2_layout_agreement(ctx):
    """Field order and widths written by _basilisp_bytecode (magic, mtime, size, payload) equal the
    slices read by _get_basilisp_bytecode, and _w_long/_r_long use one width and byte order."""
    tree = ctx.py(IMP)
    w = ctx.fn(IMP, "_basilisp_bytecode")
    r = ctx.fn(IMP, "_get_basilisp_bytecode")
    wl, rl = ctx.fn(IMP, "_w_long"), ctx.fn(IMP, "_r_long")
    magic = P.module_assign(tree, "MAGIC_NUMBER")
    mlen = _const_len(magic) if magic is not None else None
    if mlen is None:
        raise AnalysisError("cannot compute len(MAGIC_NUMBER) from its definition")
    wcalls = [c for c in P.calls(wl) if isinstance(c.func, ast.Attribute) and c.func.attr == "to_bytes"]
    rcalls = [c for c in P.calls(rl) if P.un(c.func) == "int.from_bytes"]
    if not wcalls or not rcalls:
        raise AnalysisError("_w_long/_r_long changed shape")
    width = int(wcalls[0].args[0].value)
    w_order, r_order = P.un(wcalls[0].args[1]), P.un(rcalls[0].args[1])
    ctx.ob("C14.R2", f"{IMP}::_w_long/_r_long::byte order {w_order} / {r_order}", IMP, wl.lineno, w_order == r_order, "" if w_order == r_order else "writer and reader disagree on byte order")
    wparams = [a.arg for a in w.args.args]
    # writer layout: the fields in the order they are put into the buffer -- by bytearray(...) and
    # .extend(...) calls, or by a concatenation (possibly through temporaries)
    layout = []  # (semantic, start, end or None)
    off = 0

    def _int(e):
        """An integer bound: a literal, or a module-level constant bound to one."""
        if e is None:
            return None
        if isinstance(e, ast.Constant) and isinstance(e.value, int):
            return e.value
        if isinstance(e, ast.Name):
            v = P.module_assign(tree, e.id)
            if isinstance(v, ast.Constant) and isinstance(v.value, int):
                return v.value
        raise AnalysisError(f"slice bound `{P.un(e)}` is neither a literal nor a module-level integer constant")

    def field(a):
        nonlocal off
        if isinstance(a, ast.Call) and P.un(a.func) == "_w_long":
            layout.append((P.un(a.args[0]), off, off + width)); off += width
        elif isinstance(a, ast.Call) and P.un(a.func) == "marshal.dumps":
            layout.append(("payload", off, None))
        elif P.un(a) == "MAGIC_NUMBER":
            layout.append(("magic", off, off + mlen)); off += mlen
        elif isinstance(a, ast.Call) and P.un(a.func) in ("bytes", "bytearray") and len(a.args) == 1:
            field(a.args[0])
        elif isinstance(a, ast.BinOp) and isinstance(a.op, ast.Add):
            field(a.left); field(a.right)
        elif isinstance(a, ast.Name):
            src = [x.value for x in ast.walk(w) if isinstance(x, ast.Assign) and any(isinstance(t, ast.Name) and t.id == a.id for t in x.targets)]
            if len(src) != 1:
                raise AnalysisError(f"unrecognised header field written: {P.un(a)}")
            field(src[0])
        else:
            raise AnalysisError(f"unrecognised header field written: {P.un(a)}")
    ext = [c for st in w.body for c in P.calls(st) if P.un(c.func).endswith(".extend") and c.args]
    if ext:
        for st in w.body:
            for c in P.calls(st):
                f = P.un(c.func)
                if f == "bytearray" and c.args and not any(P.contains(x, c) for x in ext):
                    field(c.args[0])
                elif f.endswith(".extend") and c.args:
                    field(c.args[0])
    else:
        rets_w = [x.value for x in ast.walk(w) if isinstance(x, ast.Return) and x.value is not None]
        if len(rets_w) != 1:
            raise AnalysisError("_basilisp_bytecode: the buffer written is neither built with extend() nor one returned concatenation")
        field(rets_w[0])
    ctx.note("C14.R2 writer layout: " + ", ".join(f"{n}[{a}:{b if b is not None else ''}]" for n, a, b in layout))
    # reader slices
    rparams = [a.arg for a in r.args.args]
    data_p = rparams[3]
    slices = {}
    for a in P.walk_local(r):
        if isinstance(a, ast.Assign) and isinstance(a.value, ast.Subscript) and P.un(a.value.value) == data_p and isinstance(a.value.slice, ast.Slice):
            sl = a.value.slice
            lo = _int(sl.lower) if sl.lower is not None else 0
            hi = _int(sl.upper) if sl.upper is not None else None
            slices[P.un(a.targets[0])] = (lo, hi, a.lineno)
    # the payload: the open-ended slice of the data handed to the decoder (directly, through a
    # temporary, or through a buffer object)
    for sub in P.walk_local(r):
        if isinstance(sub, ast.Subscript) and P.un(sub.value) == data_p and isinstance(sub.slice, ast.Slice) and sub.slice.upper is None:
            par = P.parent(sub)
            via_tmp = isinstance(par, ast.Assign) and any(isinstance(c, ast.Call) and P.un(c.func) in ("marshal.loads", "marshal.load") and any(P.un(t) in P.names_read(c) for t in par.targets) for c in ast.walk(r))
            if isinstance(par, ast.Call) or via_tmp:
                sl = sub.slice
                if via_tmp:
                    slices.pop(P.un(par.targets[0]), None)
                slices["<payload>"] = (_int(sl.lower) if sl.lower is not None else 0, None, sub.lineno)
    # which reader variable is compared with which semantic parameter
    sem = {}
    for t in ast.walk(r):
        if isinstance(t, ast.Compare) and isinstance(t.ops[0], (ast.NotEq, ast.Eq)):
            names = P.names_read(t)
            for var in slices:
                if var in names:
                    if "MAGIC_NUMBER" in names:
                        sem[var] = "magic"
                    elif rparams[1] in names:
                        sem[var] = wparams[0]
                    elif rparams[2] in names:
                        sem[var] = wparams[1]
    if "<payload>" in slices:
        sem["<payload>"] = "payload"
    for name, a, b in layout:
        got = [(v, slices[v]) for v, s in sem.items() if s == name]
        if not got:
            ctx.ob("C14.R2", f"{IMP}::layout::{name}[{a}:{b if b is not None else ''}]", IMP, r.lineno, False, f"the reader never reads back the {name} field")
            continue
        v, (lo, hi, line) = got[0]
        ok = lo == a and hi == b
        ctx.ob("C14.R2", f"{IMP}::layout::{name}[{a}:{b if b is not None else ''}]", IMP, line, ok,
               "" if ok else f"writer puts {name} at [{a}:{b}], reader takes `{v}` from [{lo}:{hi}]")
    # _w_long/_r_long symmetric use: reader converts with _r_long what the writer wrote with _w_long
    # ... and compares like with like: the writer stores the value reduced to the field's width, so
    # the reader must compare the stored field with the value reduced the same way (the bytes with
    # _w_long(x), or the decoded integer with the masked x) -- against the raw value a cache written
    # for an mtime or size outside 32 bits never validates, and the source is recompiled for ever
    masks = any(isinstance(b, ast.BinOp) and isinstance(b.op, ast.BitAnd) for b in ast.walk(wl))
    for v, s in sem.items():
        if s not in wparams[:2]:
            continue
        rparam = rparams[1] if s == wparams[0] else rparams[2]
        cmps = [t for t in ast.walk(r) if isinstance(t, ast.Compare) and isinstance(t.ops[0], (ast.NotEq, ast.Eq)) and v in P.names_read(t) and rparam in P.names_read(t)]
        ok, why = bool(cmps), f"`{v}` is never compared with `{rparam}`"
        for t in cmps:
            sides = [P.un(t.left), P.un(t.comparators[0])]
            field = next((x for x in sides if v in x), "")
            other = next((x for x in sides if x != field), "")
            if field == v:
                good = other == f"_w_long({rparam})"
            elif field == f"_r_long({v})":
                good = other in (f"_r_long(_w_long({rparam}))", f"{rparam} & 4294967295", f"{rparam} & 0xFFFFFFFF", f"int({rparam}) & 4294967295") or not masks
            else:
                good = False
            if not good:
                ok, why = False, f"`{P.un(t)}` compares the stored 32-bit field with the unreduced `{rparam}`: for an mtime or size outside 32 bits the cache the loader has just written never validates"
        ctx.ob("C14.R2", f"{IMP}::layout::{s} compared as written", IMP, r.lineno, ok, "" if ok else why,
               witness="a source file with mtime 4418020800 is recompiled on every import")


@rule("C14.R3", floor=5)
def r3_invalid_cache_reaches_fallback(ctx):
    """Every exception raised by the header checks, by open() and by marshal.loads on a truncated
    payload is covered by the tuple caught in exec_module, whose handler recompiles from source;
    _exec_module writes the cache on every path except sys.dont_write_bytecode."""
    em = ctx.fn(IMP, "BasilispImporter.exec_module")
    icls = P.find_def(ctx.py(IMP), "BasilispImporter")
    meths = P.methods(icls) if icls is not None else {}

    def reaches(stmts, targets, seen=None):
        """Does a call in `stmts` reach, through methods of the importer, a call whose name ends with one of `targets`?"""
        seen = seen if seen is not None else set()
        for s in stmts:
            for c in P.calls(s):
                f = P.un(c.func)
                if any(f == t or f.endswith("." + t) for t in targets):
                    return True
                if f.startswith("self.") and f[5:] in meths and f[5:] not in seen:
                    seen.add(f[5:])
                    if reaches(meths[f[5:]].body, targets, seen):
                        return True
        return False

    tries = [t for t in ast.walk(em) if isinstance(t, ast.Try) and reaches(t.body, ("_get_basilisp_bytecode",))]
    if not tries:
        # the cache-or-source decision may live in a method exec_module calls: the try is looked for
        # in every method exec_module reaches
        for name, mm in meths.items():
            if mm is not em and reaches(em.body, (name,)):
                tries += [t for t in ast.walk(mm) if isinstance(t, ast.Try) and reaches(t.body, ("_get_basilisp_bytecode",))]
                if tries:
                    em = mm
                    break
    if not tries:
        raise AnalysisError("exec_module no longer reads the cache inside a try")
    t = tries[0]
    # the fallback is for a cache that cannot be *read*; what the try covers must not also run the
    # namespace's code, or an OSError / ImportError / EOFError raised by that code is taken for a bad
    # cache and the namespace is compiled and run a second time
    runs = reaches(t.body, ("compile_bytecode", "compile_module", "exec"))
    ctx.ob("C14.R3", f"{IMP}::exec_module::the try that falls back covers reading the cache only", IMP, t.lineno, not runs,
           "" if not runs else "the try whose handler recompiles from source also executes the cached code: an exception of a caught class raised by the namespace's own top-level code runs every side effect twice, the second time in a half-initialised module",
           witness="a cached namespace whose top level does (slurp missing-file): the forms before it run twice")
    caught: set[str] = set()
    fallback = False
    for h in t.handlers:
        if h.type is None:
            names = {"BaseException"}
        elif isinstance(h.type, ast.Tuple):
            names = {P.un(e).split(".")[-1] for e in h.type.elts}
        else:
            names = {P.un(h.type).split(".")[-1]}
        if any(P.un(c.func) == "self._exec_module" for s in h.body for c in P.calls(s)) and not any(isinstance(s, ast.Raise) for s in h.body):
            caught |= names
            fallback = True
    ctx.ob("C14.R3", f"{IMP}::exec_module::handler recompiles from source", IMP, t.lineno, fallback, "" if fallback else "no handler falls back to _exec_module")
    g = ctx.fn(IMP, "_get_basilisp_bytecode")
    for r in ast.walk(g):
        if isinstance(r, ast.Raise) and r.exc is not None:
            e = r.exc.func if isinstance(r.exc, ast.Call) else r.exc
            name = P.un(e).split(".")[-1]
            ok = _covers(caught, name)
            cond = next((P.un(a.test) for a in P.ancestors(r) if isinstance(a, ast.If)), "")
            ctx.ob("C14.R3", f"{IMP}::_get_basilisp_bytecode::raise {name} when {cond}", IMP, r.lineno, ok,
                   "" if ok else f"{name} raised for an invalid cache is not caught by exec_module ({sorted(caught)}): import fails instead of recompiling")
    for fact, exc in (("marshal.loads on a truncated payload", "EOFError"), ("open() of a missing/unreadable cache file", "FileNotFoundError"), ("open() permission", "PermissionError")):
        ok = _covers(caught, exc)
        ctx.ob("C14.R3", f"{IMP}::exec_module::catches {exc} ({fact})", IMP, t.lineno, ok, "" if ok else f"{exc} from {fact} escapes exec_module")
    # fallback writes the cache
    xm = ctx.fn(IMP, "BasilispImporter._exec_module")
    gx = CFG(xm)
    writes = [nd for nd in gx.nodes if nd.kind == "stmt" and any(P.un(c.func) == "self._cache_bytecode" for c in P.calls(nd.ast))]
    def skip_edge(a, b, lab):
        return a.kind == "test" and "dont_write_bytecode" in P.un(a.ast) and lab is True
    r = gx.reach([gx.entry], avoid=writes, avoid_edges=skip_edge, follow_exc=False)
    ok = bool(writes) and gx.exit.id not in r
    ctx.ob("C14.R3", f"{IMP}::_exec_module::cache rewritten unless sys.dont_write_bytecode", IMP, xm.lineno, ok, "" if ok else "a successful compile from source can finish without writing the cache")
    # "the loader recompiles from source, succeeds": writing the cache is the one step of the fallback
    # that may fail for reasons that have nothing to do with the namespace (read-only location, bad
    # pycache prefix); the write is inside a handler for OSError that does not re-raise
    cb = P.find_def(ctx.py(IMP), "BasilispImporter._cache_bytecode") or ctx.fn(IMP, "BasilispImporter._cache_bytecode")
    sd = [c for c in P.calls(cb) if P.un(c.func) == "self.set_data"]
    if not sd:
        raise AnalysisError("_cache_bytecode no longer writes with self.set_data")
    for c in sd:
        hs = [h for a in P.ancestors(c) if isinstance(a, ast.Try) and P.contains(cb, a) and any(P.contains(s, c) for s in a.body) for h in a.handlers]
        ok = any((h.type is None or any(_covers({P.un(e).split(".")[-1] for e in (h.type.elts if isinstance(h.type, ast.Tuple) else [h.type])}, x) for x in ("OSError",)))
                 and not any(isinstance(x, ast.Raise) for s in h.body for x in ast.walk(s)) for h in hs)
        ctx.ob("C14.R3", f"{IMP}::_cache_bytecode::a cache that cannot be written does not fail the import", IMP, c.lineno, ok,
               "" if ok else "self.set_data(...) is not covered by a handler for OSError: with an unwritable cache location the namespace compiles and runs, and then the import raises from the cache write",
               witness="sys.pycache_prefix below a regular file: importing a .lpy namespace raises NotADirectoryError, a .py module imports fine")
    # "truncated at any byte offset as a crash during writing would leave it": that is only what a crash
    # leaves if the rewrite starts from an empty file (or replaces the file atomically).  Overwriting an
    # existing cache in place leaves, after a partial write, the new header in front of the old payload
    # -- a well-formed cache for the new source that runs the old code.
    sdm = P.find_def(ctx.py(IMP), "BasilispImporter.set_data") or ctx.fn(IMP, "BasilispImporter.set_data")
    opens = [c for c in P.calls(sdm) if P.un(c.func) in ("open", "os.open", "io.open", "os.fdopen")]
    if not opens:
        raise AnalysisError("set_data no longer opens the cache file itself")
    replaces = any(P.un(c.func) in ("os.replace", "os.rename") for c in P.calls(sdm))
    for c in opens:
        f = P.un(c.func)
        if f in ("open", "io.open", "os.fdopen"):
            target = c.args[0] if c.args else None
            if isinstance(target, ast.Call) and P.un(target.func) == "os.open":
                continue  # judged at the inner os.open
            mode = next((k.value for k in c.keywords if k.arg == "mode"), c.args[1] if len(c.args) > 1 else None)
            m = mode.value if isinstance(mode, ast.Constant) else None
            ok = replaces or (isinstance(m, str) and "w" in m)
            how = f"mode {m!r}"
        else:
            flags = P.un(c.args[1]) if len(c.args) > 1 else ""
            ok = replaces or "O_TRUNC" in flags or "O_EXCL" in flags
            how = f"flags {flags}"
        ctx.ob("C14.R3", f"{IMP}::set_data::the cache file is rewritten from empty ({P.un(c.func)})", IMP, c.lineno, ok,
               "" if ok else f"the cache is opened with {how}: an existing cache is overwritten in place, so a write that stops part-way leaves the new header followed by the old payload -- every later import runs the old code and never recompiles",
               witness="cache of v1 exists, source becomes v2, the rewrite is cut after 64 bytes (ENOSPC, kill): later processes load v1's code for v2's source")
    wc = [c for c in P.calls(xm) if P.un(c.func) == "_basilisp_bytecode"]
    ok = bool(wc) and [P.un(a) for a in wc[0].args[:2]] == ["path_stats['mtime']", "path_stats['size']"]
    ctx.ob("C14.R3", f"{IMP}::_exec_module::header written from the same (mtime, size)", IMP, xm.lineno, ok, "" if ok else "the cache header is not written from path_stats mtime/size in order")


PROCESS_DEPENDENT = {"hash", "id", "os.getpid", "time.time", "time.monotonic", "time.time_ns", "random.random", "random.randint", "uuid.uuid4", "uuid.uuid1", "object"}


@rule("C14.R4", floor=4)
def r4_baked_constants_are_validated_hints(ctx):
    """(a) In generator.py every process-dependent value (hash(), id(), pid, time, random) that
    reaches an ast.Constant is the first argument of the keyword constructor call
    (_NEW_KW_FN_NAME = keyword_from_hash); none is used to build generated names.  (b) In
    keyword.py every key under which the intern table is extended is computed by hash_kw in the
    current process, and a hit found under a caller-supplied hash is confirmed against (name, ns)."""
    tree = ctx.py(GEN)
    n = 0
    for c in ast.walk(tree):
        if not isinstance(c, ast.Call):
            continue
        name = P.un(c.func)
        if name not in PROCESS_DEPENDENT or (name == "object" and c.args):
            continue
        if name == "object":
            continue
        n += 1
        fn = P.enclosing_func(c)
        inst = f"{GEN}::{P.qual(fn) if fn else '<module>'}::{P.un(c)}"
        par = P.parent(c)
        ok = False
        why = f"`{P.un(c)}` depends on the compiling process and is not confined to the validated keyword-hash hint"
        if isinstance(par, ast.Call) and P.un(par.func) == "ast.Constant":
            lst = P.parent(par)
            call = P.parent(lst) if isinstance(lst, ast.List) else None
            kwd = call if isinstance(call, ast.keyword) else None
            outer = P.parent(kwd) if kwd is not None else None
            if isinstance(lst, ast.List) and kwd is not None and kwd.arg == "args" and isinstance(outer, ast.Call) and P.un(outer.func) == "ast.Call" and lst.elts and lst.elts[0] is par:
                fkw = next((k for k in outer.keywords if k.arg == "func"), None)
                if fkw is not None and P.un(fkw.value) == "_NEW_KW_FN_NAME":
                    ok, why = True, "keyword hash hint (validated by keyword_from_hash)"
        ctx.ob("C14.R4", inst, GEN, c.lineno, ok, why)
    nk = P.module_assign(tree, "_NEW_KW_FN_NAME")
    ok = nk is not None and "keyword_from_hash" in P.un(nk)
    ctx.ob("C14.R4", f"{GEN}::_NEW_KW_FN_NAME -> keyword_from_hash", GEN, getattr(nk, "lineno", 0), ok, "" if ok else "_NEW_KW_FN_NAME no longer names keyword_from_hash")
    ih = ctx.fn(GEN, "_import_hash")
    bad = [P.un(c) for c in P.calls(ih) if P.un(c.func) in PROCESS_DEPENDENT]
    ok = not bad and "hashlib." in P.un(ih)
    ctx.ob("C14.R4", f"{GEN}::_import_hash::session-stable digest", GEN, ih.lineno, ok, "" if ok else "import alias names baked into cached code depend on the process")
    # (b) consumer
    kt = ctx.py(KW)
    for fn in P.all_defs(kt):
        assocs = [c for c in P.calls(fn) if P.un(c.func) == "_INTERN.assoc"]
        if not assocs:
            continue
        params = {a.arg for a in fn.args.args}
        for c in assocs:
            key = c.args[0]
            knames = P.names_read(key)
            derived = any(P.un(x.func) == "hash_kw" for x in P.calls(key))
            for nm in knames:
                # last-assignment check: every assignment to the key name in this function is a hash_kw(...) call
                assigns = [a for a in P.walk_local(fn) if isinstance(a, ast.Assign) and any(P.un(t) == nm for t in a.targets)]
                if assigns and all(any(P.un(x.func) == "hash_kw" for x in P.calls(a.value)) for a in assigns):
                    derived = True
                    # and the assignment dominates the assoc
                    g = CFG(fn)
                    an = [nd for nd in g.nodes if nd.ast in assigns]
                    cn = [nd for nd in g.nodes if nd.kind == "stmt" and P.contains(nd.ast, c)]
                    if not all(g.dominated(x, an) for x in cn):
                        derived = False
                elif nm in params and not assigns:
                    derived = derived and False
            ok = derived
            ctx.ob("C14.R4", f"{KW}::{fn.name}::{P.un(c)}", KW, c.lineno, ok,
                   "" if ok else f"the keyword is interned under `{P.un(key)}`, a hash supplied by the caller (compiled code / pickle from another process), not under hash_kw(name, ns) of this process: the same keyword gets two identities",
                   witness="namespace cached under PYTHONHASHSEED=1, loaded under seed 2: (identical? k (keyword \"zeta-kw\")) is false")
        # hits under a caller-supplied hash are confirmed
        lookups = [a for a in P.walk_local(fn) if isinstance(a, ast.Assign) and isinstance(a.value, ast.Call) and P.un(a.value.func) == "_INTERN.val_at" and P.names_read(a.value.args[0]) & params and not any(P.un(x.func) == "hash_kw" for x in P.calls(a.value.args[0]))]
        for a in lookups:
            var = P.un(a.targets[0])
            # reassigned hash param (param = hash_kw(...)) before lookup counts as in-process
            key_name = P.un(a.value.args[0])
            g = CFG(fn)
            an = [nd for nd in g.nodes if nd.ast is a]
            re_as = [nd for nd in g.nodes if nd.kind == "stmt" and isinstance(nd.ast, ast.Assign) and any(P.un(t) == key_name for t in nd.ast.targets) and any(P.un(x.func) == "hash_kw" for x in P.calls(nd.ast.value))]
            if re_as and all(g.dominated(x, re_as) for x in an):
                continue
            rets = [nd for nd in g.nodes if nd.kind == "stmt" and isinstance(nd.ast, ast.Return) and nd.ast.value is not None and P.un(nd.ast.value) == var]
            for rn in rets:
                # the return must lie behind a test that mentions the found object's name and ns
                def confirm(x, y, lab, var=var):
                    if x.kind != "test" or lab is not True:
                        return False
                    t = P.un(x.ast)
                    return var in t and "name" in t
                def confirm_ns(x, y, lab, var=var):
                    if x.kind != "test" or lab is not True:
                        return False
                    t = P.un(x.ast)
                    return var in t and "ns" in t
                # only the returns reachable from this lookup without an intervening in-process lookup
                reach = g.reach(an, avoid=re_as)
                if rn.id not in reach:
                    continue
                ok = g.edge_dominated(rn, confirm) and g.edge_dominated(rn, confirm_ns)
                ctx.ob("C14.R4", f"{KW}::{fn.name}::return {var} found under caller-supplied {key_name}", KW, rn.line, ok,
                       "" if ok else "a keyword found under a caller-supplied hash is returned without checking its name and namespace")
    ctx.note(f"C14.R4: {n} process-dependent call(s) in generator.py")


COMPILER = "src/basilisp/lang/compiler/__init__.py"
UTIL = "src/basilisp/lang/util.py"


@rule("C14.R5", floor=3)
def r5_generated_names_of_cached_code_are_retired_before_it_runs(ctx):
    """Generated names (`x_123`: top-level let locals, fn names, temporaries) become globals of the
    namespace's module and are frozen into its cache, while the counter behind genname restarts in
    every process.  A namespace loaded from its cache is only equivalent to the compiled one if no
    code compiled *later in this process into the same module* (a file it loads, forms evaluated
    into it -- possibly while the cached code is still running) can be given one of those names.
    So compile_bytecode moves the counter past every generated name the cached code objects use
    (their own names and those of nested code objects) before it executes any of them."""
    fn = ctx.fn(COMPILER, "compile_bytecode")
    g = CFG(fn)
    execs = [nd for nd in g.nodes if nd.kind == "stmt" and any(P.un(c.func) == "exec" for c in P.calls(nd.ast))]
    adv = [nd for nd in g.nodes if nd.kind == "stmt" and any(P.un(c.func).endswith("advance_name_id") for c in P.calls(nd.ast))]
    if not execs:
        raise AnalysisError("compile_bytecode no longer executes the cached code objects with exec")
    ok = bool(adv) and all(g.dominated(e, adv) for e in execs)
    ctx.ob("C14.R5", f"{COMPILER}::compile_bytecode::the name counter is advanced before any cached code runs", COMPILER, fn.lineno, ok,
           "" if ok else "cached code is executed without (or before) moving the name counter past the generated names it defines: code compiled into the same module later in this process re-uses them and overwrites the cached module's globals",
           witness="multi.lpy: (let [x :main-i] (defn fi [] x)) ... (load \"/multi_impl\") -- from its cache (f2) returns :impl-9")
    param = fn.args.args[0].arg
    arg_ok = False
    for nd in adv:
        for c in P.calls(nd.ast):
            if P.un(c.func).endswith("advance_name_id") and c.args and param in P.names_read(c.args[0]):
                helpers = [P.find_def(ctx.py(COMPILER), n) for n in P.names_read(c.args[0])]
                for h in [x for x in helpers if x is not None and isinstance(x, P.FUNC)]:
                    ht = P.un(h)
                    rec_names = {P.un(a.targets[0]) for a in ast.walk(h) if isinstance(a, ast.Assign) and any(P.un(x.func) == h.name for x in P.calls(a.value))}
                    recursive = any(isinstance(r, ast.Return) and r.value is not None and (any(P.un(x.func) == h.name for x in P.calls(r.value)) or (P.names_read(r.value) & rec_names)) for r in ast.walk(h))
                    arg_ok = arg_ok or ("co_names" in ht and "co_consts" in ht and recursive and "max(" in ht)
    ctx.ob("C14.R5", f"{COMPILER}::compile_bytecode::the bound is taken from every code object, nested ones included", COMPILER, fn.lineno, arg_ok,
           "" if arg_ok else "the value the counter is advanced to is not computed from the names (co_names, recursively through co_consts) of the cached code objects")
    an = ctx.fn(UTIL, "advance_name_id")
    at = P.un(an)
    ok = "_NAME_COUNTER.swap(" in at and "max(" in at
    ctx.ob("C14.R5", f"{UTIL}::advance_name_id::never moves the counter backwards", UTIL, an.lineno, ok, "" if ok else "advance_name_id does not set the counter to the maximum of its value and the bound")


SELFTEST = [
    {"name": "the header written is stamped after compilation", "file": IMP, "expect": "C14.R1",
     "old": "        cache_file_bytes = _basilisp_bytecode(\n", "new": "        path_stats = self.path_stats(filename)\n        cache_file_bytes = _basilisp_bytecode(\n"},
    {"name": "twin: the validating method stats the source itself", "expect": None, "edits": [
        {"file": IMP, "old": "        cache_data = self.get_data(loader_state[\"cache_filename\"])\n        return _get_basilisp_bytecode(\n",
         "new": "        cache_data = self.get_data(loader_state[\"cache_filename\"])\n        source_stats = self.path_stats(loader_state[\"filename\"])\n        return _get_basilisp_bytecode(\n"},
        {"file": IMP, "old": "            fullname, path_stats[\"mtime\"], path_stats[\"size\"], cache_data\n", "new": "            fullname, source_stats[\"mtime\"], source_stats[\"size\"], cache_data\n"}]},
    {"name": "the header is compared with the stats of the cache file", "file": IMP, "expect": "C14.R1",
     "old": "        cache_data = self.get_data(loader_state[\"cache_filename\"])\n        return _get_basilisp_bytecode(\n",
     "new": "        cache_data = self.get_data(loader_state[\"cache_filename\"])\n        path_stats = self.path_stats(loader_state[\"cache_filename\"])\n        return _get_basilisp_bytecode(\n"},
    {"name": "cached code runs before its generated names are retired (the repaired defect)", "file": COMPILER, "expect": "C14.R5",
     "old": "    advance_name_id(max(map(_max_generated_name_id, code), default=0))\n", "new": ""},
    {"name": "only the top-level code objects are scanned for generated names", "file": COMPILER, "expect": "C14.R5",
     "old": "    return max(own, max(nested, default=0))\n", "new": "    return own\n"},
    {"name": "cache write failure fails the import (the repaired defect)", "file": IMP, "expect": "C14.R3",
     "old": "        try:\n            self.set_data(cache_path, data)\n        except OSError as e:\n            logger.debug(f\"Could not write Basilisp bytecode cache '{cache_path}': {e}\")\n", "new": "        self.set_data(cache_path, data)\n"},
    {"name": "header compared with the unmasked value (the repaired defect)", "file": IMP, "expect": "C14.R2",
     "old": "    elif raw_timestamp != _w_long(mtime):\n", "new": "    elif _r_long(raw_timestamp) != mtime:\n"},
    {"name": "twin: header compared as decoded, masked integers", "file": IMP, "expect": None,
     "old": "    elif raw_size != _w_long(source_size):\n", "new": "    elif _r_long(raw_size) != _r_long(_w_long(source_size)):\n"},
    {"name": "the fallback try also executes the cached code (the repaired defect)", "file": IMP, "expect": "C14.R3",
     "edits": [
         {"file": IMP, "old": "                else:\n                    self._exec_cached_module(\n                        fullname, spec.loader_state, cached_code, module\n                    )\n", "new": ""},
         {"file": IMP, "old": "                    cached_code = self._load_cached_code(\n                        fullname, spec.loader_state, path_stats\n                    )\n",
          "new": "                    cached_code = self._load_cached_code(\n                        fullname, spec.loader_state, path_stats\n                    )\n                    self._exec_cached_module(\n                        fullname, spec.loader_state, cached_code, module\n                    )\n"}]},
    {"name": "size comparison dropped", "file": IMP, "expect": "C14.R1",
     "old": "    elif raw_size != _w_long(source_size):\n        message = f\"Non-matching filesize ({_r_long(raw_size)}) in {fullname} bytecode cache; expected {source_size}\"\n        logger.debug(message)\n        raise ImportError(message, **exc_details)\n", "new": ""},
    {"name": "stale timestamp only logged", "file": IMP, "expect": "C14.R1",
     "old": "        message = f\"Non-matching timestamp ({_r_long(raw_timestamp)}) in {fullname} bytecode cache; expected {mtime}\"\n        logger.debug(message)\n        raise ImportError(message, **exc_details)\n", "new": "        message = f\"Non-matching timestamp ({_r_long(raw_timestamp)}) in {fullname} bytecode cache; expected {mtime}\"\n        logger.debug(message)\n"},
    {"name": "mtime/size swapped at the call", "file": IMP, "expect": "C14.R1",
     "old": "            fullname, path_stats[\"mtime\"], path_stats[\"size\"], cache_data\n", "new": "            fullname, path_stats[\"size\"], path_stats[\"mtime\"], cache_data\n"},
    {"name": "timestamp slice one byte short", "file": IMP, "expect": "C14.R2",
     "old": "    raw_timestamp = cache_data[4:8]", "new": "    raw_timestamp = cache_data[4:7]"},
    {"name": "writer emits size before mtime", "file": IMP, "expect": "C14.R2",
     "old": "    data.extend(_w_long(mtime))\n    data.extend(_w_long(source_size))\n", "new": "    data.extend(_w_long(source_size))\n    data.extend(_w_long(mtime))\n"},
    {"name": "reader big-endian", "file": IMP, "expect": "C14.R2",
     "old": "    return int.from_bytes(int_bytes, \"little\")", "new": "    return int.from_bytes(int_bytes, \"big\")"},
    {"name": "payload offset off", "file": IMP, "expect": "C14.R2",
     "old": "    return marshal.loads(cache_data[12:])", "new": "    return marshal.loads(cache_data[8:])"},
    {"name": "fallback catches only ImportError", "file": IMP, "expect": "C14.R3",
     "old": "                except (EOFError, ImportError, OSError) as e:", "new": "                except ImportError as e:"},
    {"name": "header check raises ValueError", "file": IMP, "expect": "C14.R3",
     "old": "        message = f\"Reached EOF while reading size of source in {fullname}\"\n        logger.debug(message)\n        raise EOFError(message)", "new": "        message = f\"Reached EOF while reading size of source in {fullname}\"\n        logger.debug(message)\n        raise ValueError(message)"},
    {"name": "cache only written when none existed", "file": IMP, "expect": "C14.R3",
     "old": "        if sys.dont_write_bytecode:\n            logger.debug(f\"Skipping bytecode generation for '{fullname}'\")\n            return\n", "new": "        if sys.dont_write_bytecode or os.path.exists(cache_filename):\n            logger.debug(f\"Skipping bytecode generation for '{fullname}'\")\n            return\n"},
    {"name": "import alias named by hash()", "file": GEN, "expect": "C14.R4",
     "old": "    digest = hashlib.md5(s.encode()).digest()  # nosec B324\n", "new": "    digest = hash(s).to_bytes(8, \"little\", signed=True) * 2\n"},
    {"name": "keyword interned under supplied hash (the repaired defect)", "file": KW, "expect": "C14.R4",
     "old": "        kw_hash = hash_kw(name, ns)\n", "new": ""},
    # twins
    {"name": "twin: header checks as separate ifs", "file": IMP, "expect": None,
     "old": "    elif len(raw_timestamp) != 4:", "new": "    if len(raw_timestamp) != 4:"},
    {"name": "twin: equality-form magic test", "file": IMP, "expect": None,
     "old": "    if magic != MAGIC_NUMBER:\n        message = (\n            f\"Incorrect magic number ({magic!r}) in {fullname}; \"\n            f\"expected {MAGIC_NUMBER!r}\"\n        )\n        logger.debug(message)\n        raise ImportError(message, **exc_details)\n    elif",
     "new": "    if not (magic == MAGIC_NUMBER):\n        message = (\n            f\"Incorrect magic number ({magic!r}) in {fullname}; \"\n            f\"expected {MAGIC_NUMBER!r}\"\n        )\n        logger.debug(message)\n        raise ImportError(message, **exc_details)\n    if"},
    {"name": "twin: broader fallback tuple", "file": IMP, "expect": None,
     "old": "                except (EOFError, ImportError, OSError) as e:", "new": "                except (EOFError, ImportError, OSError, ValueError) as e:"},
]
