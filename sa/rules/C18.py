"""C18 -- multimethod dispatch depends only on current methods, preferences and hierarchy."""
from __future__ import annotations

import ast

from ..core import AnalysisError, rule
from .. import lispread as L
from .. import minipy as M
from .. import pyfacts as P
from ..pycfg import CFG

MF = "src/basilisp/lang/multifn.py"
CORE = "src/basilisp/core.lpy"

EXPLANATION = (
    "Cache-coherence rules over MultiFunction: every store to the method or preference table is followed, on every path to "
    "exit and inside the same lock, by a cache reset; the hierarchy-staleness test dominates the cache read and its stale edge "
    "leads through a reset; the cache is only (re)filled from the current method table; the hierarchy is held by reference and "
    "the global derive/underive go through alter-var-root on that reference. The hierarchy itself: derive and underive are "
    "evaluated abstractly over a free set algebra (singletons, opaque lookups, unions; assoc/fold terms over the three component "
    "maps) and must equal the closure-update equations that keep ancestors = transitive closure of parents and descendants = its "
    "inverse; the query functions read the component they are named after and isa? goes through ancestors."
)
DECIDES = "write=>reset pairing, staleness-check dominance, cache fill sources and every cache store under the lock, isa? vector lengths, class ancestors inheriting derives, defmulti default pass-through, hierarchy-by-reference, derive/underive update equations (consistency of parents/ancestors/descendants/isa?), best-match search = unique strict dominator in every table order (exhaustive over all relational structures on three keys, interpreted without importing the repository)"
DECLINED = "method tables with more than three mutually related matching keys (the exhaustive evaluation stops at three); class tags whose superclasses carry derived ancestors"
TRUSTED = ["threading.Lock semantics", "persistent maps are values (C04)"]
ASSUMPTIONS = []

TABLES = ("_methods", "_prefers")
LOCK = {"self._lock"}


def _mf(ctx):
    c = P.find_def(ctx.py(MF), "MultiFunction")
    if c is None:
        raise AnalysisError("anchor vanished: multifn.py::MultiFunction")
    return c


def _is_reset_stmt(stmt) -> bool:
    if any(P.un(c.func) == "self._reset_cache" for c in P.calls(stmt)):
        return True
    return any(P.is_self_attr(t, "_cache") for t in P.store_targets(stmt)) if isinstance(stmt, (ast.Assign, ast.AnnAssign)) else False


@rule("C18.R1", floor=4)
def r1_write_implies_reset(ctx):
    """Every store to _methods / _prefers outside __init__ is under self._lock and every normal path
    from it to the function exit passes a cache reset (self._reset_cache() or a store to
    self._cache) inside the same `with`."""
    cls = _mf(ctx)
    for m in P.all_methods(cls):
        if m.name == "__init__":
            continue
        stores = [(s, a) for s, a in P.self_attr_stores(m) if a in TABLES]
        if not stores:
            continue
        g = CFG(m)
        for s, a in stores:
            inst = f"{MF}::MultiFunction.{m.name}::{P.un(s)}"
            if not P.under_lock(s, LOCK, stop=m):
                ctx.ob("C18.R1", inst, MF, s.lineno, False, f"store to self.{a} outside `with self._lock`")
                continue
            w = next(w for w, it in P.with_items_enclosing(s, m) if P.un(it.context_expr) in LOCK)
            resets = [nd for nd in g.nodes if nd.kind == "stmt" and _is_reset_stmt(nd.ast) and P.contains(w, nd.ast)]
            snodes = [nd for nd in g.nodes if nd.ast is s]
            ok = bool(snodes) and not any(g.can_reach_without(sn, [g.exit], resets, follow_exc=False) for sn in snodes)
            ctx.ob("C18.R1", inst, MF, s.lineno, ok,
                   "" if ok else f"a path from the store to self.{a} reaches the end of {m.name} without resetting the dispatch cache inside the lock: earlier calls' cached choices survive the change")


@rule("C18.R2", floor=1)
def r2_staleness_check_dominates_cache_read(ctx):
    """In get_method (and any other reader of self._cache outside the lock-holding fill routine)
    the comparison of _cached_hierarchy with the live hierarchy dominates the cache read, and its
    stale outcome leads through a reset before the read."""
    cls = _mf(ctx)
    for m in P.all_methods(cls):
        if m.name in ("__init__", "_reset_cache"):
            continue
        reads = [n for n in ast.walk(m) if P.is_self_attr(n, "_cache") and isinstance(n.ctx, ast.Load)]
        if not reads:
            continue
        if all(P.under_lock(r, LOCK, stop=m) for r in reads) and any(s for s, a in P.self_attr_stores(m) if a == "_cache"):
            continue  # the fill routine (R3)
        g = CFG(m)
        tests = [nd for nd in g.nodes if nd.kind == "test" and "_cached_hierarchy" in P.un(nd.ast) and "_hierarchy.deref()" in P.un(nd.ast)]
        for r in reads:
            rn = [nd for nd in g.nodes if nd.kind in ("stmt", "test") and nd.ast is not None and P.contains(nd.ast, r)]
            inst = f"{MF}::MultiFunction.{m.name}::{P.un(P.stmt_of(r))}"
            if not tests:
                ctx.ob("C18.R2", inst, MF, r.lineno, False, "the dispatch cache is read without comparing _cached_hierarchy with the live hierarchy")
                continue
            ok = all(g.dominated(x, tests) for x in rn)
            why = "" if ok else "a path reads the dispatch cache before the hierarchy staleness test"
            if ok:
                resets = [nd for nd in g.nodes if nd.kind == "stmt" and _is_reset_stmt(nd.ast)]
                for t in tests:
                    cmp_ = t.ast
                    if not (isinstance(cmp_, ast.Compare) and len(cmp_.ops) == 1):
                        raise AnalysisError(f"unsupported staleness test {P.un(cmp_)}")
                    stale_label = True if isinstance(cmp_.ops[0], (ast.NotEq, ast.IsNot)) else False if isinstance(cmp_.ops[0], (ast.Eq, ast.Is)) else None
                    if stale_label is None:
                        raise AnalysisError(f"unsupported staleness test {P.un(cmp_)}")
                    starts = [b for b, lab in t.succ if lab is stale_label]
                    reach = g.reach(starts, avoid=resets, follow_exc=False)
                    if any(x.id in reach for x in rn):
                        ok = False
                        why = "when the hierarchy has changed, the cache can be read without being reset first"
            ctx.ob("C18.R2", inst, MF, r.lineno, ok, why)


def _derived_from_methods(func, name: str, seen=None) -> bool:
    """Is local `name` assigned only from None or from expressions reading self._methods (directly,
    via a for-loop over self._methods.items(), or via other such locals)?"""
    seen = seen or set()
    if name in seen:
        return True
    seen.add(name)
    found = False
    for n in ast.walk(func):
        tgts = []
        val = None
        if isinstance(n, (ast.Assign, ast.AnnAssign)) and getattr(n, "value", None) is not None:
            tgts = P.store_targets(n)
            val = n.value
        elif isinstance(n, ast.For):
            tgts = P.store_targets(n)
            val = n.iter
        if not any(isinstance(t, ast.Name) and t.id == name for t in tgts):
            continue
        found = True
        if isinstance(val, ast.Constant) and val.value is None:
            continue
        if any(P.is_self_attr(x, "_methods") for x in ast.walk(val)):
            continue
        # tuple assignment `a, b = c, d`
        names = [x.id for x in ast.walk(val) if isinstance(x, ast.Name) and isinstance(x.ctx, ast.Load)]
        if names and all(_derived_from_methods(func, x, seen) for x in names if x != "self"):
            continue
        return False
    return found


@rule("C18.R3", floor=2)
def r3_cache_filled_from_current_tables(ctx):
    """Every store to self._cache is `self._methods`, an empty map, or `self._cache.assoc(key, v)`
    under the lock with v derived only from self._methods; _reset_cache also refreshes
    _cached_hierarchy from the live hierarchy."""
    cls = _mf(ctx)
    for m in P.all_methods(cls):
        if m.name == "__init__":
            continue
        for s, a in P.self_attr_stores(m):
            if a != "_cache":
                continue
            v = getattr(s, "value", None)
            inst = f"{MF}::MultiFunction.{m.name}::{P.un(s)}"
            txt = P.un(v) if v is not None else ""
            if txt in ("self._methods", "lmap.EMPTY", "lmap.map({})", "lmap.PersistentMap.empty()"):
                # a reset: the hierarchy snapshot must be refreshed in the same function
                refreshed = any(a2 == "_cached_hierarchy" and "self._hierarchy.deref()" in P.un(s2.value) for s2, a2 in P.self_attr_stores(m) if getattr(s2, "value", None) is not None)
                ctx.ob("C18.R3", inst, MF, s.lineno, refreshed, "" if refreshed else "cache reset without refreshing _cached_hierarchy from the live hierarchy: the staleness test would fire forever or never")
                continue
            ok = False
            why = f"cache is filled from `{txt}`, which is not the current method table"
            if isinstance(v, ast.Call) and P.un(v.func) == "self._cache.assoc" and len(v.args) == 2:
                if not P.under_lock(s, LOCK, stop=m):
                    why = "cache fill outside the lock"
                elif isinstance(v.args[1], ast.Name) and _derived_from_methods(m, v.args[1].id):
                    ok, why = True, ""
                else:
                    why = f"cached value `{P.un(v.args[1])}` is not derived from self._methods under the lock"
            ctx.ob("C18.R3", inst, MF, s.lineno, ok, why)
    # ... and the other way round: the snapshot says which hierarchy the cached answers were found
    # under, so it moves only where the cache is emptied.  Moving it while entries stay makes every
    # entry found under the previous hierarchy pass the staleness test of the new one.
    _RESETS = ("self._methods", "lmap.EMPTY", "lmap.map({})", "lmap.PersistentMap.empty()")
    for m in P.all_methods(cls):
        if m.name == "__init__":
            continue
        for s, a in P.self_attr_stores(m):
            if a != "_cached_hierarchy":
                continue
            emptied = any(a2 == "_cache" and getattr(s2, "value", None) is not None and P.un(s2.value) in _RESETS for s2, a2 in P.self_attr_stores(m))
            ctx.ob("C18.R3", f"{MF}::MultiFunction.{m.name}::{P.un(s)} moves with a cache reset", MF, s.lineno, emptied,
                   "" if emptied else f"`{P.un(s)}` in {m.name} moves the hierarchy snapshot while the cached answers stay: an answer found under the previous hierarchy is served as fresh after derive/underive",
                   witness="(derive ::a ::p) (mm ::a) caches p's method; (underive ::a ::p) then one call with another dispatch value; (mm ::a) still runs p's method")
            if not emptied:
                continue
            # publication order: readers compare the snapshot and read the cache without the lock
            # (R2), so "snapshot is current" has to imply "cache already emptied" at every instant:
            # the emptying store comes first on every path to the snapshot store
            lock_free_test = any(
                not P.under_lock(n, LOCK, stop=m2)
                for m2 in P.all_methods(cls) for n in ast.walk(m2)
                if isinstance(n, ast.Compare) and "_cached_hierarchy" in P.un(n) and isinstance(P.enclosing_func(n), type(m2)) and P.enclosing_func(n) is m2)
            if not lock_free_test:
                continue
            g = CFG(m)
            sn = [nd for nd in g.nodes if nd.kind == "stmt" and nd.ast is s]
            rs = [nd for nd in g.nodes if nd.kind == "stmt" and nd.ast is not None and any(s2 is nd.ast and a2 == "_cache" and getattr(s2, "value", None) is not None and P.un(s2.value) in _RESETS for s2, a2 in P.self_attr_stores(m))]
            ok = bool(sn) and all(g.dominated(x, rs, follow_exc=False) for x in sn)
            ctx.ob("C18.R3", f"{MF}::MultiFunction.{m.name}::the cache is emptied before the snapshot is moved", MF, s.lineno, ok,
                   "" if ok else f"{m.name} stores `{P.un(s)}` before it empties the cache: get_method compares the snapshot and reads the cache without the lock, so a call between the two stores sees 'hierarchy unchanged' and is served an answer found under the previous hierarchy",
                   witness="thread A is inside _reset_cache after underive; thread B calls (mm ::child) between A's two stores and runs the parent's method although underive had returned")
    # the reset stores the cache too: every caller of a function that stores to self._cache without
    # taking the lock itself must hold the lock -- otherwise a reset can slip in between a locked
    # search against the old hierarchy and its store, and the stale answer lands in the fresh cache
    unlocked_storers = {m.name for m in P.all_methods(cls) if m.name != "__init__"
                        and any(a == "_cache" and not P.under_lock(s, LOCK, stop=m) for s, a in P.self_attr_stores(m))}
    for m in P.all_methods(cls):
        for c in P.calls(m):
            f = P.un(c.func)
            if f.startswith("self.") and f[5:] in unlocked_storers:
                ok = P.under_lock(c, LOCK, stop=m) or m.name == "__init__"
                n_before = sum(1 for c2 in P.calls(m) if P.un(c2.func) == f and c2.lineno < c.lineno)
                ctx.ob("C18.R3", f"{MF}::MultiFunction.{m.name}::{f}() #{n_before} is called with the lock held", MF, c.lineno, ok,
                       "" if ok else f"`{f}()` replaces the cache without the lock: a search that is still running (under the lock) against the previous hierarchy stores its answer afterwards, into the cache that now stands for the new hierarchy -- the stale method is served from then on",
                       witness="thread A resolves (mm ::x) under x->p1, the hierarchy becomes x->p2, thread B calls the multimethod, A stores: (mm ::x) runs the p1 method for ever")


@rule("C18.R4", floor=4)
def r4_hierarchy_by_reference(ctx):
    """MultiFunction keeps the hierarchy *reference* (not its value) and _is_a consults the live
    value; in core.lpy the global derive/underive mutate the global hierarchy through
    alter-var-root on its Var, and defmulti passes a Var/IRef."""
    cls = _mf(ctx)
    init = P.methods(cls).get("__init__")
    for s, a in P.self_attr_stores(init):
        if a == "_hierarchy":
            txt = P.un(s.value)
            ok = ".deref()" not in txt and ".value" not in txt
            ctx.ob("C18.R4", f"{MF}::MultiFunction.__init__::{P.un(s)}", MF, s.lineno, ok, "" if ok else "the hierarchy is captured by value at construction: later derive/underive are invisible")
    # every isa? question is asked about the live value of the reference: either dereferenced at the
    # question, or one dereference taken by the search and handed down (parameter / local)
    methods = P.methods(cls)

    def live(m, e, depth=0):
        t = P.un(e)
        if t == "self._hierarchy.deref()":
            return True
        if not isinstance(e, ast.Name) or depth > 4:
            return False
        params = [a.arg for a in m.args.args]
        if e.id in params:
            idx = params.index(e.id) - 1
            sites = [(m2, c) for m2 in P.all_methods(cls) for c in P.calls(m2) if P.un(c.func) == f"self.{m.name}"]
            if not sites:
                return False
            for m2, c in sites:
                arg = c.args[idx] if idx < len(c.args) else next((k.value for k in c.keywords if k.arg == e.id), None)
                if arg is None or not live(m2, arg, depth + 1):
                    return False
            return True
        assigns = [s for s in ast.walk(m) if isinstance(s, ast.Assign) and any(isinstance(t2, ast.Name) and t2.id == e.id for t2 in s.targets)]
        return bool(assigns) and all(live(m, s.value, depth + 1) for s in assigns)

    questions = [(m, c) for m in P.all_methods(cls) for c in P.calls(m) if P.un(c.func) == "self._isa.value"]
    if not questions:
        raise AnalysisError("anchor vanished: MultiFunction no longer asks self._isa.value(hierarchy, tag, parent)")
    for m, c in questions:
        ok = bool(c.args) and live(m, c.args[0])
        ctx.ob("C18.R4", f"{MF}::MultiFunction.{m.name}::isa? is asked about the live hierarchy", MF, c.lineno, ok,
               "" if ok else f"`{P.un(c)}`: the hierarchy argument is not (a copy handed down from) self._hierarchy.deref() -- a derive/underive made since is invisible to the search")
    defs = L.top_defs(ctx.lisp(CORE))
    for name in ("derive", "underive"):
        d = defs.get(name)
        if d is None:
            raise AnalysisError(f"anchor vanished: core.lpy::{name}")
        for params, body in L.fn_arities(d):
            if len(params.items) != 2:
                continue
            hit = [f for b in body for f in L.walk(b) if L.head(f) == "alter-var-root"]
            # unconditional: the update is a direct body form of the arity (derive/underive must
            # record every declared edge, even one that is already implied transitively)
            ok = bool(hit) and all(any(f is b for b in body) for f in hit) and all(len(f.items) >= 5 and f.items[1].text() in ("#'global-hierarchy", "(var global-hierarchy)") and L.is_sym(f.items[2], name) and [x.text() for x in f.items[3:]] == [p.text() for p in params.items] for f in hit)
            ctx.ob("C18.R4", f"{CORE}::{name}::{params.text()}", CORE, d.line, ok, "" if ok else f"the global arity of {name} does not update #'global-hierarchy through alter-var-root with (tag parent) in order")


# ---------------------------------------------------------------------------------------------
# R5 derive / underive keep :parents, :ancestors and :descendants mutually consistent


class Undecided(Exception):
    pass


class Defect(Exception):
    pass


class _V:
    """an already evaluated argument (threading macros)"""

    def __init__(self, val):
        self.val = val


def _S(*parts, nilable=False):
    return ("set", frozenset(parts), nilable)


_EMPTY = _S()


def _is_set(v):
    return isinstance(v, tuple) and bool(v) and v[0] == "set"


class SetAlgebra:
    """Abstract evaluation of the hierarchy-update code over a free set algebra: set values are
    finite unions of singletons {x} and opaque set atoms (map lookups defaulting to the empty set);
    map values are assoc / dissoc / fold terms over the component maps of the hierarchy argument.
    Anything outside that vocabulary is Undecided (an analysis error, not a verdict)."""

    def __init__(self, hname):
        self.h = hname
        self.guards = []

    def ev(self, f, env):
        if isinstance(f, _V):
            return f.val
        if isinstance(f, L.Sym):
            return env[f.val] if f.val in env else ("sym", f.val)
        if isinstance(f, L.Kw):
            return ("kw", f.text())
        if isinstance(f, L.Set):
            return _S(*[("one", self.ev(i, env)) for i in f.items])
        if isinstance(f, L.Map):
            return ("map", tuple(sorted((k.text(), self.ev(v, env)) for k, v in f.pairs())))
        if isinstance(f, L.List) and f.items:
            h = f.items[0]
            if isinstance(h, L.Kw):
                return self.call_kw(h.text(), [self.ev(a, env) for a in f.items[1:]])
            if isinstance(h, L.Sym):
                return self.call(h.val, list(f.items[1:]), env, f)
        raise Undecided(f"cannot evaluate `{f.text()[:80]}` (line {f.line})")

    def call_kw(self, k, args):
        if len(args) == 1 and args[0] == ("sym", self.h):
            return ("hmap", k)
        raise Undecided(f"keyword lookup {k} on something other than the hierarchy argument")

    def lookup(self, m, k, default):
        if default is None:
            return _S(("all", ("lookup", m, k)), nilable=True)
        if default == _EMPTY:
            return _S(("all", ("lookup", m, k)))
        raise Undecided("a lookup default other than the empty set")

    def as_set(self, v, what, allow_nil=False):
        if not _is_set(v):
            raise Undecided(f"{what} is not a set expression: {v!r}")
        if v[2] and not allow_nil:
            raise Defect(f"{what} may be nil: conj onto nil builds a list, not a set (a lookup lost its #{{}} default)")
        return v

    def call(self, name, args, env, form):
        def ev(a):
            return self.ev(a, env)
        if name in ("let", "let*"):
            env = dict(env)
            for s, v in zip(args[0].items[0::2], args[0].items[1::2]):
                if not isinstance(s, L.Sym):
                    raise Undecided("destructuring in let")
                env[s.val] = self.ev(v, env)
            return self.body(args[1:], env)
        if name == "do":
            return self.body(args, env)
        if name == "if" and len(args) == 3:
            t = args[0]
            if L.head(t) in ("seq", "not-empty"):
                tv = ("seq", ev(t.items[1]))
            elif L.head(t) in ("contains?", "="):
                tv = ev(t)
            else:
                tv = ("opaque", t.text())
            return ("if", tv, ev(args[1]), ev(args[2]))
        if name == "get-in":
            m, path = ev(args[0]), args[1]
            if not (isinstance(path, L.Vec) and len(path.items) == 2):
                raise Undecided("get-in path is not a two-element vector")
            k1, k2 = ev(path.items[0]), ev(path.items[1])
            if m != ("sym", self.h) or k1[0] != "kw":
                raise Undecided("get-in on something other than the hierarchy argument")
            return self.lookup(("hmap", k1[1]), k2, ev(args[2]) if len(args) > 2 else None)
        if name == "get":
            return self.lookup(ev(args[0]), ev(args[1]), ev(args[2]) if len(args) > 2 else None)
        if name == "conj":
            base = self.as_set(ev(args[0]), "the first argument of conj")
            return _S(*base[1], *[("one", ev(a)) for a in args[1:]])
        if name == "apply":
            if not (isinstance(args[0], L.Sym) and args[0].val == "conj"):
                raise Undecided("apply of something other than conj")
            base = self.as_set(ev(args[1]), "the first argument of (apply conj ...)")
            tail = self.as_set(ev(args[-1]), "the spread argument of apply", allow_nil=True)
            return _S(*base[1], *[("one", ev(a)) for a in args[2:-1]], *tail[1])
        if name == "into":
            base = self.as_set(ev(args[0]), "the first argument of into")
            tail = self.as_set(ev(args[1]), "the second argument of into", allow_nil=True)
            return _S(*base[1], *tail[1])
        if name == "set":
            return _S(*self.as_set(ev(args[0]), "the argument of set", allow_nil=True)[1])
        if name == "disj":
            base = self.as_set(ev(args[0]), "the first argument of disj")
            return ("minus", base, tuple(ev(a) for a in args[1:]))
        if name == "assoc":
            if len(args) != 3:
                raise Undecided("assoc with several pairs")
            return ("assoc", ev(args[0]), ev(args[1]), ev(args[2]))
        if name == "dissoc":
            return ("dissoc", ev(args[0]), ev(args[1]))
        if name == "make-hierarchy" and not args:
            return ("fresh",)
        if name == "mapcat" and len(args) == 2:
            return ("edges", ev(args[1]))
        if name in ("->>", "->"):
            val = ev(args[0])
            for step in args[1:]:
                if isinstance(step, L.List) and step.items and isinstance(step.items[0], L.Sym):
                    rest = list(step.items[1:])
                    val = self.call(step.items[0].val, rest + [_V(val)] if name == "->>" else [_V(val)] + rest, env, step)
                elif isinstance(step, L.List) and step.items and isinstance(step.items[0], L.Kw):
                    val = self.call_kw(step.items[0].text(), [val])
                elif isinstance(step, L.Sym):
                    val = self.call(step.val, [_V(val)], env, step)
                elif isinstance(step, L.Kw):
                    val = self.call_kw(step.text(), [val])
                else:
                    raise Undecided("threading step")
            return val
        if name == "as->":
            val = ev(args[0])
            for step in args[2:]:
                val = self.ev(step, dict(env, **{args[1].val: val}))
            return val
        if name in ("reduce*", "reduce"):
            if len(args) != 3:
                raise Undecided("reduce without an initial value")
            fn, init, coll = args
            if not (isinstance(fn, L.List) and L.head(fn) in ("fn", "fn*") and isinstance(fn.items[1], L.Vec) and len(fn.items[1].items) == 2):
                raise Undecided("reduce with something other than a two-parameter fn literal")
            pa, px = (p.val for p in fn.items[1].items)
            acc, x = ("sym", "$acc"), ("sym", "$x")
            fbody = list(fn.items[2:])
            if len(fbody) == 1 and L.head(fbody[0]) in ("derive",) and len(fbody[0].items) == 4 and L.is_sym(fbody[0].items[1], pa):
                a1, a2 = fbody[0].items[2].text(), fbody[0].items[3].text()
                if (a1, a2) != (f"(first {px})", f"(second {px})"):
                    raise Defect(f"the rebuilding reduce at line {fn.line} re-derives ({a1}, {a2}) instead of (tag, parent) of each recorded edge")
                return ("rebuild", self.ev(init, env), self.ev(coll, env))
            body = self.body(fbody, dict(env, **{pa: acc, px: x}))
            if not (isinstance(body, tuple) and body[0] == "assoc" and body[1] == acc and body[2] == x and _is_set(body[3])):
                raise Undecided(f"the reducing function is not of the form (assoc acc x <set>): {body!r}")
            own = ("all", ("lookup", acc, x))
            parts = body[3][1]
            if own not in parts:
                raise Defect(f"the reducing function at line {fn.line} replaces the entry of each visited key instead of extending it (the members it already had are dropped)")
            add = parts - {own}
            if "$acc" in repr(add) or "$x" in repr(add):
                raise Undecided("the added members depend on the accumulator")
            it = self.as_set(self.ev(coll, env), "the collection reduced over")
            return ("fold", self.ev(init, env), it[1], add)
        if name in ("contains?", "="):
            return ("test", name, tuple(self.ev(a, env) for a in args))
        raise Undecided(f"unsupported operation `{name}` (line {form.line})")

    def body(self, forms, env):
        for f in forms[:-1]:
            h = L.head(f)
            if h in ("when", "when-not") and any(L.head(x) == "throw" for x in f.items[2:]):
                try:
                    t = self.ev(f.items[1], env)
                except Undecided:
                    t = ("opaque", f.items[1].text())
                self.guards.append((h, t, f.line))
            elif h is not None and h.startswith("-check"):
                continue
            else:
                raise Undecided(f"statement with unknown effect: {f.text()[:60]}")
        return self.ev(forms[-1], env)


def _show(v) -> str:
    if _is_set(v):
        return _show_parts(v[1]) + ("?" if v[2] else "")
    if isinstance(v, tuple) and v:
        if v[0] == "sym":
            return v[1]
        if v[0] == "hmap":
            return f"(h {v[1]})"
        if v[0] == "lookup":
            return f"{_show(v[1])}[{_show(v[2])}]"
        if v[0] == "assoc":
            return f"assoc({_show(v[1])}, {_show(v[2])}, {_show(v[3])})"
        if v[0] == "fold":
            return f"for x in {_show_parts(v[2])}: {_show(v[1])}[x] |= {_show_parts(v[3])}"
    return repr(v)


def _show_parts(parts) -> str:
    return "{" + " + ".join(sorted((_show(p[1]) if p[0] == "one" else "*" + _show(p[1])) for p in parts)) + "}"


@rule("C18.R5", floor=9)
def r5_hierarchy_components_consistent(ctx):
    """derive/underive, evaluated over a free set algebra, compute exactly the closure-update
    equations.  With PA = ancestors[parent], D = descendants[tag]:
        parents'     = parents[tag := parents[tag] + {parent}]
        ancestors'   = for x in D + {tag}:      ancestors[x]   |= PA + {parent}
        descendants' = for y in PA + {parent}:  descendants[y] |= D + {tag}
    guarded by tag /= parent and tag not in PA.  These equations preserve the invariant
    'ancestors = transitive closure of parents, descendants = its inverse' (the nodes whose closure
    changes when the edge tag->parent is added are exactly tag and its descendants, and what they
    gain is exactly parent and its ancestors; dually for descendants).  underive removes the edge
    from :parents and rebuilds the other two components by re-deriving every remaining edge
    from an empty hierarchy, so the invariant holds by construction.  The query functions read the
    component they are named after and isa? goes through `ancestors`."""
    defs = L.top_defs(ctx.lisp(CORE))
    for nm in ("derive", "underive", "make-hierarchy", "ancestors", "descendants", "parents", "isa?"):
        if nm not in defs:
            raise AnalysisError(f"anchor vanished: core.lpy::{nm}")

    def arity(name, n):
        for params, body in L.fn_arities(defs[name]):
            if len(params.items) == n and all(isinstance(p, L.Sym) for p in params.items):
                return [p.val for p in params.items], list(body)
        raise AnalysisError(f"anchor vanished: core.lpy::{name} arity {n}")

    line = defs["derive"].line
    (hn, tn, pn), body = arity("derive", 3)
    tag, parent = ("sym", tn), ("sym", pn)
    A, D, Pm = ("hmap", ":ancestors"), ("hmap", ":descendants"), ("hmap", ":parents")
    PA = ("all", ("lookup", A, parent))
    DS = ("all", ("lookup", D, tag))
    spec = {
        ":parents": ("assoc", Pm, tag, _S(("all", ("lookup", Pm, tag)), ("one", parent))),
        ":ancestors": ("fold", A, frozenset({DS, ("one", tag)}), frozenset({PA, ("one", parent)})),
        ":descendants": ("fold", D, frozenset({PA, ("one", parent)}), frozenset({DS, ("one", tag)})),
    }
    sa = SetAlgebra(hn)
    try:
        res = sa.body(body, {})
    except Defect as e:
        res = None
        ctx.ob("C18.R5", f"{CORE}::derive::component updates", CORE, line, False, str(e), witness="(derive (derive (make-hierarchy) ::a ::b) ::b ::c), then (ancestors h ::a)")
    except Undecided as e:
        raise AnalysisError(f"C18.R5 cannot evaluate derive over the set algebra: {e}")
    if res is not None and isinstance(res, tuple) and res[0] == "if":
        # derive may hand the hierarchy back unchanged only when the edge is already *recorded*
        # (parent in parents[tag]): then all three updates are no-ops.  Under any other test a declared
        # edge would be missing from :parents, which underive rebuilds everything from.
        tv, a, b = res[1], res[2], res[3]
        recorded = ("test", "contains?", (_S(("all", ("lookup", Pm, tag))), parent))
        unchanged = [x for x in (a, b) if x == ("sym", hn)]
        full = [x for x in (a, b) if isinstance(x, tuple) and x and x[0] == "map"]
        ok = len(unchanged) == 1 and len(full) == 1 and a == ("sym", hn) and tv == recorded
        ctx.ob("C18.R5", f"{CORE}::derive::returns the hierarchy unchanged only when the edge is already recorded", CORE, line, ok,
               "" if ok else "derive returns its argument unchanged under a test other than `parent is already one of tag's recorded parents`: a declared direct edge is not recorded, and after an underive that rebuilds from :parents the relationship is lost",
               witness="(derive ::a ::b) (derive ::b ::c) (derive ::a ::c) (underive ::a ::b) then (isa? ::a ::c) must be true")
        res = full[0] if full else None
    if res is not None:
        if not (isinstance(res, tuple) and res[0] == "map"):
            raise AnalysisError("C18.R5: derive does not end in a map literal")
        got = dict(res[1])
        ok = set(got) == set(spec)
        ctx.ob("C18.R5", f"{CORE}::derive::returns exactly the components {sorted(spec)}", CORE, line, ok,
               "" if ok else f"derive returns the components {sorted(got)}: a component of the hierarchy is dropped or misnamed")
        for k in sorted(spec):
            if k not in got:
                continue
            ok = got[k] == spec[k]
            ctx.ob("C18.R5", f"{CORE}::derive::{k} update equation", CORE, line, ok,
                   "" if ok else f"derive computes {k} as `{_show(got[k])}` but consistency of parents/ancestors/descendants needs `{_show(spec[k])}`",
                   witness="derive a chain ::a < ::b < ::c in either order and compare (ancestors ::a), (descendants ::c), (isa? ::a ::c)")
        tests = [(h, t) for h, t, _ in sa.guards]
        ok = ("when", ("test", "=", (tag, parent))) in tests or ("when", ("test", "=", (parent, tag))) in tests
        ctx.ob("C18.R5", f"{CORE}::derive::rejects tag = parent", CORE, line, ok, "" if ok else "a tag can be derived from itself")
        ok = ("when", ("test", "contains?", (_S(PA), tag))) in tests
        ctx.ob("C18.R5", f"{CORE}::derive::rejects a cycle (tag among the ancestors of parent)", CORE, line, ok,
               "" if ok else "cyclic derivations are no longer rejected: ancestors and descendants stop being a strict order")

    # underive
    line = defs["underive"].line
    (hn, tn, pn), body = arity("underive", 3)
    tag, parent = ("sym", tn), ("sym", pn)
    sa = SetAlgebra(hn)
    try:
        res = sa.body(body, {})
    except Defect as e:
        res = None
        ctx.ob("C18.R5", f"{CORE}::underive::rebuild", CORE, line, False, str(e))
    except Undecided as e:
        raise AnalysisError(f"C18.R5 cannot evaluate underive over the set algebra: {e}")
    if res is not None:
        TP = ("minus", _S(("all", ("lookup", Pm, tag))), (parent,))
        keep = ("assoc", Pm, tag, TP)
        drop = ("dissoc", Pm, tag)
        ok_np = False
        np_ = res[2][1] if (isinstance(res, tuple) and res[0] == "rebuild" and isinstance(res[2], tuple) and res[2][0] == "edges") else None
        if np_ == keep:
            ok_np = True
        elif isinstance(np_, tuple) and np_[0] == "if" and np_[1] == ("seq", TP) and np_[2] == keep and np_[3] in (drop, keep):
            ok_np = True
        ok = isinstance(res, tuple) and res[0] == "rebuild" and res[1] == ("fresh",)
        ctx.ob("C18.R5", f"{CORE}::underive::rebuilds ancestors/descendants from an empty hierarchy", CORE, line, ok,
               "" if ok else "underive does not rebuild the derived components from (make-hierarchy): stale ancestors/descendants survive the removed edge",
               witness="(-> (make-hierarchy) (derive ::a ::b) (derive ::b ::c) (underive ::a ::b)) then (ancestors h ::a)")
        ctx.ob("C18.R5", f"{CORE}::underive::re-derives the recorded edges minus (tag, parent)", CORE, line, ok_np,
               "" if ok_np else f"the edge set that underive re-derives is not `parents` with parent removed from parents[tag]: got {np_!r}")

    # the query functions read the component they are named after; isa? goes through ancestors
    for fname, comp in (("ancestors", ":ancestors"), ("descendants", ":descendants"), ("parents", ":parents")):
        (hn, tn), body = arity(fname, 2)
        gets = [f for b in body for f in L.walk(b) if L.head(f) == "get-in"]
        # tag's own entry is read; any further lookup (the superclasses of a class) is in the same component
        ok = any(len(g.items) >= 3 and L.is_sym(g.items[1], hn) and g.items[2].text() == f"[{comp} {tn}]" for g in gets) and all(
            len(g.items) >= 3 and L.is_sym(g.items[1], hn) and isinstance(g.items[2], L.Vec) and len(g.items[2].items) == 2 and g.items[2].items[0].text() == comp for g in gets)
        ctx.ob("C18.R5", f"{CORE}::{fname}::reads h[{comp}][tag]", CORE, defs[fname].line, ok,
               "" if ok else f"{fname} does not read the {comp} component for its tag")
    (hn, tn, pn), body = arity("isa?", 3)
    txt = " ".join(b.text() for b in body)
    ok = f"(contains? (ancestors {hn} {tn}) {pn})" in txt and f"(= {tn} {pn})" in txt
    ctx.ob("C18.R5", f"{CORE}::isa?::equality or membership in (ancestors h tag)", CORE, defs["isa?"].line, ok,
           "" if ok else "isa? no longer decides by equality or membership of parent in (ancestors h tag)")
    mh = defs["make-hierarchy"]
    maps = [f for f in L.walk(mh) if isinstance(f, L.Map)]
    ok = any(sorted(k.text() for k, _ in m.pairs()) == [":ancestors", ":descendants", ":parents"] and all(v.text() == "{}" for _, v in m.pairs()) for m in maps)
    ctx.ob("C18.R5", f"{CORE}::make-hierarchy::three empty components", CORE, mh.line, ok, "" if ok else "make-hierarchy does not start from three empty maps")


# ---------------------------------------------------------------------------------------------
# R6 the best-match search, evaluated exhaustively over every relational structure on three keys


class _Lock(M.Host):
    is_lock = True


class _PMap(M.Host):
    """Model of a persistent map whose iteration order is a parameter (trusted fact: the order of
    IPersistentMap.items() is unspecified, so every permutation is a possible table)."""

    def __init__(self, items):
        self._items = tuple(items)

    def items(self):
        return self._items

    def val_at(self, k, default=None):
        for a, b in self._items:
            if a == k:
                return b
        return default

    def assoc(self, k, v):
        return _PMap([(a, b) for a, b in self._items if a != k] + [(k, v)])

    def dissoc(self, k):
        return _PMap([(a, b) for a, b in self._items if a != k])

    def __eq__(self, other):
        return isinstance(other, _PMap) and dict(self._items) == dict(other._items)

    def __hash__(self):
        return 0


class _Var(M.Host):
    def __init__(self, value):
        self.value = value


class _Ref(M.Host):
    def deref(self):
        return "H"


def _structures():
    """(isa strict partial order on {0,1,2}, upward-closed set of keys matching the dispatch value,
    direct preferences without opposite pairs), one representative per isomorphism class."""
    import itertools
    K = (0, 1, 2)
    pairs = [(a, b) for a in K for b in K if a != b]
    seen = set()
    for bits in itertools.product((0, 1), repeat=6):
        isa = frozenset(p for p, b in zip(pairs, bits) if b)
        if any((b, a) in isa for a, b in isa):
            continue
        if any((a, b) in isa and (b, c) in isa and a != c and (a, c) not in isa for a in K for b in K for c in K):
            continue
        for r in range(4):
            for match in itertools.combinations(K, r):
                if any(a in match and b not in match for a, b in isa):
                    continue
                for st in itertools.product((0, 1, 2), repeat=3):
                    pref = set()
                    for (a, b), s in zip(((0, 1), (0, 2), (1, 2)), st):
                        if s == 1:
                            pref.add((a, b))
                        elif s == 2:
                            pref.add((b, a))
                    canon = min(
                        (tuple(sorted((m[a], m[b]) for a, b in isa)), tuple(sorted(m[x] for x in match)), tuple(sorted((m[a], m[b]) for a, b in pref)))
                        for m in (dict(zip(K, p)) for p in itertools.permutations(K))
                    )
                    if canon in seen:
                        continue
                    seen.add(canon)
                    yield canon


@rule("C18.R6", floor=300)
def r6_best_match_is_the_unique_most_specific(ctx):
    """MultiFunction.get_method (cache empty, hierarchy unchanged) is interpreted -- minipy, the
    repository is not imported -- on every relational structure over three method keys: every
    strict partial order `isa` among them, every upward-closed set of keys the dispatch value is-a,
    every set of direct preferences without an opposite pair, and every iteration order of the
    method table (6 permutations; a default method is present).  The code touches keys only through
    _is_a / _has_preference, so these structures are all the behaviours there are on three keys.
    Expected: nothing matches -> the default method; exactly one matching key precedes every other
    matching key (preference or isa) without being preceded by it -> that key's method; otherwise a
    RuntimeException -- and the same outcome for every iteration order."""
    import itertools
    cls = _mf(ctx)
    model = M.ClassModel(cls)
    if model.find("get_method") is None:
        raise AnalysisError("anchor vanished: MultiFunction.get_method")
    K = (0, 1, 2)
    n_eval = 0
    for isa, match, pref in _structures():
        isa_s, match_s, pref_s = set(isa), set(match), set(pref)

        def is_a(h, tag, parent, isa_s=isa_s, match_s=match_s):
            if tag == parent:
                return True
            if tag == "d":
                return parent in match_s
            return (tag, parent) in isa_s

        def prec(a, b, isa_s=isa_s, pref_s=pref_s):
            return (a, b) in pref_s or (a, b) in isa_s
        winners = [w for w in match if all(prec(w, k) and not prec(k, w) for k in match if k != w)]
        expected = "DEFAULT" if not match else (f"m{winners[0]}" if len(winners) == 1 else "raise RuntimeException")
        prefers = _PMap([(a, frozenset(b for x, b in pref if x == a)) for a in K if any(x == a for x, _ in pref)])
        outcomes = {}
        for order in itertools.permutations(K):
            methods = _PMap([("default", "DEFAULT")] + [(k, f"m{k}") for k in order])
            obj = M.Obj(model, _methods=methods, _prefers=prefers, _cache=_PMap([]), _lock=_Lock(), _isa=_Var(is_a),
                        _hierarchy=_Ref(), _cached_hierarchy="H", _default="default", _name="mm", _dispatch=None)
            it = M.Interp(fuel=20000)
            try:
                out = it.call_function(model.find("get_method"), [obj, "d"], {})
            except M.PyRaise as e:
                out = f"raise {e.name}"
            except M.Unsupported as e:
                raise AnalysisError(f"C18.R6 cannot interpret MultiFunction.get_method: {e}")
            n_eval += 1
            outcomes.setdefault(out, order)
        inst = f"{MF}::MultiFunction.get_method::isa={sorted(isa)} matching={sorted(match)} prefers={sorted(pref)}"
        ok = set(outcomes) == {expected}
        why = ""
        if not ok:
            if len(outcomes) > 1:
                why = "the outcome depends on the iteration order of the method table: " + "; ".join(f"order {list(o)} -> {r}" for r, o in sorted(outcomes.items(), key=str)) + f" (expected {expected} in every order)"
            else:
                why = f"every order gives {next(iter(outcomes))}, expected {expected}"
        ctx.ob("C18.R6", inst, MF, model.find("get_method").lineno, ok, why,
               witness="keys k0 k1 k2 with (derive ki kj) for each isa pair, the dispatch value derived from the matching keys, (prefer-method m ki kj) for each preference; the table order varies with PYTHONHASHSEED")
    ctx.note(f"C18.R6 interpreted get_method {n_eval} times")


def _mentions(form, name):
    return any(isinstance(x, L.Sym) and x.val == name for x in L.walk(form))


@rule("C18.R7", floor=4)
def r7_isa_ancestors_default_shapes(ctx):
    """Three places where the best-match search gets its relation and its fallback from:
    (a) isa? on two vectors is component-wise *and* needs equal lengths -- an element-wise walk
        alone stops at the shorter vector, so [] and [::a] `isa` every longer vector and the method
        for the longer vector is chosen (or reported ambiguous) instead of the default;
    (b) the ancestors of a class are its superclasses *and* what those superclasses were derived
        from, otherwise isa? is not transitive across a derive on a base class;
    (c) defmulti passes the :default option through unless it is absent -- an `or` replaces a
        default dispatch value of false or nil."""
    defs = L.top_defs(ctx.lisp(CORE))
    for nm in ("isa?", "ancestors", "defmulti"):
        if nm not in defs:
            raise AnalysisError(f"anchor vanished: core.lpy::{nm}")
    # (a)
    isa = defs["isa?"]
    ar = [(p, b) for p, b in L.fn_arities(isa) if len(p.items) == 3]
    if not ar:
        raise AnalysisError("anchor vanished: isa? [h tag parent]")
    params, body = ar[0]
    tn, pn = params.items[1].val, params.items[2].val
    clauses = [f for b in body for f in L.walk(b) if isinstance(f, L.List) and L.head(f) == "and"
               and any(x.text() == f"(vector? {tn})" for x in f.items) and any(x.text() == f"(vector? {pn})" for x in f.items)]
    if not clauses:
        raise AnalysisError("isa?: the clause for two vectors is not of the recognised shape (and (vector? tag) (vector? parent) ...)")
    for c in clauses:
        same_len = [x for x in c.items if isinstance(x, L.List) and L.head(x) in ("=", "==") and {y.text() for y in x.items[1:]} == {f"(count {tn})", f"(count {pn})"}]
        walk_i = next((i for i, x in enumerate(c.items) if any(isinstance(y, L.List) and L.head(y) in ("map", "mapv", "every?") for y in L.walk(x))), None)
        ok = bool(same_len) and (walk_i is None or c.items.index(same_len[0]) < walk_i)
        ctx.ob("C18.R7", f"{CORE}::isa?::vectors are compared component-wise only when their lengths agree", CORE, c.line, ok,
               "" if ok else "the vector clause walks the two vectors together without comparing their lengths: the walk ends with the shorter one, so (isa? [] [::a ::b]) and (isa? [::a] [::a ::b]) are true",
               witness="(defmulti area (fn [& args] (mapv type args))) (defmethod area [python/int python/int] [w h] (* w h)) (defmethod area :default [& _] :unsupported) (area 3) => TypeError from the two-argument method")
    # (b)
    anc = defs["ancestors"]
    ar = [(p, b) for p, b in L.fn_arities(anc) if len(p.items) == 2]
    if not ar:
        raise AnalysisError("anchor vanished: ancestors [h tag]")
    params, body = ar[0]
    hn, tn = params.items[0].val, params.items[1].val
    ifs = [f for b in body for f in L.walk(b) if isinstance(f, L.List) and L.head(f) == "if" and len(f.items) >= 3 and f.items[1].text() == f"(class? {tn})"]
    if not ifs:
        raise AnalysisError("ancestors: no (if (class? tag) ...) branch")
    for f in ifs:
        then = f.items[2]
        uses_supers = any(x.text() == f"(supers {tn})" for x in L.walk(then))
        # a lookup of the hierarchy's :ancestors component under a key other than tag itself
        def looks_up_other(x):
            if not isinstance(x, L.List) or not x.items:
                return False
            t = x.text()
            if L.head(x) == "get-in" and len(x.items) >= 3 and isinstance(x.items[2], L.Vec) and len(x.items[2].items) == 2 and x.items[2].items[0].text() == ":ancestors":
                return x.items[1].text() == hn and x.items[2].items[1].text() != tn
            if L.head(x) == "get" and len(x.items) >= 3 and x.items[1].text() in (f"(:ancestors {hn})", f"({hn} :ancestors)"):
                return x.items[2].text() != tn
            if L.head(x) in ("ancestors",) and len(x.items) == 3 and x.items[1].text() == hn:
                return x.items[2].text() != tn
            return False
        inherited = any(looks_up_other(x) for x in L.walk(then))
        ok = uses_supers and inherited
        ctx.ob("C18.R7", f"{CORE}::ancestors::a class inherits what its superclasses were derived from", CORE, f.line, ok,
               "" if ok else ("the class branch adds (supers tag) but never looks the superclasses up in the hierarchy's :ancestors: after (derive Base ::thing) a subclass of Base is not ::thing" if uses_supers else "the class branch no longer adds the superclasses"),
               witness="(derive Base ::thing) (isa? Sub ::thing) => false for a Python subclass Sub of Base")
    # (c)
    dm = defs["defmulti"]
    ctor = [f for f in L.walk(dm) if isinstance(f, L.List) and f.items and f.items[0].text().endswith("multifn/MultiFunction")]
    if not ctor or len(ctor[0].items) < 4:
        raise AnalysisError("defmulti: the MultiFunction constructor template is not of the recognised shape")
    arg = ctor[0].items[3]
    expr = arg.form if isinstance(arg, L.Wrap) and arg.tag == "unquote" else arg
    txt = expr.text()
    opts = next((x.val for x in L.walk(expr) if isinstance(x, L.Sym) and x.val not in ("or", "get", "if", "contains?", "if-some", "some?", "nil?", "find", "val", "let", "if-let")), "opts")
    good = {f"(get {opts} :default :default)", f"(:default {opts} :default)", f"(if (contains? {opts} :default) (:default {opts}) :default)",
            f"(if (contains? {opts} :default) (get {opts} :default) :default)"}
    falsey_lost = isinstance(expr, L.List) and (L.head(expr) == "or" or (L.head(expr) in ("if", "if-let", "if-some", "when") and "contains?" not in txt and "find" not in txt))
    if txt not in good and not falsey_lost:
        raise AnalysisError(f"defmulti: the default dispatch value expression `{txt}` is neither a recognised pass-through nor a recognised truthiness test")
    ctx.ob("C18.R7", f"{CORE}::defmulti::the :default option is replaced only when absent", CORE, arg.line, txt in good,
           "" if txt in good else f"`{txt}` tests the option's truthiness: (defmulti f identity :default false) dispatches unmatched values to :default, for which no method exists, instead of the method registered for false",
           witness="(defmulti f identity :default false) (defmethod f false [_] :fallback) (f :other) => NotImplementedError")
    ctx.ob("C18.R7", f"{CORE}::defmulti::the hierarchy option is passed as given", CORE, ctor[0].line, len(ctor[0].items) >= 5 and ":hierarchy" in ctor[0].items[4].text(),
           "" if len(ctor[0].items) >= 5 and ":hierarchy" in ctor[0].items[4].text() else "the :hierarchy option no longer reaches the MultiFunction")


_SNAPSHOT_EDITS = [
    {"file": MF, "old": "    def _is_a(self, tag: T, parent: T) -> bool:", "new": "    def _is_a(self, hierarchy, tag: T, parent: T) -> bool:"},
    {"file": MF, "old": "        return bool(self._isa.value(self._hierarchy.deref(), tag, parent))", "new": "        return bool(self._isa.value(hierarchy, tag, parent))"},
    {"file": MF, "old": "    def _precedes(self, tag: T, parent: T) -> bool:", "new": "    def _precedes(self, hierarchy, tag: T, parent: T) -> bool:"},
    {"file": MF, "old": "self._is_a(tag, parent)", "new": "self._is_a(hierarchy, tag, parent)"},
    {"file": MF, "old": "            best_key: T | None = None\n", "new": "            hierarchy = self._hierarchy.deref()\n            best_key: T | None = None\n"},
    {"file": MF, "old": "self._is_a(key, method_key)", "new": "self._is_a(hierarchy, key, method_key)"},
    {"file": MF, "old": "self._precedes(method_key, best_key)", "new": "self._precedes(hierarchy, method_key, best_key)", "count": "all"},
    {"file": MF, "old": "self._precedes(best_key, method_key)", "new": "self._precedes(hierarchy, best_key, method_key)"},
]

SELFTEST = [
    {"name": "cache reset for a new hierarchy without the lock (the repaired defect)", "file": MF, "expect": "C18.R3",
     "old": "            with self._lock:\n                self._reset_cache()\n", "new": "            self._reset_cache()\n"},
    {"name": "isa? walks vectors of different lengths (the repaired defect)", "file": CORE, "expect": "C18.R7",
     "old": "            (= (count tag) (count parent))\n", "new": ""},
    {"name": "twin: isa? compares the lengths the other way round", "file": CORE, "expect": None,
     "old": "            (= (count tag) (count parent))\n", "new": "            (= (count parent) (count tag))\n"},
    {"name": "a class does not inherit its superclasses' derives (the repaired defect)", "file": CORE, "expect": "C18.R7",
     "old": "                   (reduce* conj (conj acc super) (get-in h [:ancestors super] #{})))", "new": "                   (conj acc super))"},
    {"name": "defmulti replaces a falsey :default (the repaired defect)", "file": CORE, "expect": "C18.R7",
     "old": "~(get opts :default :default)", "new": "~(or (:default opts) :default)"},
    {"name": "twin: defmulti default through the keyword's own default", "file": CORE, "expect": None,
     "old": "~(get opts :default :default)", "new": "~(:default opts :default)"},
    {"name": "derive forgets the parent itself among the ancestors' descendants", "file": CORE, "expect": "C18.R5",
     "old": "                            (:descendants h)\n                            (conj parent-ancestors parent))})))", "new": "                            (:descendants h)\n                            parent-ancestors)})))"},
    {"name": "derive updates only tag, not its descendants", "file": CORE, "expect": "C18.R5",
     "old": "                            (:ancestors h)\n                            (conj cur-descendants tag))", "new": "                            (:ancestors h)\n                            #{tag})"},
    {"name": "derive replaces instead of extending", "file": CORE, "expect": "C18.R5",
     "old": "                              (->> (get ancestors descendant)\n                                   (apply conj parent-ancestors parent)\n                                   (set)\n                                   (assoc ancestors descendant)))",
     "new": "                              (->> (conj parent-ancestors parent)\n                                   (assoc ancestors descendant)))"},
    {"name": "parents lookup loses its default", "file": CORE, "expect": "C18.R5",
     "old": "     {:parents     (as-> (get-in h [:parents tag] #{}) $", "new": "     {:parents     (as-> (get-in h [:parents tag]) $"},
    {"name": "cycle check dropped", "file": CORE, "expect": "C18.R5",
     "old": "     (when (contains? parent-ancestors tag)\n", "new": "     (when (contains? cur-descendants tag)\n"},
    {"name": "underive keeps the old closure", "file": CORE, "expect": "C18.R5",
     "old": "                     (derive h (first pair) (second pair)))\n                   (make-hierarchy))))))", "new": "                     (derive h (first pair) (second pair)))\n                   (assoc h :parents new-parents))))))"},
    {"name": "descendants reads the wrong component", "file": CORE, "expect": "C18.R5",
     "old": "    (let [hierarchy-ancestors (get-in h [:descendants tag] #{})]", "new": "    (let [hierarchy-ancestors (get-in h [:ancestors tag] #{})]"},
    {"name": "twin: derive short-circuits an edge that is already recorded", "file": CORE, "expect": None,
     "old": "     {:parents     (as-> (get-in h [:parents tag] #{}) $\n                     (conj $ parent)\n                     (assoc (:parents h) tag $))\n",
     "new": "     (if (contains? (get-in h [:parents tag] #{}) parent) h\n     {:parents     (as-> (get-in h [:parents tag] #{}) $\n                     (conj $ parent)\n                     (assoc (:parents h) tag $))\n",
     "edits": [
         {"file": CORE, "old": "     {:parents     (as-> (get-in h [:parents tag] #{}) $\n                     (conj $ parent)\n                     (assoc (:parents h) tag $))\n",
          "new": "     (if (contains? (get-in h [:parents tag] #{}) parent) h\n     {:parents     (as-> (get-in h [:parents tag] #{}) $\n                     (conj $ parent)\n                     (assoc (:parents h) tag $))\n"},
         {"file": CORE, "old": "                            (:descendants h)\n                            (conj parent-ancestors parent))})))", "new": "                            (:descendants h)\n                            (conj parent-ancestors parent))}))))"},
     ]},
    {"name": "twin: derive written with into", "file": CORE, "expect": None,
     "old": "                              (->> (get ancestors descendant)\n                                   (apply conj parent-ancestors parent)\n                                   (set)\n                                   (assoc ancestors descendant)))",
     "new": "                              (assoc ancestors descendant\n                                     (into (conj parent-ancestors parent) (get ancestors descendant))))"},
    {"name": "twin: underive always keeps the (possibly empty) parent set", "file": CORE, "expect": None,
     "old": "         new-parents (if (seq tag-parents)\n                       (assoc (:parents h) tag tag-parents)\n                       (dissoc (:parents h) tag))]",
     "new": "         new-parents (assoc (:parents h) tag tag-parents)]"},
    {"name": "verification pass dropped: single scan against the running best (the repaired defect)", "file": MF, "expect": "C18.R6",
     "old": "            for method_key, _ in matches:\n                if method_key is not best_key and (\n                    not self._precedes(best_key, method_key)\n                    or self._precedes(method_key, best_key)\n                ):\n",
     "new": "            for method_key, _ in matches[-1:]:\n                if method_key is not best_key and (\n                    not self._precedes(best_key, method_key)\n                    or self._precedes(method_key, best_key)\n                ):\n"},
    {"name": "mutual precedence tolerated", "file": MF, "expect": "C18.R6",
     "old": "                    not self._precedes(best_key, method_key)\n                    or self._precedes(method_key, best_key)\n", "new": "                    not self._precedes(best_key, method_key)\n"},
    {"name": "default method shadows a match", "file": MF, "expect": "C18.R6",
     "old": "            if best_method is None:\n                best_method = self._methods.val_at(self._default)\n", "new": "            best_method = self._methods.val_at(self._default) or best_method\n"},
    {"name": "twin: candidate chosen with a while loop over the matches", "file": MF, "expect": None,
     "old": "            for method_key, method in matches:\n                if best_key is None or self._precedes(method_key, best_key):\n                    best_key, best_method = method_key, method\n",
     "new": "            for pair in matches:\n                method_key, method = pair\n                if best_key is None:\n                    best_key, best_method = method_key, method\n                elif self._precedes(method_key, best_key):\n                    best_key, best_method = method_key, method\n"},
    {"name": "prefer_method forgets reset", "file": MF, "expect": "C18.R1",
     "old": "            self._prefers = self._prefers.assoc(preferred_key, existing.cons(other_key))\n            self._reset_cache()\n",
     "new": "            self._prefers = self._prefers.assoc(preferred_key, existing.cons(other_key))\n"},
    {"name": "remove_method resets only when absent", "file": MF, "expect": "C18.R1",
     "old": "            if method:\n                self._methods = self._methods.dissoc(key)\n            self._reset_cache()\n            return method\n",
     "new": "            if method:\n                self._methods = self._methods.dissoc(key)\n                return method\n            self._reset_cache()\n            return method\n"},
    {"name": "add_method resets before the store", "file": MF, "expect": "C18.R1",
     "old": "            self._methods = self._methods.assoc(key, method)\n            self._reset_cache()\n", "new": "            self._reset_cache()\n            self._methods = self._methods.assoc(key, method)\n"},
    {"name": "remove_all_methods unlocked", "file": MF, "expect": "C18.R1",
     "old": "        with self._lock:\n            self._methods = lmap.EMPTY\n            self._reset_cache()\n", "new": "        self._methods = lmap.EMPTY\n        self._reset_cache()\n"},
    {"name": "cache read before staleness test", "file": MF, "expect": "C18.R2",
     "old": "            with self._lock:\n                self._reset_cache()\n\n        cached_val = self._cache.val_at(key)\n        if cached_val is not None:\n            return cached_val\n",
     "new": "            pass\n        cached_val = self._cache.val_at(key)\n        if cached_val is not None:\n            return cached_val\n\n        if self._cached_hierarchy != self._hierarchy.deref():\n            with self._lock:\n                self._reset_cache()\n"},
    {"name": "staleness test dropped", "file": MF, "expect": "C18.R2",
     "old": "        if self._cached_hierarchy != self._hierarchy.deref():\n            # Under the lock", "new": "        if False:\n            # Under the lock"},
    {"name": "staleness test inverted", "file": MF, "expect": "C18.R2",
     "old": "        if self._cached_hierarchy != self._hierarchy.deref():\n            # Under the lock", "new": "        if self._cached_hierarchy == self._hierarchy.deref():\n            # Under the lock"},
    {"name": "reset does not refresh hierarchy snapshot", "file": MF, "expect": "C18.R3",
     "old": "        self._cache = self._methods\n        self._cached_hierarchy = self._hierarchy.deref()\n", "new": "        self._cache = self._methods\n"},
    {"name": "cache keeps old entries on reset", "file": MF, "expect": "C18.R3",
     "old": "        self._cache = self._methods\n", "new": "        self._cache = self._cache.update(self._methods)\n"},
    {"name": "the snapshot is moved before the cache is emptied", "file": MF, "expect": "C18.R3",
     "old": "        self._cache = self._methods\n        self._cached_hierarchy = self._hierarchy.deref()\n", "new": "        self._cached_hierarchy = self._hierarchy.deref()\n        self._cache = self._methods\n"},
    {"name": "twin: one dereference per search, handed down to _is_a", "expect": None, "edits": _SNAPSHOT_EDITS},
    {"name": "the search moves the hierarchy snapshot and keeps the cached answers", "expect": "C18.R3",
     "edits": _SNAPSHOT_EDITS + [{"file": MF, "old": "                self._cache = self._cache.assoc(key, best_method)\n",
                                  "new": "                self._cache = self._cache.assoc(key, best_method)\n                self._cached_hierarchy = hierarchy\n"}]},
    {"name": "the search is handed the snapshot instead of the live hierarchy", "expect": "C18.R4",
     "edits": _SNAPSHOT_EDITS + [{"file": MF, "old": "            hierarchy = self._hierarchy.deref()\n", "new": "            hierarchy = self._cached_hierarchy\n"}]},
    {"name": "hierarchy captured by value", "file": MF, "expect": "C18.R4",
     "old": "        return bool(self._isa.value(self._hierarchy.deref(), tag, parent))", "new": "        return bool(self._isa.value(self._cached_hierarchy, tag, parent))"},
    {"name": "global underive does not write the Var", "file": CORE, "expect": "C18.R4",
     "old": "   (alter-var-root #'global-hierarchy underive tag parent)\n   nil)", "new": "   (underive global-hierarchy tag parent)\n   nil)"},
    # twins
    {"name": "twin: inline reset", "file": MF, "expect": None,
     "old": "            self._methods = lmap.EMPTY\n            self._reset_cache()\n", "new": "            self._methods = lmap.EMPTY\n            self._cache = lmap.EMPTY\n            self._cached_hierarchy = self._hierarchy.deref()\n"},
    {"name": "twin: equality-form staleness test", "file": MF, "expect": None,
     "old": "        if self._cached_hierarchy != self._hierarchy.deref():\n            # Under the lock, so that a search still running against the old hierarchy\n            # cannot store its answer into the cache after it was reset for the new one\n            with self._lock:\n                self._reset_cache()\n",
     "new": "        if self._cached_hierarchy == self._hierarchy.deref():\n            pass\n        else:\n            with self._lock:\n                self._reset_cache()\n"},
    {"name": "twin: try/finally reset", "file": MF, "expect": None,
     "old": "            if method:\n                self._methods = self._methods.dissoc(key)\n            self._reset_cache()\n            return method\n",
     "new": "            try:\n                if method:\n                    self._methods = self._methods.dissoc(key)\n                return method\n            finally:\n                self._reset_cache()\n"},
]
