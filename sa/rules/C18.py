"""C18 -- multimethod dispatch depends only on current methods, preferences and hierarchy."""
from __future__ import annotations

import ast

from ..core import AnalysisError, rule
from .. import lispread as L
from .. import pyfacts as P
from ..pycfg import CFG

MF = "src/basilisp/lang/multifn.py"
CORE = "src/basilisp/core.lpy"

EXPLANATION = (
    "Cache-coherence rules over MultiFunction: every store to the method or preference table is followed, on every path to "
    "exit and inside the same lock, by a cache reset; the hierarchy-staleness test dominates the cache read and its stale edge "
    "leads through a reset; the cache is only (re)filled from the current method table; the hierarchy is held by reference and "
    "the global derive/underive go through alter-var-root on that reference."
)
DECIDES = "write=>reset pairing, staleness-check dominance, cache fill sources, hierarchy-by-reference"
DECLINED = "uniqueness/ambiguity of the best match, consistency of parents/ancestors/descendants (set-valued computations)"
TRUSTED = ["threading.Lock semantics", "persistent maps are values (C04)"]
ASSUMPTIONS = []

TABLES = ("_methods", "_prefers")
LOCK = {"self._lock"}


def _mf(ctx):
    c = P.find_def(ctx.py(MF), "MultiFunction")
    if c is None:
        raise AnalysisError("anchor vanished: multifn.py::MultiFunction")
    return c


def _is_reset_stmt(stmt) -> bool:
    if any(P.un(c.func) == "self._reset_cache" for c in P.calls(stmt)):
        return True
    return any(P.is_self_attr(t, "_cache") for t in P.store_targets(stmt)) if isinstance(stmt, (ast.Assign, ast.AnnAssign)) else False


@rule("C18.R1", floor=4)
def r1_write_implies_reset(ctx):
    """Every store to _methods / _prefers outside __init__ is under self._lock and every normal path
    from it to the function exit passes a cache reset (self._reset_cache() or a store to
    self._cache) inside the same `with`."""
    cls = _mf(ctx)
    for m in P.all_methods(cls):
        if m.name == "__init__":
            continue
        stores = [(s, a) for s, a in P.self_attr_stores(m) if a in TABLES]
        if not stores:
            continue
        g = CFG(m)
        for s, a in stores:
            inst = f"{MF}::MultiFunction.{m.name}::{P.un(s)}"
            if not P.under_lock(s, LOCK, stop=m):
                ctx.ob("C18.R1", inst, MF, s.lineno, False, f"store to self.{a} outside `with self._lock`")
                continue
            w = next(w for w, it in P.with_items_enclosing(s, m) if P.un(it.context_expr) in LOCK)
            resets = [nd for nd in g.nodes if nd.kind == "stmt" and _is_reset_stmt(nd.ast) and P.contains(w, nd.ast)]
            snodes = [nd for nd in g.nodes if nd.ast is s]
            ok = bool(snodes) and not any(g.can_reach_without(sn, [g.exit], resets, follow_exc=False) for sn in snodes)
            ctx.ob("C18.R1", inst, MF, s.lineno, ok,
                   "" if ok else f"a path from the store to self.{a} reaches the end of {m.name} without resetting the dispatch cache inside the lock: earlier calls' cached choices survive the change")


@rule("C18.R2", floor=1)
def r2_staleness_check_dominates_cache_read(ctx):
    """In get_method (and any other reader of self._cache outside the lock-holding fill routine)
    the comparison of _cached_hierarchy with the live hierarchy dominates the cache read, and its
    stale outcome leads through a reset before the read."""
    cls = _mf(ctx)
    for m in P.all_methods(cls):
        if m.name in ("__init__", "_reset_cache"):
            continue
        reads = [n for n in ast.walk(m) if P.is_self_attr(n, "_cache") and isinstance(n.ctx, ast.Load)]
        if not reads:
            continue
        if all(P.under_lock(r, LOCK, stop=m) for r in reads) and any(s for s, a in P.self_attr_stores(m) if a == "_cache"):
            continue  # the fill routine (R3)
        g = CFG(m)
        tests = [nd for nd in g.nodes if nd.kind == "test" and "_cached_hierarchy" in P.un(nd.ast) and "_hierarchy.deref()" in P.un(nd.ast)]
        for r in reads:
            rn = [nd for nd in g.nodes if nd.kind in ("stmt", "test") and nd.ast is not None and P.contains(nd.ast, r)]
            inst = f"{MF}::MultiFunction.{m.name}::{P.un(P.stmt_of(r))}"
            if not tests:
                ctx.ob("C18.R2", inst, MF, r.lineno, False, "the dispatch cache is read without comparing _cached_hierarchy with the live hierarchy")
                continue
            ok = all(g.dominated(x, tests) for x in rn)
            why = "" if ok else "a path reads the dispatch cache before the hierarchy staleness test"
            if ok:
                resets = [nd for nd in g.nodes if nd.kind == "stmt" and _is_reset_stmt(nd.ast)]
                for t in tests:
                    cmp_ = t.ast
                    if not (isinstance(cmp_, ast.Compare) and len(cmp_.ops) == 1):
                        raise AnalysisError(f"unsupported staleness test {P.un(cmp_)}")
                    stale_label = True if isinstance(cmp_.ops[0], (ast.NotEq, ast.IsNot)) else False if isinstance(cmp_.ops[0], (ast.Eq, ast.Is)) else None
                    if stale_label is None:
                        raise AnalysisError(f"unsupported staleness test {P.un(cmp_)}")
                    starts = [b for b, lab in t.succ if lab is stale_label]
                    reach = g.reach(starts, avoid=resets, follow_exc=False)
                    if any(x.id in reach for x in rn):
                        ok = False
                        why = "when the hierarchy has changed, the cache can be read without being reset first"
            ctx.ob("C18.R2", inst, MF, r.lineno, ok, why)


def _derived_from_methods(func, name: str, seen=None) -> bool:
    """Is local `name` assigned only from None or from expressions reading self._methods (directly,
    via a for-loop over self._methods.items(), or via other such locals)?"""
    seen = seen or set()
    if name in seen:
        return True
    seen.add(name)
    found = False
    for n in ast.walk(func):
        tgts = []
        val = None
        if isinstance(n, (ast.Assign, ast.AnnAssign)) and getattr(n, "value", None) is not None:
            tgts = P.store_targets(n)
            val = n.value
        elif isinstance(n, ast.For):
            tgts = P.store_targets(n)
            val = n.iter
        if not any(isinstance(t, ast.Name) and t.id == name for t in tgts):
            continue
        found = True
        if isinstance(val, ast.Constant) and val.value is None:
            continue
        if any(P.is_self_attr(x, "_methods") for x in ast.walk(val)):
            continue
        # tuple assignment `a, b = c, d`
        names = [x.id for x in ast.walk(val) if isinstance(x, ast.Name) and isinstance(x.ctx, ast.Load)]
        if names and all(_derived_from_methods(func, x, seen) for x in names if x != "self"):
            continue
        return False
    return found


@rule("C18.R3", floor=2)
def r3_cache_filled_from_current_tables(ctx):
    """Every store to self._cache is `self._methods`, an empty map, or `self._cache.assoc(key, v)`
    under the lock with v derived only from self._methods; _reset_cache also refreshes
    _cached_hierarchy from the live hierarchy."""
    cls = _mf(ctx)
    for m in P.all_methods(cls):
        if m.name == "__init__":
            continue
        for s, a in P.self_attr_stores(m):
            if a != "_cache":
                continue
            v = getattr(s, "value", None)
            inst = f"{MF}::MultiFunction.{m.name}::{P.un(s)}"
            txt = P.un(v) if v is not None else ""
            if txt in ("self._methods", "lmap.EMPTY", "lmap.map({})", "lmap.PersistentMap.empty()"):
                # a reset: the hierarchy snapshot must be refreshed in the same function
                refreshed = any(a2 == "_cached_hierarchy" and "self._hierarchy.deref()" in P.un(s2.value) for s2, a2 in P.self_attr_stores(m) if getattr(s2, "value", None) is not None)
                ctx.ob("C18.R3", inst, MF, s.lineno, refreshed, "" if refreshed else "cache reset without refreshing _cached_hierarchy from the live hierarchy: the staleness test would fire forever or never")
                continue
            ok = False
            why = f"cache is filled from `{txt}`, which is not the current method table"
            if isinstance(v, ast.Call) and P.un(v.func) == "self._cache.assoc" and len(v.args) == 2:
                if not P.under_lock(s, LOCK, stop=m):
                    why = "cache fill outside the lock"
                elif isinstance(v.args[1], ast.Name) and _derived_from_methods(m, v.args[1].id):
                    ok, why = True, ""
                else:
                    why = f"cached value `{P.un(v.args[1])}` is not derived from self._methods under the lock"
            ctx.ob("C18.R3", inst, MF, s.lineno, ok, why)


@rule("C18.R4", floor=4)
def r4_hierarchy_by_reference(ctx):
    """MultiFunction keeps the hierarchy *reference* (not its value) and _is_a consults the live
    value; in core.lpy the global derive/underive mutate the global hierarchy through
    alter-var-root on its Var, and defmulti passes a Var/IRef."""
    cls = _mf(ctx)
    init = P.methods(cls).get("__init__")
    for s, a in P.self_attr_stores(init):
        if a == "_hierarchy":
            txt = P.un(s.value)
            ok = ".deref()" not in txt and ".value" not in txt
            ctx.ob("C18.R4", f"{MF}::MultiFunction.__init__::{P.un(s)}", MF, s.lineno, ok, "" if ok else "the hierarchy is captured by value at construction: later derive/underive are invisible")
    isa = P.methods(cls).get("_is_a")
    if isa is None:
        raise AnalysisError("anchor vanished: MultiFunction._is_a")
    txt = P.un(isa)
    ok = "self._hierarchy.deref()" in txt and "_cached_hierarchy" not in txt
    ctx.ob("C18.R4", f"{MF}::MultiFunction._is_a::uses-live-hierarchy", MF, isa.lineno, ok, "" if ok else "_is_a does not consult the live hierarchy value")
    defs = L.top_defs(ctx.lisp(CORE))
    for name in ("derive", "underive"):
        d = defs.get(name)
        if d is None:
            raise AnalysisError(f"anchor vanished: core.lpy::{name}")
        for params, body in L.fn_arities(d):
            if len(params.items) != 2:
                continue
            hit = [f for b in body for f in L.walk(b) if L.head(f) == "alter-var-root"]
            # unconditional: the update is a direct body form of the arity (derive/underive must
            # record every declared edge, even one that is already implied transitively)
            ok = bool(hit) and all(any(f is b for b in body) for f in hit) and all(len(f.items) >= 5 and f.items[1].text() in ("#'global-hierarchy", "(var global-hierarchy)") and L.is_sym(f.items[2], name) and [x.text() for x in f.items[3:]] == [p.text() for p in params.items] for f in hit)
            ctx.ob("C18.R4", f"{CORE}::{name}::{params.text()}", CORE, d.line, ok, "" if ok else f"the global arity of {name} does not update #'global-hierarchy through alter-var-root with (tag parent) in order")


SELFTEST = [
    {"name": "prefer_method forgets reset", "file": MF, "expect": "C18.R1",
     "old": "            self._prefers = self._prefers.assoc(preferred_key, existing.cons(other_key))\n            self._reset_cache()\n",
     "new": "            self._prefers = self._prefers.assoc(preferred_key, existing.cons(other_key))\n"},
    {"name": "remove_method resets only when absent", "file": MF, "expect": "C18.R1",
     "old": "            if method:\n                self._methods = self._methods.dissoc(key)\n            self._reset_cache()\n            return method\n",
     "new": "            if method:\n                self._methods = self._methods.dissoc(key)\n                return method\n            self._reset_cache()\n            return method\n"},
    {"name": "add_method resets before the store", "file": MF, "expect": "C18.R1",
     "old": "            self._methods = self._methods.assoc(key, method)\n            self._reset_cache()\n", "new": "            self._reset_cache()\n            self._methods = self._methods.assoc(key, method)\n"},
    {"name": "remove_all_methods unlocked", "file": MF, "expect": "C18.R1",
     "old": "        with self._lock:\n            self._methods = lmap.EMPTY\n            self._reset_cache()\n", "new": "        self._methods = lmap.EMPTY\n        self._reset_cache()\n"},
    {"name": "cache read before staleness test", "file": MF, "expect": "C18.R2",
     "old": "        if self._cached_hierarchy != self._hierarchy.deref():\n            self._reset_cache()\n\n        cached_val = self._cache.val_at(key)\n        if cached_val is not None:\n            return cached_val\n",
     "new": "        cached_val = self._cache.val_at(key)\n        if cached_val is not None:\n            return cached_val\n\n        if self._cached_hierarchy != self._hierarchy.deref():\n            self._reset_cache()\n"},
    {"name": "staleness test dropped", "file": MF, "expect": "C18.R2",
     "old": "        if self._cached_hierarchy != self._hierarchy.deref():\n            self._reset_cache()\n\n", "new": ""},
    {"name": "staleness test inverted", "file": MF, "expect": "C18.R2",
     "old": "        if self._cached_hierarchy != self._hierarchy.deref():\n            self._reset_cache()\n", "new": "        if self._cached_hierarchy == self._hierarchy.deref():\n            self._reset_cache()\n"},
    {"name": "reset does not refresh hierarchy snapshot", "file": MF, "expect": "C18.R3",
     "old": "        self._cache = self._methods\n        self._cached_hierarchy = self._hierarchy.deref()\n", "new": "        self._cache = self._methods\n"},
    {"name": "cache keeps old entries on reset", "file": MF, "expect": "C18.R3",
     "old": "        self._cache = self._methods\n", "new": "        self._cache = self._cache.update(self._methods)\n"},
    {"name": "hierarchy captured by value", "file": MF, "expect": "C18.R4",
     "old": "        return bool(self._isa.value(self._hierarchy.deref(), tag, parent))", "new": "        return bool(self._isa.value(self._cached_hierarchy, tag, parent))"},
    {"name": "global underive does not write the Var", "file": CORE, "expect": "C18.R4",
     "old": "   (alter-var-root #'global-hierarchy underive tag parent)\n   nil)", "new": "   (underive global-hierarchy tag parent)\n   nil)"},
    # twins
    {"name": "twin: inline reset", "file": MF, "expect": None,
     "old": "            self._methods = lmap.EMPTY\n            self._reset_cache()\n", "new": "            self._methods = lmap.EMPTY\n            self._cache = lmap.EMPTY\n            self._cached_hierarchy = self._hierarchy.deref()\n"},
    {"name": "twin: equality-form staleness test", "file": MF, "expect": None,
     "old": "        if self._cached_hierarchy != self._hierarchy.deref():\n            self._reset_cache()\n", "new": "        if self._cached_hierarchy == self._hierarchy.deref():\n            pass\n        else:\n            self._reset_cache()\n"},
    {"name": "twin: try/finally reset", "file": MF, "expect": None,
     "old": "            if method:\n                self._methods = self._methods.dissoc(key)\n            self._reset_cache()\n            return method\n",
     "new": "            try:\n                if method:\n                    self._methods = self._methods.dissoc(key)\n                return method\n            finally:\n                self._reset_cache()\n"},
]
