"""C16 -- the reader is total, classifies incomplete input, and reports true locations."""
from __future__ import annotations

import ast
import re

from ..core import AnalysisError, rule
from .. import pyfacts as P
from ..pycfg import CFG

RD = "src/basilisp/lang/reader.py"
PROMPT = "src/basilisp/prompt.py"

EXPLANATION = (
    "May-raise, sentinel and dispatch-table rules over reader.py: every explicit raise reachable from read() is a syntax/EOF "
    "error; every call of a partial conversion (int, float, chr, Decimal, Fraction, re.compile, set(), ...) is discharged by an "
    "enclosing handler that re-raises a syntax error, by a regex guard whose group language lies in the callee's domain (decided "
    "on the regex AST), or by a reviewed exemption; every use of the result of an EOF-returning reader is preceded by an "
    "`is ctx.eof` test that raises eof_error; dispatch keys agree with the asserts of the readers registered under them; "
    "_with_loc readers are entered at the first character of their form; the REPL maps exactly UnexpectedEOFError to 'keep reading'. "
    "Termination: every cycle of every reader loop consumes from the stream (consumption summaries computed as a least fixpoint over "
    "the reader's call graph), every loop exits in the abstract state 'stream exhausted' (an abstract execution in which every read "
    "returns '' has no cycle in its state graph), and no recursion between stream readers re-enters before a character was consumed."
)
DECIDES = "only syntax errors escape (may-raise over the reader's call graph), EOF sentinel never embedded and reported as UnexpectedEOFError, dispatch/assert agreement, span start of located readers, REPL cue, termination of the reader's loops and recursion (progress + exit at end of input), a private end-of-input sentinel, input validated with syntax errors (asserts, data readers, indexed forms, comment filter, var form), end of input classified as such (abstract execution with 0/1/2 characters left; eof_error only under end-of-input tests)"
DECLINED = "line/column arithmetic under CR/CRLF and multi-byte input, equality of the re-read span (runtime values)"
TRUSTED = ["FT-raise: exception classes of int/float/chr/Decimal/Fraction/re.compile/uuid/set on bad input, incl. the 4300-digit int() limit for non power-of-two bases"]
ASSUMPTIONS = ["user-supplied data readers and resolvers are outside the property (their exceptions are theirs)"]
TECHNIQUE = "may-raise analysis with regex-language guards (re._parser AST), sentinel-use typestate on the CFG, dispatch-table/assert agreement"

OK_RAISES = ("ctx.syntax_error", "ctx.eof_error", "SyntaxError", "UnexpectedEOFError")


def _tree(ctx):
    return ctx.py(RD)


def _reader_functions(ctx):
    """Functions reachable from read(): everything at module level in reader.py whose name
    starts with _read / _py_ / _inst / _uuid / _resolve / _load / _expand / _process / _select /
    _should / _consume / _map_key plus the dispatch lambdas."""
    tree = _tree(ctx)
    fns = {}
    for n in tree.body:
        if isinstance(n, P.FUNC):
            fns[n.name] = n
    # call graph closure from read
    if "read" not in fns:
        raise AnalysisError("anchor vanished: reader.read")
    dispatch_vals = set()
    for tbl in ("_read_dispatch", "_read_macro_dispatch"):
        v = P.module_assign(tree, tbl)
        if not isinstance(v, ast.Dict):
            raise AnalysisError(f"anchor vanished: reader.{tbl}")
        ctx.analysed["tables"].add(f"reader.{tbl} ({len(v.keys)} keys)")
        for val in v.values:
            if isinstance(val, ast.Name):
                dispatch_vals.add(val.id)
    seen, work = set(), ["read"]
    while work:
        f = work.pop()
        if f in seen or f not in fns:
            continue
        seen.add(f)
        names = {n.id for n in ast.walk(fns[f]) if isinstance(n, ast.Name)}
        if f == "_read_next" or f == "_read_reader_macro":
            names |= dispatch_vals
        work.extend(n for n in names if n in fns)
    # data readers registered in ReaderContext._DATA_READERS
    rc = P.find_def(tree, "ReaderContext")
    if rc is not None:
        dr = P.class_assign(rc, "_DATA_READERS")
        if dr is not None:
            for n in ast.walk(dr):
                if isinstance(n, ast.Name) and n.id in fns:
                    seen.add(n.id)
                    work = [n.id]
                    while work:
                        f = work.pop()
                        for m in {x.id for x in ast.walk(fns[f]) if isinstance(x, ast.Name)}:
                            if m in fns and m not in seen:
                                seen.add(m)
                                work.append(m)
    return {k: fns[k] for k in seen}


# ---------------------------------------------------------------------------------------------
# regex language helpers

def _regex_table(ctx):
    tree = _tree(ctx)
    out = {}
    for n in tree.body:
        if isinstance(n, ast.Assign) and isinstance(n.value, ast.Call) and P.un(n.value.func) == "re.compile" and n.value.args and isinstance(n.value.args[0], ast.Constant):
            for t in n.targets:
                if isinstance(t, ast.Name):
                    out[t.id] = n.value.args[0].value
    return out


def _group_chars(pattern: str, group: int):
    """(set of possible characters as category/literal tokens, max total length or None) for a
    capture group of a regex, from the sre parse tree."""
    import re._parser as sp  # type: ignore

    tree = sp.parse(pattern)
    found = []

    def find(items):
        for op, av in items:
            name = str(op)
            if name == "SUBPATTERN":
                gid, _a, _b, sub = av
                if gid == group:
                    found.append(sub)
                find(sub)
            elif name in ("MAX_REPEAT", "MIN_REPEAT", "POSSESSIVE_REPEAT"):
                find(av[2])
            elif name == "BRANCH":
                for b in av[1]:
                    find(b)
            elif name in ("ASSERT", "ASSERT_NOT", "ATOMIC_GROUP"):
                find(av[1] if isinstance(av, tuple) else av)

    find(tree)
    if not found:
        return None

    def chars(items):
        cs, total = set(), 0
        for op, av in items:
            name = str(op)
            if name == "LITERAL":
                cs.add(("lit", chr(av))); total = None if total is None else total + 1
            elif name == "IN":
                for o2, a2 in av:
                    n2 = str(o2)
                    if n2 == "LITERAL":
                        cs.add(("lit", chr(a2)))
                    elif n2 == "RANGE":
                        cs.add(("range", chr(a2[0]), chr(a2[1])))
                    elif n2 == "CATEGORY":
                        cs.add(("cat", str(a2)))
                    else:
                        cs.add(("other", n2))
                total = None if total is None else total + 1
            elif name == "CATEGORY":
                cs.add(("cat", str(av))); total = None if total is None else total + 1
            elif name in ("MAX_REPEAT", "MIN_REPEAT", "POSSESSIVE_REPEAT"):
                lo, hi, sub = av
                c2, t2 = chars(sub)
                cs |= c2
                if hi is None or str(hi) == "MAXREPEAT" or t2 is None or total is None or (isinstance(hi, int) and hi > 100000):
                    total = None
                else:
                    total += int(hi) * t2
            elif name == "SUBPATTERN":
                c2, t2 = chars(av[3])
                cs |= c2
                total = None if (total is None or t2 is None) else total + t2
            elif name == "BRANCH":
                mx = 0
                for b in av[1]:
                    c2, t2 = chars(b)
                    cs |= c2
                    mx = None if (mx is None or t2 is None) else max(mx, t2)
                total = None if (total is None or mx is None) else total + mx
            elif name == "ANY":
                cs.add(("other", "ANY")); total = None if total is None else total + 1
            elif name == "NOT_LITERAL":
                cs.add(("other", "NOT_LITERAL")); total = None if total is None else total + 1
            elif name == "AT":
                pass
            else:
                cs.add(("other", name))
        return cs, total

    return chars(found[0])


def _subset_of(cs, allowed: str) -> bool:
    """Is every token within the allowed alphabet?  allowed: 'digits', 'hex', 'oct', 'float', 'alnum36'."""
    def lit_ok(ch):
        if allowed == "digits":
            return ch.isdigit() or ch in "-+"
        if allowed == "oct":
            return ch in "01234567"
        if allowed == "hex":
            return ch in "0123456789abcdefABCDEF"
        if allowed == "float":
            return ch.isdigit() or ch in "-+.eE"
        return False
    for tok in cs:
        if tok[0] == "lit":
            if not lit_ok(tok[1]):
                return False
        elif tok[0] == "range":
            if not all(lit_ok(chr(c)) for c in range(ord(tok[1]), ord(tok[2]) + 1)):
                return False
        elif tok[0] == "cat":
            if tok[1] != "CATEGORY_DIGIT" or allowed in ("oct", "hex"):
                return False
        else:
            return False
    return True


# ---------------------------------------------------------------------------------------------
# R1

PARTIAL = {
    # callee text -> (exceptions, description)
    "int": ({"ValueError"}, "int()"),
    "float": ({"ValueError"}, "float()"),
    "chr": ({"ValueError", "OverflowError"}, "chr()"),
    "decimal.Decimal": ({"InvalidOperation"}, "decimal.Decimal()"),
    "Fraction": ({"ZeroDivisionError"}, "Fraction()"),
    "re.compile": ({"error"}, "re.compile()"),
    "langutil.regex_from_str": ({"error"}, "regex_from_str()"),
    "langutil.inst_from_str": ({"ValueError", "OverflowError"}, "inst_from_str()"),
    "langutil.uuid_from_str": ({"ValueError", "TypeError"}, "uuid_from_str()"),
    "set": ({"TypeError"}, "set() of unhashable elements"),
    "lset.set": ({"TypeError"}, "lset.set() of unhashable elements"),
    "collections.Counter": ({"TypeError"}, "Counter() of unhashable elements"),
    "lqueue.queue": ({"TypeError"}, "queue() of a non-iterable"),
    "issubclass": ({"TypeError"}, "issubclass() of a non-class"),
    "_postwalk": ({"TypeError"}, "_postwalk() rebuilding maps and sets from walked (possibly unhashable) elements"),
}
# calls of a callable looked up by name from the input text (record / type factories): <x>.value(...)
FACTORY_CALL = ({"TypeError"}, "a factory looked up from the tag, called with the literal's elements")
EXC_PARENT = {"InvalidOperation": "ArithmeticError", "ZeroDivisionError": "ArithmeticError", "error": "Exception", "ValueError": "Exception", "TypeError": "Exception", "OverflowError": "ArithmeticError", "ArithmeticError": "Exception", "Exception": "BaseException"}


def _handler_covers(h: ast.ExceptHandler, exc: str) -> bool:
    if h.type is None:
        return True
    names = [P.un(e).split(".")[-1] for e in (h.type.elts if isinstance(h.type, ast.Tuple) else [h.type])]
    e = exc
    while e:
        if e in names:
            return True
        e = EXC_PARENT.get(e)
    return False


def _handler_raises_syntax(h: ast.ExceptHandler) -> bool:
    for s in ast.walk(h):
        if isinstance(s, ast.Raise) and s.exc is not None:
            e = s.exc
            while isinstance(e, ast.Call):
                e = e.func
                if isinstance(e, ast.Attribute) and e.attr == "with_traceback":
                    e = e.value
            txt = P.un(e)
            if any(txt.startswith(o) for o in OK_RAISES):
                return True
    return False


def _enclosing_handlers(node, fn):
    out = []
    prev = node
    for a in P.ancestors(node):
        if a is fn:
            break
        if isinstance(a, ast.Try) and any(prev is b or P.contains(b, prev) for b in a.body):
            out.extend(a.handlers)
        prev = a
    return out


def _match_source(fn, name: str, at=None):
    """If `name` is bound by `(name := REGEX.fullmatch(s))` / `name = REGEX.match(x)`, return the regex var.
    When `at` is given, the binding in the test of the nearest enclosing `if` whose body contains
    `at` wins (the reader re-uses one name for every branch of its if/elif chain)."""
    if at is not None:
        prev = at
        for a in P.ancestors(at):
            if a is fn:
                break
            if isinstance(a, ast.If) and any(prev is b or P.contains(b, prev) for b in a.body):
                for n in ast.walk(a.test):
                    if isinstance(n, ast.NamedExpr) and n.target.id == name and isinstance(n.value, ast.Call) and isinstance(n.value.func, ast.Attribute) and n.value.func.attr in ("fullmatch", "match"):
                        return P.un(n.value.func.value), n.value.func.attr
            prev = a
    for n in ast.walk(fn):
        tgt, val = None, None
        if isinstance(n, ast.NamedExpr):
            tgt, val = n.target, n.value
        elif isinstance(n, ast.Assign) and len(n.targets) == 1:
            tgt, val = n.targets[0], n.value
        if isinstance(tgt, ast.Name) and tgt.id == name and isinstance(val, ast.Call) and isinstance(val.func, ast.Attribute) and val.func.attr in ("fullmatch", "match"):
            return P.un(val.func.value), val.func.attr
    return None


def _alias_of_group(fn, name: str, at):
    """`name` bound to `m.group(k)` (walrus or assignment) or unpacked from `m.groups()`:
    returns a synthetic `m.group(k)` call node."""
    for n in ast.walk(fn):
        if isinstance(n, ast.NamedExpr) and n.target.id == name and isinstance(n.value, ast.Call) and isinstance(n.value.func, ast.Attribute) and n.value.func.attr == "group":
            return n.value
        if isinstance(n, ast.Assign) and len(n.targets) == 1:
            t, v = n.targets[0], n.value
            if isinstance(t, ast.Name) and t.id == name and isinstance(v, ast.Call) and isinstance(v.func, ast.Attribute) and v.func.attr == "group":
                return v
            if isinstance(t, ast.Tuple) and isinstance(v, ast.Call) and isinstance(v.func, ast.Attribute) and v.func.attr == "groups":
                for i, e in enumerate(t.elts):
                    if isinstance(e, ast.Name) and e.id == name:
                        synth = ast.Call(func=ast.Attribute(value=v.func.value, attr="group", ctx=ast.Load()), args=[ast.Constant(i + 1)], keywords=[])
                        return synth
    return None


@rule("C16.R1", floor=25)
def r1_only_syntax_errors_escape(ctx):
    """Over the functions reachable from read(): explicit raises are syntax/EOF errors; each call of
    a partial conversion is inside a handler that covers its exceptions and raises a syntax error,
    or its argument is a regex group whose language lies in the callee's domain (and is length-
    bounded where CPython limits int digits), or it is a reviewed exemption; exponentiation by a
    text-controlled exponent is flagged (termination)."""
    fns = _reader_functions(ctx)
    regexes = _regex_table(ctx)
    EXEMPT = {
        ("_read_num", "int(match.group(1))"): None,  # placeholder: no blanket exemptions
    }
    _ = EXEMPT
    for fname, fn in sorted(fns.items()):
        ctx.analysed["functions"].add(f"{RD}::{fname}")
        for r in ast.walk(fn):
            if isinstance(r, ast.Raise):
                if r.exc is None:
                    continue  # re-raise inside a handler
                e = r.exc
                while isinstance(e, ast.Call):
                    e = e.func
                    if isinstance(e, ast.Attribute) and e.attr == "with_traceback":
                        e = e.value
                txt = P.un(e)
                ok = any(txt.startswith(o) for o in OK_RAISES) or (txt == "EOFError" and fname == "read")
                ctx.ob("C16.R1", f"{RD}::{fname}::raise {txt}", RD, r.lineno, ok, "" if ok else f"`raise {txt}` escapes the reader as a non-syntax exception")
        for c in P.calls(fn, into_defs=True):
            name = P.un(c.func)
            is_factory = isinstance(c.func, ast.Attribute) and c.func.attr == "value" and isinstance(c.func.value, ast.Name) and any(
                isinstance(a, ast.Assign) and P.un(a.targets[0]) == c.func.value.id and isinstance(a.value, ast.Call) and P.un(a.value.func).startswith("Var.find") for a in ast.walk(fn))
            if is_factory:
                excs, descr = FACTORY_CALL
                handlers = _enclosing_handlers(c, fn)
                uncovered = {e for e in excs if not any(_handler_covers(h, e) and _handler_raises_syntax(h) for h in handlers)}
                ctx.ob("C16.R1", f"{RD}::{fname}::{P.un(c)}", RD, c.lineno, not uncovered,
                       "covered by a handler that raises a syntax error" if not uncovered else f"{descr}, can raise {sorted(uncovered)} (wrong number of fields) and no enclosing handler turns it into a syntax error",
                       witness="(defrecord Pt [x y]) then #my.ns.Pt [1]")
                continue
            if name not in PARTIAL or not c.args and not c.keywords:
                continue
            if name == "_postwalk":
                # rebuilding a map or set can only meet an unhashable element if the walking function
                # produces new values: it resolves tagged literals (data readers return anything).
                # A call inside that walking function itself runs under the outer call's handler.
                walker = next((n for n in ast.walk(fn) if isinstance(n, P.FUNC) and n is not fn and isinstance(c.args[0], ast.Name) and n.name == c.args[0].id), None)
                produces = walker is not None and any(P.un(x.func) in ("_resolve_tagged_literal", "data_reader") for x in P.calls(walker, into_defs=True))
                inside_walker = walker is not None and P.contains(walker, c)
                if not produces or inside_walker:
                    continue
            excs, descr = PARTIAL[name]
            handlers = _enclosing_handlers(c, fn)
            if name == "issubclass":
                # discharged by a dominating `isinstance(<arg>, type)` test (the False outcome must not reach the call)
                arg = P.un(c.args[0])
                g = CFG(fn)
                nodes = [nd for nd in g.nodes if nd.ast is not None and nd.kind in ("stmt", "test") and P.contains(nd.ast, c)]

                def is_class(a, b, lab, arg=arg):
                    return a.kind == "test" and lab is True and P.un(a.ast) == f"isinstance({arg}, type)"
                ok = bool(nodes) and all(g.edge_dominated(nd, is_class) for nd in nodes)
                ok = ok or not {e for e in excs if not any(_handler_covers(h, e) and _handler_raises_syntax(h) for h in handlers)}
                ctx.ob("C16.R1", f"{RD}::{fname}::{P.un(c)}", RD, c.lineno, ok,
                       "" if ok else f"issubclass({arg}, ...) raises TypeError when `{arg}` -- whatever attribute the tag names -- is not a class, and nothing turns it into a syntax error",
                       witness="#basilisp.core.first [1]")
                continue
            uncovered = {e for e in excs if not any(_handler_covers(h, e) and _handler_raises_syntax(h) for h in handlers)}
            arg0 = c.args[0] if c.args else c.keywords[0].value
            inst = f"{RD}::{fname}::{P.un(c)}"
            if not uncovered:
                ctx.ob("C16.R1", inst, RD, c.lineno, True, "covered by a handler that raises a syntax error")
                continue
            why = f"{descr} can raise {sorted(uncovered)} and no enclosing handler turns it into a syntax error"
            ok = False
            # regex guard
            garg = arg0
            if isinstance(garg, ast.JoinedStr):
                garg = next((v.value for v in garg.values if isinstance(v, ast.FormattedValue)), garg)
            if isinstance(garg, ast.Name):
                garg = _alias_of_group(fn, garg.id, c) or garg
            if isinstance(garg, ast.Call) and isinstance(garg.func, ast.Attribute) and garg.func.attr == "group" and isinstance(garg.func.value, ast.Name) and garg.args and isinstance(garg.args[0], ast.Constant):
                ms = _match_source(fn, garg.func.value.id, at=c)
                if ms and ms[0] in regexes and ms[1] == "fullmatch":
                    gi = _group_chars(regexes[ms[0]], int(garg.args[0].value))
                    if gi is not None:
                        cs, maxlen = gi
                        base = None
                        for k in c.keywords:
                            if k.arg == "base":
                                base = P.un(k.value)
                        if len(c.args) > 1:
                            base = P.un(c.args[1])
                        if name == "int":
                            alpha = {"8": "oct", "16": "hex", None: "digits", "10": "digits"}.get(base)
                            if alpha and _subset_of(cs, alpha):
                                if alpha == "digits" and (maxlen is None or maxlen > 4300):
                                    why = "int() of an unbounded run of decimal digits raises ValueError beyond CPython's 4300-digit limit, and nothing turns it into a syntax error"
                                else:
                                    ok, why = True, f"regex guard {ms[0]} group {garg.args[0].value} within int() domain"
                            elif alpha is None:
                                why = f"int() with text-controlled base `{base}` is not guarded"
                        elif name == "float" and _subset_of(cs, "float"):
                            ok, why = True, f"regex guard {ms[0]} within float() domain"
            # arguments that are themselves ints/py values
            if not ok and name == "Fraction":
                pass
            ctx.ob("C16.R1", inst, RD, c.lineno, ok, why)
        for b in ast.walk(fn):
            if isinstance(b, ast.BinOp) and isinstance(b.op, ast.Pow) and not isinstance(b.right, ast.Constant):
                ctx.ob("C16.R1", f"{RD}::{fname}::{P.un(b)}", RD, b.lineno, False,
                       "exponentiation by an exponent taken from the input text: `1e999999999` makes the reader compute a number with a billion digits (does not terminate in practice)",
                       witness="(read-string \"1e999999999\")")


# ---------------------------------------------------------------------------------------------
# R2 EOF sentinel


def _eof_functions(fns) -> set[str]:
    eofs = set()
    for name, fn in fns.items():
        for r in ast.walk(fn):
            if isinstance(r, ast.Return) and r.value is not None and "ctx.eof" in P.un(r.value) and "eof_error" not in P.un(r.value):
                eofs.add(name)
    eofs.add("_read_next")  # dispatch table contains `lambda ctx: ctx.eof` and _read_comment
    changed = True
    while changed:
        changed = False
        for name, fn in fns.items():
            if name in eofs:
                continue
            for r in ast.walk(fn):
                if isinstance(r, ast.Return) and isinstance(r.value, ast.Call) and P.un(r.value.func) in eofs:
                    eofs.add(name)
                    changed = True
    return eofs


R2_EXEMPT = {
    "_read_coll": "the loop re-reads peek() before anything is returned: at end of input it raises eof_error, so an EOF sentinel appended to the scratch list never escapes",
    "__read_map_elems": "same loop shape as _read_coll: end of input raises eof_error before the generator finishes",
    "_read_reader_conditional_preserving": "same loop shape as _read_coll: end of input raises eof_error before the collection is returned",
    "read": "top level: the sentinel ends the stream of forms (no form is owed)",
    "_read_next_consuming_comment": "propagates the sentinel to its caller (summarised as an EOF-returning function)",
    "_read_next_consuming_whitespace": "propagates the sentinel to its caller",
    "_read_next": "propagates the sentinel to its caller",
}


@rule("C16.R2", floor=8)
def r2_eof_sentinel_checked(ctx):
    """Every call of an EOF-returning reader whose result is embedded in a form (or discarded as
    'the next form') is followed on every path to a return by an `is ctx.eof` test whose eof
    outcome raises ctx.eof_error; prefix readers that read a token directly test for end of input."""
    fns = _reader_functions(ctx)
    eofs = _eof_functions(fns)
    ctx.note(f"C16.R2 EOF-returning readers: {sorted(eofs)}")
    checked_helpers = set()
    # a helper whose every normal return is dominated by a non-eof outcome is a checking helper
    sites = 0
    # the sentinel itself: `is ctx.eof` can only tell the end of the input from a form if no form
    # can read as the sentinel -- it has to be an object private to the reader, never a value
    # supplied by the caller (nil, a keyword ...), which text can spell
    rd = fns.get("read")
    tree = _tree(ctx)
    ctor = [c for c in P.calls(rd) if P.un(c.func) == "ReaderContext"] if rd is not None else []
    if not ctor:
        raise AnalysisError("anchor vanished: reader.read builds no ReaderContext")
    for c in ctor:
        v = next((k.value for k in c.keywords if k.arg == "eof"), None)
        src = P.module_assign(tree, v.id) if isinstance(v, ast.Name) else None
        ok = src is not None and isinstance(src, ast.Call) and P.un(src.func) == "object" and v.id not in {a.arg for a in rd.args.args + rd.args.kwonlyargs}
        ctx.ob("C16.R2", f"{RD}::read::the end-of-input sentinel is an object private to the reader", RD, c.lineno, ok,
               "" if ok else f"the ReaderContext is built with eof={P.un(v) if v is not None else '<default None>'}: a form that reads as that value is taken for the end of the input",
               witness="a file containing 'nil or `[1 ~nil] fails to load with UnexpectedEOFError; a top-level nil silently ends the loading of the file")
    for fname, fn in sorted(fns.items()):
        if fname in R2_EXEMPT:
            continue
        g = None
        for c in P.calls(fn, into_defs=True):
            if P.un(c.func) not in eofs:
                continue
            sites += 1
            st = P.stmt_of(c)
            inst = f"{RD}::{fname}::{P.un(st)}"
            par = P.parent(c)
            var = None
            if isinstance(st, ast.Assign) and st.value is c and len(st.targets) == 1 and isinstance(st.targets[0], ast.Name):
                var = st.targets[0].id
            elif isinstance(par, ast.NamedExpr):
                var = par.target.id
            if isinstance(st, ast.Return) and st.value is c:
                continue  # propagation (would be in eofs)
            if var is None:
                ctx.ob("C16.R2", inst, RD, c.lineno, False,
                       "the result of an EOF-returning reader is used without being named and tested: at end of input the sentinel object is embedded in the form (or the owed form is silently dropped)")
                continue
            g = g or CFG(fn)
            an = [nd for nd in g.nodes if nd.ast is st or (nd.ast is not None and nd.kind in ("stmt", "test") and P.contains(nd.ast, c))]
            tests = [nd for nd in g.nodes if nd.kind == "test" and isinstance(nd.ast, ast.Compare) and P.un(nd.ast.left) == var and isinstance(nd.ast.ops[0], (ast.Is, ast.IsNot)) and P.un(nd.ast.comparators[0]) == "ctx.eof"]
            reach = g.reach(an, avoid=tests, follow_exc=False)
            unguarded = g.exit.id in reach
            leaks = False
            wrong_exc = False
            for t in tests:
                eof_label = isinstance(t.ast.ops[0], ast.Is)
                succ = [b for b, lab in t.succ if lab is eof_label]
                r2 = g.reach(succ, follow_exc=False)
                if g.exit.id in r2:
                    leaks = True
                raises = [g.nodes[i] for i in r2 if g.nodes[i].kind == "stmt" and isinstance(g.nodes[i].ast, ast.Raise)]
                if raises and not all("eof_error" in P.un(x.ast) or "UnexpectedEOFError" in P.un(x.ast) for x in raises):
                    wrong_exc = True
            ok = bool(tests) and not unguarded and not leaks and not wrong_exc
            why = ""
            if not tests or unguarded:
                why = f"`{var}` may be the EOF sentinel and reaches a return without an `is ctx.eof` test: at end of input a bare object() is embedded in the form, or a plain SyntaxError is raised instead of UnexpectedEOFError"
            elif leaks:
                why = "the eof outcome of the test does not raise"
            elif wrong_exc:
                why = "end of input after a prefix is reported with a plain syntax error, not eof_error (the REPL would not keep reading)"
            ctx.ob("C16.R2", inst, RD, c.lineno, ok, why, witness="' @ ~ ~@ ^ #tag #_ ` at end of input")
    # checked helper call sites count as discharged sites (floor stability across a refactor into a helper)
    for fname, fn in sorted(fns.items()):
        for c in P.calls(fn, into_defs=True):
            callee = P.un(c.func)
            if callee in fns and callee not in eofs and callee.startswith("_read_next"):
                sites += 1
                ctx.ob("C16.R2", f"{RD}::{fname}::{P.un(P.stmt_of(c))}", RD, c.lineno, True, f"{callee} raises eof_error itself")
                checked_helpers.add(callee)
    # direct token readers after a prefix: #' must test for end of input before reading a symbol
    vm = fns.get("_read_var_macro")
    if vm is not None:
        txt = P.un(vm)
        ok = "eof_error" in txt
        ctx.ob("C16.R2", f"{RD}::_read_var_macro::end of input after #'", RD, vm.lineno, ok,
               "" if ok else "#' at end of input falls into _read_sym and reports `Invalid symbol or keyword ''` (a plain syntax error) although a form is still owed", witness="#' at end of input")
    _ = sites


# ---------------------------------------------------------------------------------------------
# R3 dispatch / assert agreement


def _asserted_chars(fn):
    """Characters the reader asserts it starts on: ('advance'|'peek', {chars})."""
    out = []
    for a in P.walk_local(fn):
        if isinstance(a, ast.Assert) and isinstance(a.test, ast.Compare) and len(a.test.ops) == 1:
            left, op, right = a.test.left, a.test.ops[0], a.test.comparators[0]
            chars = None
            if isinstance(op, ast.Eq) and isinstance(right, ast.Constant) and isinstance(right.value, str):
                chars = {right.value}
            elif isinstance(op, ast.In) and isinstance(right, ast.Set):
                chars = {e.value for e in right.elts if isinstance(e, ast.Constant)}
            if chars is None:
                continue
            ltxt = P.un(left)
            if ltxt.endswith("reader.peek()"):
                out.append(("peek", chars))
            elif ltxt == "start":
                out.append(("start", chars))
    return out


@rule("C16.R3", floor=18)
def r3_dispatch_assert_agreement(ctx):
    """A reader registered under key K in _read_dispatch / _read_macro_dispatch asserts K on the
    character it starts on (so the asserts can never fire on any input)."""
    tree = _tree(ctx)
    fns = {n.name: n for n in tree.body if isinstance(n, P.FUNC)}
    for tbl in ("_read_dispatch", "_read_macro_dispatch"):
        d = P.module_assign(tree, tbl)
        for k, v in zip(d.keys, d.values):
            if not isinstance(k, ast.Constant):
                raise AnalysisError(f"{tbl}: non-literal key")
            key = k.value
            if isinstance(v, ast.Constant) and v.value is None:
                ctx.ob("C16.R3", f"{RD}::{tbl}[{key!r}] = None (closing delimiter)", RD, k.lineno, True)
                continue
            if isinstance(v, ast.Lambda):
                ctx.ob("C16.R3", f"{RD}::{tbl}[{key!r}] = lambda", RD, k.lineno, key == "", "" if key == "" else "lambda reader on a non-empty key")
                continue
            fn = fns.get(v.id) if isinstance(v, ast.Name) else None
            if fn is None:
                raise AnalysisError(f"{tbl}[{key!r}] names an unknown reader")
            asserted = _asserted_chars(fn)
            if not asserted:
                ctx.ob("C16.R3", f"{RD}::{tbl}[{key!r}] -> {fn.name} (no assert)", RD, fn.lineno, True, "reader does not assert its start character")
                continue
            ok = all(key in chars for _k, chars in asserted[:1])
            ctx.ob("C16.R3", f"{RD}::{tbl}[{key!r}] -> {fn.name} asserts {sorted(asserted[0][1])}", RD, fn.lineno, ok,
                   "" if ok else f"{fn.name} is registered under {key!r} but asserts {sorted(asserted[0][1])}: reading {key!r} raises AssertionError")
    # direct calls (not through a table) of a reader that asserts its start character: the caller
    # must have established that character -- a comparison of the peeked character with a member of
    # the asserted set on every path to the call (statement-level test or conditional expression)
    readers = _reader_functions(ctx)
    keys_of: dict = {}
    for tbl in ("_read_dispatch", "_read_macro_dispatch"):
        d = P.module_assign(tree, tbl)
        for k, v in zip(d.keys, d.values):
            if isinstance(v, ast.Name) and isinstance(k, ast.Constant):
                keys_of.setdefault(v.id, set()).add(k.value)
    for callee, cfn in sorted(readers.items()):
        asserted = _asserted_chars(cfn)
        if not asserted:
            continue
        chars = asserted[0][1]
        for caller, fn in sorted(readers.items()):
            g = None
            for c in P.calls(fn):
                if P.un(c.func) != callee:
                    continue

                def establishes(t):
                    for cmp_ in ast.walk(t):
                        if isinstance(cmp_, ast.Compare) and len(cmp_.ops) == 1 and isinstance(cmp_.comparators[0], ast.Constant):
                            if isinstance(cmp_.ops[0], ast.Eq) and cmp_.comparators[0].value in chars:
                                return True
                    return False
                ok = False
                # conditional expression
                for a in P.ancestors(c):
                    if a is fn:
                        break
                    if isinstance(a, ast.IfExp) and P.contains(a.body, c) and establishes(a.test):
                        ok = True
                if not ok:
                    g = g or CFG(fn)
                    nodes = [nd for nd in g.nodes if nd.ast is not None and nd.kind in ("stmt", "test") and P.contains(nd.ast, c)]

                    def guard(a, b, lab):
                        if a.kind != "test" or not isinstance(a.ast, ast.Compare) or len(a.ast.ops) != 1 or not isinstance(a.ast.comparators[0], ast.Constant):
                            return False
                        v = a.ast.comparators[0].value
                        if isinstance(a.ast.ops[0], ast.Eq):
                            return lab is True and v in chars
                        if isinstance(a.ast.ops[0], ast.NotEq):
                            return lab is False and v in chars
                        return False
                    ok = bool(nodes) and all(g.edge_dominated(nd, guard) for nd in nodes)
                    if not ok and nodes and keys_of.get(caller) and keys_of[caller] <= chars:
                        # the caller itself is only entered, through a dispatch table, on such a character:
                        # still true at the call if nothing was consumed on the way
                        al = _reader_aliases(fn)
                        # (a context manager that only wraps the block in a try -- no stream operation, no reader
                        # called -- consumes nothing)
                        inert = {n for n, f2 in readers.items() if any("contextmanager" in d for d in P.decorators(f2))
                                 and not any(_reader_op(x, _reader_aliases(f2)) in CONSUME or P.un(x.func) in readers for x in P.calls(f2))}
                        consumed = [nd for nd in g.nodes if any(_reader_op(x, al) in CONSUME or (P.un(x.func) in readers and P.un(x.func) != callee and P.un(x.func) not in inert) for x in _node_calls(nd))]
                        after = g.reach([m for nd in consumed for m, lab in nd.succ if lab != "exc"])
                        ok = not any(nd.id in after or nd in consumed for nd in nodes)
                ctx.ob("C16.R3", f"{RD}::{caller} calls {callee} (asserts {sorted(chars)}) only after establishing that character", RD, c.lineno, ok,
                       "" if ok else f"{caller} calls {callee} without having checked the next character: any other character (or end of input) raises AssertionError instead of a syntax / EOF error",
                       witness="#:a [1]  and  #:a at end of input")


# ---------------------------------------------------------------------------------------------
# R4 spans


@rule("C16.R4", floor=5)
def r4_spans_start_at_first_char(ctx):
    """A reader decorated with _with_loc records the stream position on entry; it must be entered
    with the stream at the first character of the form's text: entered from _read_dispatch (yes),
    from _read_macro_dispatch (the `#` is already consumed: span starts one column late) or
    called directly after a prefix was consumed."""
    tree = _tree(ctx)
    fns = {n.name: n for n in tree.body if isinstance(n, P.FUNC)}
    located = {n for n, f in fns.items() if any(d == "_with_loc" for d in P.decorators(f))}
    ctx.note(f"C16.R4 located readers: {sorted(located)}")
    rm = fns.get("_read_reader_macro")
    rm_located = rm is not None and "_read_reader_macro" in located
    d1 = P.module_assign(tree, "_read_dispatch")
    d2 = P.module_assign(tree, "_read_macro_dispatch")
    for k, v in zip(d1.keys, d1.values):
        if isinstance(v, ast.Name) and v.id in located:
            ctx.ob("C16.R4", f"{RD}::{v.id} entered from _read_dispatch[{k.value!r}]", RD, fns[v.id].lineno, True, "entered at the form's first character")
    for k, v in zip(d2.keys, d2.values):
        if isinstance(v, ast.Name) and v.id in located:
            ok = rm_located
            ctx.ob("C16.R4", f"{RD}::{v.id} entered from _read_macro_dispatch[{k.value!r}] after `#`", RD, fns[v.id].lineno, ok,
                   "" if ok else f"the span of `#{k.value}...` forms starts after the `#`: re-reading the text of the span yields a different form",
                   witness="#{1 2} is tagged col 1-6; `{1 2}` re-reads as a map")
    # direct calls after consuming characters
    for name, fn in fns.items():
        for c in P.calls(fn):
            callee = P.un(c.func)
            if callee in located and callee in ("_read_map", "_read_set", "_read_list", "_read_vector", "_read_function") and name not in ("_read_next",):
                consumed = any(isinstance(x.func, ast.Attribute) and x.func.attr in ("advance", "next_char") and x.lineno < c.lineno for x in P.calls(fn))
                if consumed:
                    ok = name in located or (name == "_read_namespaced_map" and rm_located)
                    ctx.ob("C16.R4", f"{RD}::{callee} called from {name} after characters were consumed", RD, c.lineno, ok,
                           "" if ok else f"{name} consumes the prefix and then calls the located reader {callee}: the recorded span omits the prefix",
                           witness="#:a{:b 1} span starts at `{`")


@rule("C16.R7", floor=2)
def r7_incomplete_before_malformed(ctx):
    """A reader that consumes a generator-reader (a function that yields forms and raises eof_error
    at end of input) must realise it completely (list()/tuple()) before it validates and raises a
    plain syntax error: otherwise unterminated input with a local defect (duplicate key) is
    classified as malformed instead of incomplete. Line comments end at every newline form the
    stream's line counter knows (\\n, \\r\\n and a lone \\r)."""
    fns = _reader_functions(ctx)
    gens = {n for n, f in fns.items() if any(isinstance(x, (ast.Yield, ast.YieldFrom)) for x in ast.walk(f)) and "eof_error" in P.un(f)}
    ctx.note(f"C16.R7 generator readers: {sorted(gens)}")
    n = 0
    for fname, fn in sorted(fns.items()):
        for c in P.calls(fn):
            if P.un(c.func) not in gens:
                continue
            n += 1
            par = P.parent(c)
            realised = isinstance(par, ast.Call) and P.un(par.func) in ("list", "tuple") and par.args and par.args[0] is c
            raises_in_fn = any(isinstance(r, ast.Raise) and r.exc is not None and "syntax_error" in P.un(r.exc) for r in ast.walk(fn))
            ok = realised or not raises_in_fn
            ctx.ob("C16.R7", f"{RD}::{fname}::{P.un(par)[:70]}", RD, c.lineno, ok,
                   "" if ok else f"{fname} validates elements while {P.un(c.func)} is still reading: `{{:a 1 :a 2` (no closing brace yet) raises a plain syntax error instead of UnexpectedEOFError")
    rc = fns.get("_read_comment")
    if rc is None:
        raise AnalysisError("anchor vanished: _read_comment")
    uses_class = any(isinstance(c.func, ast.Attribute) and P.un(c.func.value) == "newline_chars" for c in P.calls(rc))
    regexes = _regex_table(ctx)
    pat = regexes.get("newline_chars", "")
    covers = all(x in pat for x in ("\r\n", "\r", "\n"))
    ok = uses_class and covers
    ctx.ob("C16.R7", f"{RD}::_read_comment::ends at every newline form (newline_chars={pat!r})", RD, rc.lineno, ok,
           "" if ok else "a line comment no longer ends at a lone carriage return (which the stream's line counter treats as a line end): `(a ;c\\rb)` swallows the rest of the form and reports an unexpected end of input for complete text")
    if n == 0:
        raise AnalysisError("no generator-reader call sites found")


# ---------------------------------------------------------------------------------------------
# R5 termination: progress on every loop cycle, exit at end of input, no recursion without progress

CONSUME = {"next_char", "advance"}
READS = {"next_char", "advance", "peek"}
TABLE_NAMES = ("_read_dispatch", "_read_macro_dispatch")
TOP, EMPTY, SENT, NONEMPTY = "TOP", "E", "S", "NE"

R5_REVIEWED = {
    "_read_num": "entered only where begin_num_chars matched the peeked character (checked at every call site); '-' is consumed by "
                 "next_char and every other begin_num_chars character matches maybe_num_chars (checked on the two patterns), so it is consumed too",
    "_read_namespaced": "returns normally only with a non-empty identifier: identifier_literal.fullmatch('') is None -> syntax error "
                        "(checked), and every token appended was consumed in the same block (checked)",
}


def _reader_aliases(fn):
    al = {"ctx.reader"}
    for n in ast.walk(fn):
        if isinstance(n, ast.Assign) and P.un(n.value) == "ctx.reader":
            for t in n.targets:
                if isinstance(t, ast.Name):
                    al.add(t.id)
    return al


def _reader_op(call, aliases):
    if isinstance(call, ast.Call) and isinstance(call.func, ast.Attribute) and P.un(call.func.value) in aliases:
        return call.func.attr
    return None


def _tables(ctx):
    out = {}
    for tbl in TABLE_NAMES:
        v = P.module_assign(_tree(ctx), tbl)
        if not isinstance(v, ast.Dict):
            raise AnalysisError(f"anchor vanished: reader.{tbl}")
        out[tbl] = {k.value: val for k, val in zip(v.keys, v.values) if isinstance(k, ast.Constant)}
    return out


def _node_calls(nd):
    if nd.ast is None or nd.kind not in ("stmt", "test", "iter", "with"):
        return []
    if isinstance(nd.ast, (ast.FunctionDef, ast.AsyncFunctionDef, ast.ClassDef)):
        return []
    return [c for c in P.walk_local(nd.ast, include_self=True) if isinstance(c, ast.Call)]


def _certain(expr, pred) -> bool:
    """Does evaluating `expr` to completion certainly evaluate a call satisfying pred?  (an IfExp needs
    it in both arms, a BoolOp in its first operand, comprehensions and lambdas never count)"""
    if isinstance(expr, ast.Call):
        if pred(expr):
            return True
        return _certain(expr.func, pred) or any(_certain(a, pred) for a in expr.args) or any(_certain(k.value, pred) for k in expr.keywords)
    if isinstance(expr, ast.IfExp):
        return _certain(expr.test, pred) or (_certain(expr.body, pred) and _certain(expr.orelse, pred))
    if isinstance(expr, ast.BoolOp):
        return _certain(expr.values[0], pred)
    if isinstance(expr, (ast.Lambda, ast.ListComp, ast.SetComp, ast.DictComp, ast.GeneratorExp, ast.FunctionDef, ast.AsyncFunctionDef, ast.ClassDef)):
        return False
    if isinstance(expr, ast.AST):
        return any(_certain(c, pred) for c in ast.iter_child_nodes(expr))
    return False


class _Progress:
    """Which functions of the reader certainly consume at least one character before they return
    normally (least fixpoint over the call graph, seeded with the two reviewed-and-checked readers)."""

    def __init__(self, ctx, fns):
        self.fns = fns
        self.tables = _tables(ctx)
        self.regexes = _regex_table(ctx)
        # module-level constant containers of characters: NAME = frozenset("..") / set("..") / {"a", "b"} / "..."
        self.consts = {}
        for n in _tree(ctx).body:
            if isinstance(n, ast.Assign) and len(n.targets) == 1 and isinstance(n.targets[0], ast.Name):
                v = n.value
                if isinstance(v, ast.Constant) and isinstance(v.value, str):
                    self.consts[n.targets[0].id] = v.value
                elif isinstance(v, ast.Call) and P.un(v.func) in ("frozenset", "set") and len(v.args) == 1 and isinstance(v.args[0], ast.Constant) and isinstance(v.args[0].value, str):
                    self.consts[n.targets[0].id] = frozenset(v.args[0].value)
                elif isinstance(v, (ast.Set, ast.Tuple, ast.List)) and all(isinstance(e, ast.Constant) for e in v.elts):
                    self.consts[n.targets[0].id] = frozenset(e.value for e in v.elts)
        self.cfgs = {n: CFG(f) for n, f in fns.items()}
        self.aliases = {n: _reader_aliases(f) for n, f in fns.items()}
        self.peeked = {
            n: {P.un(s.targets[0]) for s in ast.walk(f) if isinstance(s, ast.Assign) and len(s.targets) == 1 and _reader_op(s.value, self.aliases[n]) == "peek"}
            for n, f in fns.items()
        }
        self.condc = self._cond_consumers()
        self.guarded = {w: self._guarded_everywhere(w) for w in self.condc}
        self.consuming = set(n for n in R5_REVIEWED if n in fns)
        changed = True
        while changed:
            changed = False
            for name in fns:
                if name in self.consuming:
                    continue
                g = self.cfgs[name]
                prog = self.progress_nodes(name)
                if g.exit.id not in g.reach([g.entry], avoid=prog, follow_exc=False):
                    # vacuous for functions that never return normally
                    self.consuming.add(name)
                    changed = True

    @staticmethod
    def _class_test(t):
        """(character-class key, variable) of a test `RX.match(v)` or `v in NAME` (NAME a module-level
        constant container), else None.  The key identifies the class: two tests with the same key
        accept exactly the same characters."""
        if isinstance(t, ast.Call) and isinstance(t.func, ast.Attribute) and t.func.attr == "match" and isinstance(t.func.value, ast.Name) and len(t.args) == 1 and isinstance(t.args[0], ast.Name):
            return t.func.value.id, t.args[0].id
        if isinstance(t, ast.Compare) and len(t.ops) == 1 and isinstance(t.ops[0], ast.In) and isinstance(t.left, ast.Name) and isinstance(t.comparators[0], ast.Name):
            return "in:" + t.comparators[0].id, t.left.id
        return None

    def _guard_pred(self, name, rx):
        peeked = self.peeked[name]

        def guard(a, b, lab):
            ct = self._class_test(a.ast) if a.kind == "test" else None
            return ct is not None and lab is True and ct[0] == rx and ct[1] in peeked
        return guard

    def _cond_consumers(self):
        """{function: regex}: consumes >= 1 character whenever the regex matches the peeked character:
        `c = reader.peek(); while RX.match(c): c = reader.next_char()`, or a function whose first
        statement calls such a function."""
        out = {}
        for name, fn in self.fns.items():
            al = self.aliases[name]
            loops = [s for s in fn.body if isinstance(s, ast.While)]
            if len(loops) != 1:
                continue
            w = loops[0]
            ct = self._class_test(w.test)
            if ct is None:
                continue
            key, var = ct
            before = fn.body[: fn.body.index(w)]
            init = [s for s in before if isinstance(s, ast.Assign) and P.un(s.targets[0]) == var and _reader_op(s.value, al) == "peek"]
            # the body (straight-line top-level statements) consumes and re-reads the loop variable
            consumes = [s for s in w.body if isinstance(s, (ast.Assign, ast.Expr)) and any(_reader_op(c, al) in CONSUME for c in P.calls(s))]
            step = [s for s in w.body if isinstance(s, ast.Assign) and P.un(s.targets[0]) == var and _reader_op(s.value, al) in READS]
            if init and step and consumes and all(isinstance(s, (ast.Assign, ast.Expr)) for s in w.body):
                out[name] = key
        changed = True
        while changed:
            changed = False
            for name, fn in self.fns.items():
                if name in out:
                    continue
                body = [s for s in fn.body if not (isinstance(s, ast.Expr) and isinstance(s.value, ast.Constant))]
                if body and isinstance(body[0], ast.Expr) and isinstance(body[0].value, ast.Call) and P.un(body[0].value.func) in out:
                    out[name] = out[P.un(body[0].value.func)]
                    changed = True
        return out

    def call_sites(self, callee):
        for name in self.fns:
            for nd in self.cfgs[name].nodes:
                for c in _node_calls(nd):
                    if P.un(c.func) == callee:
                        yield name, nd, c

    def _guarded_everywhere(self, w):
        rx = self.condc[w]
        sites = list(self.call_sites(w))
        return bool(sites) and all(self.cfgs[name].edge_dominated(nd, self._guard_pred(name, rx)) for name, nd, _ in sites)

    def table_of_call(self, name, c):
        """`read_fn(ctx)` where `read_fn := TABLE.get(char)`."""
        if isinstance(c.func, ast.Name):
            for n in ast.walk(self.fns[name]):
                if isinstance(n, ast.NamedExpr) and n.target.id == c.func.id and isinstance(n.value, ast.Call) and isinstance(n.value.func, ast.Attribute) and n.value.func.attr == "get" and P.un(n.value.func.value) in self.tables:
                    return P.un(n.value.func.value)
        return None

    def progress_nodes(self, name):
        fn, g, al = self.fns[name], self.cfgs[name], self.aliases[name]
        first = next((s for s in fn.body if not (isinstance(s, ast.Expr) and isinstance(s.value, ast.Constant))), None)
        out = []
        for nd in g.nodes:
            if nd.ast is None or nd.kind not in ("stmt", "test", "iter", "with") or isinstance(nd.ast, (ast.FunctionDef, ast.AsyncFunctionDef, ast.ClassDef)):
                continue

            def pred(c, nd=nd):
                if _reader_op(c, al) in CONSUME:
                    return True
                callee = P.un(c.func)
                if callee in self.consuming:
                    return True
                if callee in self.condc:
                    rx = self.condc[callee]
                    if g.edge_dominated(nd, self._guard_pred(name, rx)):
                        return True
                    # inside a function that is itself entered only under the guard
                    if name in self.condc and self.condc[name] == rx and self.guarded.get(name) and nd.ast is first:
                        return True
                t = self.table_of_call(name, c)
                if t is not None:
                    return all(
                        (isinstance(v, ast.Name) and v.id in self.consuming) or (isinstance(v, ast.Constant) and v.value is None) or (k == "" and isinstance(v, ast.Lambda))
                        for k, v in self.tables[t].items()
                    )
                return False
            target = nd.ast.items[0].context_expr if nd.kind == "with" else (nd.ast.iter if nd.kind == "iter" else nd.ast)
            if _certain(target, pred):
                out.append(nd)
        return out

    def first_calls(self, name):
        """Reader functions that `name` may call before it has consumed anything."""
        g = self.cfgs[name]
        prog = set(n.id for n in self.progress_nodes(name))
        r = g.reach([g.entry], avoid_edges=lambda a, b, lab: a.id in prog and lab != "exc")
        out = set()
        for i in r:
            for c in _node_calls(g.nodes[i]):
                callee = P.un(c.func)
                if callee in self.fns:
                    out.add(callee)
                t = self.table_of_call(name, c)
                if t:
                    out |= {v.id for v in self.tables[t].values() if isinstance(v, ast.Name)}
        return out


class _EofMode:
    """Abstract execution of reader functions in the state 'the stream is exhausted': every
    peek/next_char/advance returns ''.  Values: '' (EMPTY), the ctx.eof sentinel (SENT), constants,
    dispatch-table entries, TOP.  Atomic branch tests over those values are decided (regex matches
    on '' are computed from the pattern constants); everything else follows both edges."""

    def __init__(self, pr: _Progress):
        self.pr = pr
        self.fns, self.cfgs, self.regexes, self.tables = pr.fns, pr.cfgs, pr.regexes, pr.tables
        self.memo = {}
        self.active = set()
        # 'a few characters, then the end' mode (see r9): env['__n__'] = characters left (None = unknown);
        # env['__e__'] = the last decided branch was decided by the end-of-input value
        self._empty_seen = False
        self.eof_decided_raises = []

    def _read(self, op, env):
        if "__n__" not in env:
            self._empty_seen = True
            return EMPTY
        n = env["__n__"]
        if n is None:
            return TOP
        if op == "peek":
            left = n
        elif op == "advance":
            left, env["__n__"] = n, max(n - 1, 0)
        else:  # next_char moves first
            env["__n__"] = left = max(n - 1, 0)
        if left > 0:
            return NONEMPTY
        self._empty_seen = True
        return EMPTY

    def ev(self, e, env, name):
        if isinstance(e, ast.NamedExpr):
            v = self.ev(e.value, env, name)
            env[e.target.id] = v
            return v
        if isinstance(e, ast.Name):
            v = env.get(e.id, TOP)
            if v == EMPTY:
                self._empty_seen = True
            return v
        if isinstance(e, ast.Constant):
            return ("c", e.value)
        if isinstance(e, ast.Attribute) and P.un(e) == "ctx.eof":
            return SENT
        if isinstance(e, ast.Call):
            for a in e.args:
                if isinstance(a, ast.NamedExpr):
                    self.ev(a, env, name)
            if _reader_op(e, self.pr.aliases[name]) in READS:
                return self._read(_reader_op(e, self.pr.aliases[name]), env)
            f = e.func
            if P.un(f) in ("cast", "typing.cast") and len(e.args) == 2:
                return self.ev(e.args[1], env, name)
            if isinstance(f, ast.Attribute) and f.attr == "get" and P.un(f.value) in self.tables and e.args:
                if self.ev(e.args[0], env, name) == EMPTY:
                    self._empty_seen = True
                    t = self.tables[P.un(f.value)]
                    return ("tv", t[""]) if "" in t else ("c", None)
                return TOP
            if isinstance(f, ast.Name):
                tgt = env.get(f.id)
                if isinstance(tgt, tuple) and tgt[0] == "tv":
                    node = tgt[1]
                    if isinstance(node, ast.Lambda):
                        return SENT if P.un(node.body) == "ctx.eof" else TOP
                    if isinstance(node, ast.Name) and node.id in self.fns:
                        return self.ret_value(node.id)
                    return TOP
                if f.id in self.fns:
                    if env.get("__n__", 0) != 0:
                        # characters are left (or unknown): what the callee reads is not modelled
                        env["__n__"] = None
                        return TOP
                    return self.ret_value(f.id)
        return TOP

    def ret_value(self, name):
        rets, _ = self.summary(name)
        return next(iter(rets)) if len(rets) == 1 else TOP

    def truth(self, e, env, name):
        if isinstance(e, ast.UnaryOp) and isinstance(e.op, ast.Not):
            t = self.truth(e.operand, env, name)
            return None if t is None else (not t)
        if isinstance(e, ast.Compare) and len(e.ops) == 1:
            left = self.ev(e.left, env, name)
            rnode, op = e.comparators[0], e.ops[0]
            if isinstance(op, (ast.In, ast.NotIn)):
                res = None
                if left == EMPTY:
                    if isinstance(rnode, (ast.Set, ast.Tuple, ast.List)) and all(isinstance(x, ast.Constant) for x in rnode.elts):
                        res = "" in [x.value for x in rnode.elts]
                    elif P.un(rnode) in self.tables:
                        res = "" in self.tables[P.un(rnode)]
                    elif isinstance(rnode, ast.Name) and rnode.id in self.pr.consts:
                        res = "" in self.pr.consts[rnode.id]
                if res is None:
                    return None
                return res if isinstance(op, ast.In) else not res
            right = self.ev(rnode, env, name)

            def conc(v):
                if v == EMPTY:
                    return True, ""
                if isinstance(v, tuple) and v[0] == "c":
                    return True, v[1]
                return False, None
            if isinstance(op, (ast.Eq, ast.NotEq)) and {left, right} & {NONEMPTY} and ("c", "") in (left, right):
                return isinstance(op, ast.NotEq)
            if isinstance(op, (ast.Eq, ast.NotEq)):
                (kl, vl), (kr, vr) = conc(left), conc(right)
                if kl and kr:
                    res = vl == vr
                    return res if isinstance(op, ast.Eq) else not res
                return None
            if isinstance(op, (ast.Is, ast.IsNot)):
                res = None
                none = ("c", None)
                if left == SENT and right == SENT:
                    res = True
                elif isinstance(left, tuple) and left[0] == "tv" and right == none:
                    res = False
                elif left == none and right == none:
                    res = True
                elif left == EMPTY and right == none:
                    res = False
                if res is None:
                    return None
                return res if isinstance(op, ast.Is) else not res
            return None
        if isinstance(e, ast.Call) and isinstance(e.func, ast.Attribute):
            recv = e.func.value
            if isinstance(recv, ast.Name) and recv.id in self.regexes and e.func.attr in ("match", "fullmatch", "search") and len(e.args) == 1:
                if self.ev(e.args[0], env, name) == EMPTY:
                    return getattr(re.compile(self.regexes[recv.id]), e.func.attr)("") is not None
                return None
            if e.func.attr in ("isnumeric", "isalnum", "isdigit", "isalpha", "isspace", "isdecimal", "isupper", "islower") and not e.args:
                return False if self.ev(recv, env, name) == EMPTY else None
        v = self.ev(e, env, name)
        if v == EMPTY:
            self._empty_seen = True
            return False
        if v == NONEMPTY:
            return True
        if isinstance(v, tuple) and v[0] == "c":
            return bool(v[1])
        if isinstance(v, tuple) and v[0] == "tv":
            return True
        return None

    def step(self, nd, env, name):
        env = dict(env)
        a = nd.ast
        labels = None
        normal_ok = True
        self._empty_seen = False
        if nd.kind == "test":
            t = self.truth(a, env, name)
            if t is not None:
                labels = {t}
            if "__n__" in env:
                env["__e__"] = bool(t is not None and self._empty_seen)
        elif nd.kind == "stmt" and a is not None and not isinstance(a, (ast.FunctionDef, ast.AsyncFunctionDef, ast.ClassDef)):
            if isinstance(a, ast.Assign) and len(a.targets) == 1 and isinstance(a.targets[0], ast.Name):
                env[a.targets[0].id] = self.ev(a.value, env, name)
            elif isinstance(a, ast.AnnAssign) and a.value is not None and isinstance(a.target, ast.Name):
                env[a.target.id] = self.ev(a.value, env, name)
            elif isinstance(a, (ast.Assign, ast.AugAssign, ast.AnnAssign)):
                for t in (a.targets if isinstance(a, ast.Assign) else [a.target]):
                    for n in ast.walk(t):
                        if isinstance(n, ast.Name):
                            env[n.id] = TOP
            else:
                for n in P.walk_local(a, include_self=True):
                    if isinstance(n, ast.NamedExpr):
                        self.ev(n, env, name)
            for c in P.walk_local(a, include_self=True):
                if isinstance(c, ast.Call) and isinstance(c.func, ast.Name) and c.func.id in self.fns and env.get("__n__", 0) == 0:
                    if not self.summary(c.func.id)[0]:
                        normal_ok = False  # the callee cannot return normally at end of input
        elif nd.kind == "iter" and a is not None:
            for n in ast.walk(a.target):
                if isinstance(n, ast.Name):
                    env[n.id] = TOP
        elif nd.kind == "with" and a is not None:
            for it in a.items:
                if it.optional_vars is not None:
                    for n in ast.walk(it.optional_vars):
                        if isinstance(n, ast.Name):
                            env[n.id] = TOP
        elif nd.kind == "handler" and a is not None:
            if a.name:
                env[a.name] = TOP
            if "__n__" in env:
                env["__e__"] = False  # what is raised in a handler is decided by the exception
        succ = []
        for m, lab in nd.succ:
            if lab == "exc":
                succ.append(m)
            elif labels is not None and lab in (True, False) and lab not in labels:
                continue
            elif normal_ok:
                succ.append(m)
        return env, succ

    def explore(self, name, start, env0):
        """-> (abstract return values, may raise, a cycle of CFG nodes in the state graph or None)"""
        g = self.cfgs[name]
        rets, raises, cyc = set(), False, None

        def key(nd, env):
            return nd.id, frozenset(env.items())

        def expand(k):
            nd = g.nodes[k[0]]
            if nd is g.exit or nd is g.raise_:
                return []
            env = dict(k[1])
            if nd.kind == "stmt" and isinstance(nd.ast, ast.Return):
                rets.add(self.ev(nd.ast.value, dict(env), name) if nd.ast.value is not None else ("c", None))
            if nd.kind == "stmt" and isinstance(nd.ast, ast.Raise) and nd.ast.exc is not None and env.get("__e__") and "syntax_error" in P.un(nd.ast.exc):
                self.eof_decided_raises.append((name, nd.ast))
            env2, ss = self.step(nd, env, name)
            return [key(m, env2) for m in ss]
        root = key(start, env0)
        color = {root: 1}
        path = [root]
        st = [(root, iter(expand(root)))]
        while st:
            k, it = st[-1]
            nxt = next(it, None)
            if nxt is None:
                color[k] = 2
                st.pop()
                path.pop()
                continue
            if nxt[0] == g.raise_.id:
                raises = True
            if nxt[0] == g.exit.id and not (g.nodes[k[0]].kind == "stmt" and isinstance(g.nodes[k[0]].ast, ast.Return)):
                rets.add(("c", None))
            c = color.get(nxt)
            if c == 1:
                if cyc is None:
                    cyc = [g.nodes[p[0]] for p in path[path.index(nxt):]]
                continue
            if c == 2:
                continue
            color[nxt] = 1
            path.append(nxt)
            st.append((nxt, iter(expand(nxt))))
        return rets, raises, cyc

    def summary(self, name):
        if name in self.memo:
            return self.memo[name]
        if name in self.active:
            return {TOP}, True
        fn = self.fns[name]
        if any(isinstance(x, (ast.Yield, ast.YieldFrom)) for x in P.walk_local(fn)):
            self.memo[name] = ({TOP}, True)
            return self.memo[name]
        self.active.add(name)
        rets, raises, _ = self.explore(name, self.cfgs[name].entry, {})
        self.active.discard(name)
        self.memo[name] = (rets, raises)
        return self.memo[name]


def _find_cycle(edges):
    color = {}

    def dfs(u, path):
        color[u] = 1
        path.append(u)
        for v in sorted(edges.get(u, ())):
            if color.get(v) == 1:
                return path[path.index(v):] + [v]
            if color.get(v) is None:
                r = dfs(v, path)
                if r:
                    return r
        path.pop()
        color[u] = 2
        return None
    for u in sorted(edges):
        if color.get(u) is None:
            r = dfs(u, [])
            if r:
                return r
    return None


@rule("C16.R5", floor=36)
def r5_reading_terminates(ctx):
    """Termination of reading, split into the parts visible in the code: (a) every cycle of every
    `while` loop of a reader function consumes at least one character (a direct next_char/advance
    on the stream, or a call of a reader proven -- least fixpoint -- to consume before it returns),
    and never un-reads with pushback on the way round; (b) in the state 'stream exhausted' (all reads
    return '') no loop has a cycle in its abstract state graph, i.e. every loop exits at end of
    input; (c) no recursion between stream readers re-enters before anything was consumed; (d) the
    stream's next_char moves on every path and advance goes through it."""
    fns = _reader_functions(ctx)
    pr = _Progress(ctx, fns)
    ctx.note(f"C16.R5 consuming readers: {sorted(pr.consuming)}; conditional consumers: {pr.condc}")

    # reviewed seeds: their stated reasons are checked
    if "_read_num" in fns:
        rx = pr.regexes
        sites = list(pr.call_sites("_read_num"))
        ok_sites = bool(sites) and all(pr.cfgs[n].edge_dominated(nd, pr._guard_pred(n, "begin_num_chars")) for n, nd, _ in sites)
        ok_rx = False
        if "begin_num_chars" in rx and "maybe_num_chars" in rx:
            b, m = re.compile(rx["begin_num_chars"]), re.compile(rx["maybe_num_chars"])
            ok_rx = all(ch == "-" or m.match(ch) for ch in map(chr, range(0x3000)) if b.match(ch))
        al = pr.aliases["_read_num"]
        dash = [t for t in ast.walk(fns["_read_num"]) if isinstance(t, ast.If) and P.un(t.test) in ("char == '-'", "'-' == char") and any(_reader_op(c, al) in CONSUME for c in P.calls(t.body[0]))]
        ok = ok_sites and ok_rx and bool(dash)
        ctx.ob("C16.R5", f"{RD}::_read_num::consumes its first character (reviewed: guard at call sites, begin_num_chars <= maybe_num_chars + '-')", RD, fns["_read_num"].lineno, ok,
               "" if ok else "the reviewed reason no longer holds: _read_num may return without having consumed anything, so a caller's loop may spin",
               witness=R5_REVIEWED["_read_num"])
    else:
        raise AnalysisError("anchor vanished: _read_num")
    if "_read_namespaced" in fns:
        fn = fns["_read_namespaced"]
        al = pr.aliases["_read_namespaced"]
        ok_rx = "identifier_literal" in pr.regexes and re.compile(pr.regexes["identifier_literal"]).fullmatch("") is None
        ok_raise = any(isinstance(t, ast.If) and "identifier_literal.fullmatch(" in P.un(t.test) and "is None" in P.un(t.test) and isinstance(t.body[0], ast.Raise) for t in ast.walk(fn))
        appends = [c for c in P.calls(fn) if isinstance(c.func, ast.Attribute) and c.func.attr == "append"]
        ok_app = bool(appends) and all(any(_reader_op(c2, al) in CONSUME for s in P.block_of(P.stmt_of(c)) for c2 in P.calls(s)) for c in appends)
        ok = ok_rx and ok_raise and ok_app
        ctx.ob("C16.R5", f"{RD}::_read_namespaced::returns only after consuming a non-empty token (reviewed)", RD, fn.lineno, ok,
               "" if ok else "the reviewed reason no longer holds: _read_namespaced may return an empty or unconsumed token, so a caller's loop may spin",
               witness=R5_REVIEWED["_read_namespaced"])
    else:
        raise AnalysisError("anchor vanished: _read_namespaced")

    ok = "_read_next" in pr.consuming
    ctx.ob("C16.R5", f"{RD}::_read_next::consumes at least one character or returns the EOF sentinel", RD, fns["_read_next"].lineno, ok,
           "" if ok else "some reader reachable from _read_next's dispatch returns normally without consuming: not consuming: "
           + ", ".join(sorted(v.id for t in pr.tables.values() for v in t.values() if isinstance(v, ast.Name) and v.id not in pr.consuming)))

    # (a) + (b) per loop
    em = _EofMode(pr)
    nloops = 0
    for name, fn in sorted(fns.items()):
        g = pr.cfgs[name]
        al = pr.aliases[name]
        heads = [nd for nd in g.nodes if nd.kind == "join" and isinstance(nd.ast, ast.While)]
        if not heads:
            continue
        prog = pr.progress_nodes(name)
        push = [nd for nd in g.nodes if any(_reader_op(c, al) == "pushback" for c in _node_calls(nd))]
        for i, h in enumerate(sorted(heads, key=lambda n: n.line)):
            nloops += 1
            tag = f"{RD}::{name}::while#{i + 1} `{P.un(h.ast.test)[:50]}`"
            spins = g.can_reach_without(h, [h], prog)
            why = ""
            if spins:
                p = g.path_example(h, h, avoid=prog)
                from ..pycfg import describe_path
                why = "a cycle of this loop consumes nothing from the stream, so the same character is seen again forever: " + describe_path(p)
            ctx.ob("C16.R5", tag + " consumes on every cycle", RD, h.line, not spins, why)
            body = g.reach([m for m, _ in h.succ])
            unread = [p for p in push if p.id in body and h.id in g.reach([p])]
            ctx.ob("C16.R5", tag + " no pushback on a cycle", RD, h.line, not unread,
                   "" if not unread else f"pushback at line {unread[0].line} lies on a cycle of the loop: the character consumed in this iteration is un-read again")
            _, _, cyc = em.explore(name, h, {})
            ctx.ob("C16.R5", tag + " exits at end of input", RD, h.line, cyc is None,
                   "" if cyc is None else "once the stream is exhausted (every read returns '') the loop does not exit: "
                   + " -> ".join(f"L{n.line}" for n in cyc if n.kind != "join"),
                   witness="input ending inside this construct")
    if nloops == 0:
        raise AnalysisError("no while loops found in the reader")

    # (c) recursion
    stream = {n for n, f in fns.items() if any(_reader_op(c, pr.aliases[n]) for c in P.calls(f))}
    changed = True
    while changed:
        changed = False
        for n, f in fns.items():
            if n not in stream and any(P.un(c.func) in stream for c in P.calls(f)):
                stream.add(n)
                changed = True
    if "_read_next" in stream:
        stream |= {v.id for t in pr.tables.values() for v in t.values() if isinstance(v, ast.Name) and v.id in fns}
    edges = {n: {m for m in pr.first_calls(n) if m in stream} for n in stream}
    cyc = _find_cycle(edges)
    ctx.ob("C16.R5", f"{RD}::no recursion between stream readers before a character is consumed ({len(stream)} readers)", RD, 0, cyc is None,
           "" if cyc is None else "readers can re-enter each other without consuming: " + " -> ".join(cyc))

    # (d) the stream itself
    tree = _tree(ctx)
    nc = P.find_def(tree, "StreamReader.next_char")
    adv = P.find_def(tree, "StreamReader.advance")
    if nc is None or adv is None:
        raise AnalysisError("anchor vanished: StreamReader.next_char/advance")
    g = CFG(nc)
    moves = [nd for nd in g.nodes if nd.kind == "stmt" and (
        (isinstance(nd.ast, ast.AugAssign) and P.un(nd.ast.target) == "self._idx" and isinstance(nd.ast.op, ast.Add))
        or any(isinstance(c.func, ast.Attribute) and c.func.attr == "append" and P.un(c.func.value) == "self._buffer" for c in _node_calls(nd)))]
    ok = bool(moves) and g.exit.id not in g.reach([g.entry], avoid=moves, follow_exc=False)
    ctx.ob("C16.R5", f"{RD}::StreamReader.next_char moves the read position on every path", RD, nc.lineno, ok,
           "" if ok else "a path through next_char neither steps the pushback index nor appends the next character")
    g = CFG(adv)
    calls = [nd for nd in g.nodes if any(P.un(c.func) == "self.next_char" for c in _node_calls(nd))]
    ok = bool(calls) and g.exit.id not in g.reach([g.entry], avoid=calls, follow_exc=False)
    ctx.ob("C16.R5", f"{RD}::StreamReader.advance goes through next_char", RD, adv.lineno, ok, "" if ok else "advance can return without moving the read position")


# ---------------------------------------------------------------------------------------------
# R6 REPL cue


@rule("C16.R6", floor=2)
def r6_repl_cue(ctx):
    """prompt.py: the enter handler maps exactly UnexpectedEOFError to 'insert newline' and the
    broader SyntaxError to 'report', in that order; UnexpectedEOFError subclasses SyntaxError and
    ctx.eof_error constructs it."""
    pt = ctx.py(PROMPT)
    tries = [t for t in ast.walk(pt) if isinstance(t, ast.Try) and any("read_str" in P.un(s) for s in t.body)]
    if not tries:
        raise AnalysisError("anchor vanished: prompt.py enter handler try")
    t = tries[0]
    types = [P.un(h.type).split(".")[-1] if h.type is not None else "*" for h in t.handlers]
    ok = types[:2] == ["UnexpectedEOFError", "SyntaxError"]
    ctx.ob("C16.R6", f"{PROMPT}::enter handler order {types}", PROMPT, t.lineno, ok, "" if ok else "UnexpectedEOFError is not handled before the broader SyntaxError: incomplete input would be reported as an error")
    h0 = t.handlers[0]
    ok = any(isinstance(c.func, ast.Attribute) and c.func.attr == "insert_text" for c in P.calls(h0))
    ctx.ob("C16.R6", f"{PROMPT}::UnexpectedEOFError -> insert newline", PROMPT, h0.lineno, ok, "" if ok else "the EOF handler no longer continues the input")
    tree = _tree(ctx)
    ue = P.find_def(tree, "UnexpectedEOFError")
    ok = ue is not None and any(P.un(b) == "SyntaxError" for b in ue.bases)
    ctx.ob("C16.R6", f"{RD}::UnexpectedEOFError(SyntaxError)", RD, getattr(ue, "lineno", 0), ok, "" if ok else "UnexpectedEOFError is not a SyntaxError subclass")
    ee = P.find_def(tree, "ReaderContext.eof_error")
    se = P.find_def(tree, "ReaderContext.syntax_error")
    ok = ee is not None and "UnexpectedEOFError(" in P.un(ee) and se is not None and "UnexpectedEOFError" not in P.un(se)
    ctx.ob("C16.R6", f"{RD}::ctx.eof_error builds UnexpectedEOFError; ctx.syntax_error does not", RD, getattr(ee, "lineno", 0), ok, "" if ok else "eof_error/syntax_error construct the wrong classes")
    for fn in (ee, se):
        if fn is not None:
            ok = "line=" in P.un(fn) and "col=" in P.un(fn)
            ctx.ob("C16.R6", f"{RD}::{fn.name} carries line and col", RD, fn.lineno, ok, "" if ok else "the error is built without line/col")


def _guard_implies_isinstance(fns, test, var, tname):
    """Is `test` (taken on its True outcome) enough for isinstance(var, tname)?  Either the test
    itself, or a call of a module function all of whose returns are `isinstance(<param>, T) and ...`
    (or the constant False) with <param> the parameter that receives var."""
    if P.un(test) == f"isinstance({var}, {tname})":
        return True
    if isinstance(test, ast.BoolOp) and isinstance(test.op, ast.And):
        return any(_guard_implies_isinstance(fns, v, var, tname) for v in test.values)
    if isinstance(test, ast.Call) and isinstance(test.func, ast.Name) and test.func.id in fns:
        g = fns[test.func.id]
        pos = next((i for i, a in enumerate(test.args) if P.un(a) == var), None)
        if pos is None or pos >= len(g.args.args):
            return False
        p = g.args.args[pos].arg
        rets = [r for r in ast.walk(g) if isinstance(r, ast.Return) and r.value is not None]

        def implies(v):
            if isinstance(v, ast.Constant) and v.value is False:
                return True
            if P.un(v) == f"isinstance({p}, {tname})":
                return True
            return isinstance(v, ast.BoolOp) and isinstance(v.op, ast.And) and any(implies(x) for x in v.values)
        return bool(rets) and all(implies(r.value) for r in rets)
    return False


@rule("C16.R8", floor=8)
def r8_input_is_validated_with_syntax_errors(ctx):
    """What the text can make false is tested with a raise of a syntax error, never assumed:
    (a) an `assert isinstance(v, T)` on the result of a reader call needs a dominating test that
        implies it -- otherwise text decides whether AssertionError escapes;
    (b) a data reader taken from the reader tables is called with whatever form followed the tag:
        the call sits in a handler that turns TypeError / ValueError into a syntax error;
    (c) a form that came from the text is indexed by a constant only after its length was tested;
    (d) every raw _read_next result that is embedded in a form is first compared with the COMMENT
        sentinel (or the comment-filtering readers are used);
    (e) the character reader answers an empty token, which only end of input can produce, with
        eof_error."""
    fns = _reader_functions(ctx)
    readers = {n for n in fns if n.startswith("_read")}
    n_a = n_c = n_d = 0
    for fname, fn in sorted(fns.items()):
        g = None
        # (a)
        for a in ast.walk(fn):
            if not (isinstance(a, ast.Assert) and isinstance(a.test, ast.Call) and P.un(a.test.func) == "isinstance" and isinstance(a.test.args[0], ast.Name)):
                continue
            var, tname = a.test.args[0].id, P.un(a.test.args[1])
            srcs = [x for x in ast.walk(fn) if isinstance(x, ast.Assign) and any(isinstance(t, ast.Name) and t.id == var for t in x.targets) and isinstance(x.value, ast.Call) and P.un(x.value.func) in readers]
            if not srcs:
                continue
            n_a += 1
            g = g or CFG(fn)
            nodes = [nd for nd in g.nodes if nd.ast is a]

            def implied(t, _b, lab, var=var, tname=tname):
                return t.kind == "test" and lab is True and _guard_implies_isinstance(fns, t.ast, var, tname)
            ok = bool(nodes) and all(g.edge_dominated(nd, implied) for nd in nodes)
            ctx.ob("C16.R8", f"{RD}::{fname}::assert isinstance({var}, {tname}) on a value read from the text", RD, a.lineno, ok,
                   "" if ok else f"`{var}` comes from {P.un(srcs[0].value.func)}(), which also returns other kinds of value, and nothing before the assert rules them out: the text decides whether AssertionError escapes the reader",
                   witness="(read-string \"#nil 1\") => AssertionError")
        # (c)
        params = {x.arg for x in fn.args.args} - {"ctx"}
        loopvars = {t.id for l in ast.walk(fn) if isinstance(l, ast.For) and isinstance(l.iter, ast.Name) and l.iter.id in params for t in ast.walk(l.target) if isinstance(t, ast.Name)}
        for s in ast.walk(fn):
            if not (isinstance(s, ast.Subscript) and isinstance(s.ctx, ast.Load) and isinstance(s.slice, ast.Constant) and isinstance(s.slice.value, int) and isinstance(s.value, ast.Name) and s.value.id in params | loopvars):
                continue
            var, k = s.value.id, s.slice.value
            n_c += 1
            g = g or CFG(fn)
            nodes = [nd for nd in g.nodes if nd.ast is not None and nd.kind in ("stmt", "test", "iter") and P.contains(nd.ast, s)]

            def long_enough(t, _b, lab, var=var, k=k):
                if t.kind != "test" or not isinstance(t.ast, ast.Compare) or len(t.ast.ops) != 1 or P.un(t.ast.left) != f"len({var})" or not isinstance(t.ast.comparators[0], ast.Constant):
                    return False
                n, op = t.ast.comparators[0].value, t.ast.ops[0]
                if isinstance(op, ast.NotEq):
                    return lab is False and n > k
                if isinstance(op, ast.Eq):
                    return lab is True and n > k
                if isinstance(op, ast.Gt):
                    return lab is True and n >= k
                if isinstance(op, ast.GtE):
                    return lab is True and n > k
                if isinstance(op, ast.Lt):
                    return lab is False and n > k
                return False
            handlers = _enclosing_handlers(s, fn)
            ok = (bool(nodes) and all(g.edge_dominated(nd, long_enough) for nd in nodes)) or any(_handler_covers(h, "IndexError") and _handler_raises_syntax(h) for h in handlers)
            ctx.ob("C16.R8", f"{RD}::{fname}::{P.un(s)} after a length test", RD, s.lineno, ok,
                   "" if ok else f"`{P.un(s)}` indexes a form from the text whose length nothing has tested: a shorter form raises IndexError out of the reader",
                   witness="(read-string \"`(basilisp.core/unquote)\") => IndexError")
        # (d)
        if fname not in ("_read_next_consuming_comment", "_read_next_consuming_whitespace", "_read_next"):
            for x in ast.walk(fn):
                if isinstance(x, ast.Assign) and isinstance(x.value, ast.Call) and P.un(x.value.func) == "_read_next" and isinstance(x.targets[0], ast.Name):
                    var = x.targets[0].id
                    n_d += 1
                    tested = any((isinstance(c, ast.Compare) and P.un(c.left) == var and any(P.un(k) == "COMMENT" for k in c.comparators)) or
                                 (isinstance(c, ast.Call) and P.un(c.func) == "isinstance" and P.un(c.args[0]) == var and "Comment" in P.un(c.args[1])) for c in ast.walk(fn))
                    ctx.ob("C16.R8", f"{RD}::{fname}::{var} = _read_next(ctx) is compared with the COMMENT sentinel", RD, x.lineno, tested,
                           "" if tested else f"`{var}` may be the COMMENT sentinel (a ; comment, #_ form or unselected reader conditional was read) and is embedded in the form as it is: the form returned contains a reader-internal object, not Lisp data",
                           witness="(read-string \"#f \\\"{#_x y}\\\"\") => (basilisp.core/str \"\" <Comment> \"\")")
    # (b)
    rt = fns.get("_resolve_tagged_literal")
    if rt is None:
        raise AnalysisError("anchor vanished: reader._resolve_tagged_literal")
    table_vars = {t.id for a in ast.walk(rt) if isinstance(a, ast.Assign) and isinstance(a.value, ast.Subscript) and "data_readers" in P.un(a.value.value).lower() for t in a.targets if isinstance(t, ast.Name)}
    calls = [c for c in P.calls(rt) if isinstance(c.func, ast.Name) and c.func.id in table_vars]
    if not calls:
        raise AnalysisError("_resolve_tagged_literal no longer calls a data reader taken from the tables")
    for c in calls:
        handlers = _enclosing_handlers(c, rt)
        uncovered = sorted(e for e in ("TypeError", "ValueError") if not any(_handler_covers(h, e) and _handler_raises_syntax(h) for h in handlers))
        ctx.ob("C16.R8", f"{RD}::_resolve_tagged_literal::{P.un(c)} inside a handler for TypeError and ValueError", RD, c.lineno, not uncovered,
               "" if not uncovered else f"the data reader is a constructor applied to whatever form followed the tag; {uncovered} raised for a form of the wrong kind escapes the reader",
               witness="(read-string \"#queue 5\") => TypeError")
    # (e)
    rc = fns.get("_read_character")
    if rc is None:
        raise AnalysisError("anchor vanished: reader._read_character")
    gc = CFG(rc)
    tok = next((P.un(a.targets[0]) for a in ast.walk(rc) if isinstance(a, ast.Assign) and P.un(a.value) in ("''.join(s)", '"".join(s)')), None)
    if tok is None:
        raise AnalysisError("_read_character no longer joins its token from the characters read")
    rets = [nd for nd in gc.nodes if nd.kind == "stmt" and isinstance(nd.ast, ast.Return) and nd.ast.value is not None and P.un(nd.ast.value) == tok]

    def non_empty(t, _b, lab, tok=tok):
        txt = P.un(t.ast) if t.kind == "test" else ""
        return (txt in (f"{tok} == ''", f"not {tok}", f"len({tok}) == 0") and lab is False) or (txt in (tok, f"{tok} != ''", f"len({tok}) > 0") and lab is True)
    ok = bool(rets) and all(gc.edge_dominated(r, non_empty) for r in rets)
    raises_eof = any(isinstance(r, ast.Raise) and "eof_error" in P.un(r) for i in ast.walk(rc) if isinstance(i, ast.If) and tok in P.un(i.test) for r in i.body)
    ctx.ob("C16.R8", f"{RD}::_read_character::an empty token is an unexpected end of input", RD, rc.lineno, ok and raises_eof,
           "" if ok and raises_eof else f"`return {tok}` is reachable with an empty token, which only a backslash at the very end of the input produces: it reads as the empty string instead of raising eof_error",
           witness="(read-string \"\\\\\") => \"\"")
    # (f) the var form names a symbol: what #' is followed by is tested to be one (or an unquote, inside
    # a template) before (var ...) is built -- read with the symbol reader unconditionally, any text
    # becomes a symbol whose name is that text
    rv = fns.get("_read_var_macro")
    if rv is None:
        raise AnalysisError("anchor vanished: reader._read_var_macro")
    gv = CFG(rv)
    vrets = [nd for nd in gv.nodes if nd.kind == "stmt" and isinstance(nd.ast, ast.Return) and nd.ast.value is not None and "_VAR" in P.un(nd.ast.value)]
    if not vrets:
        raise AnalysisError("_read_var_macro no longer returns a (var ...) form")
    for nd in vrets:
        c = nd.ast.value
        var = P.un(c.args[1]) if isinstance(c, ast.Call) and len(c.args) >= 2 else None

        def is_symbol(t, _b, lab, var=var):
            if t.kind != "test" or var is None:
                return False
            txt = P.un(t.ast)
            if txt in (f"not isinstance({var}, sym.Symbol)", f"not _is_unquote({var})") and lab is False:
                return True
            return txt in (f"isinstance({var}, sym.Symbol)", f"_is_unquote({var})") and lab is True
        raw_sym = any(isinstance(a, ast.Assign) and P.un(a.targets[0]) == var and isinstance(a.value, ast.Call) and P.un(a.value.func) == "_read_sym" for a in ast.walk(rv))
        ok = var is not None and gv.edge_dominated(nd, is_symbol) and not raw_sym
        ctx.ob("C16.R8", f"{RD}::_read_var_macro::(var x) is built from a form tested to be a symbol", RD, nd.line, ok,
               "" if ok else ("the form after #' is read with the symbol reader whatever it starts with: #':a, #'-1 and #''a read as symbols named \":a\", \"-1\", \"'a\"" if raw_sym else "nothing tests that the form after #' is a symbol"),
               witness="(read-string \"#':a\") => (var <symbol named \":a\">); re-reading the span does not give an equal form")
    # (g) a splicing reader conditional is only dissolved by the collection readers; the one function
    # every prefix reader gets its operand from rejects it, as read() does at the top level --
    # otherwise the ReaderConditional object itself ends up inside the quoted / dereferenced form
    nf = fns.get("_read_next_form")
    if nf is None:
        raise AnalysisError("anchor vanished: reader._read_next_form")
    rejects = any(isinstance(i, ast.If) and ("_should_splice_reader_conditional" in P.un(i.test) or ("ReaderConditional" in P.un(i.test) and "is_splicing" in P.un(i.test)))
                  and any(isinstance(x, ast.Raise) and "syntax_error" in P.un(x) for s in i.body for x in ast.walk(s)) for i in ast.walk(nf))
    ctx.ob("C16.R8", f"{RD}::_read_next_form::a splicing reader conditional is not handed to a prefix reader", RD, nf.lineno, rejects,
           "" if rejects else "the form a prefix reader (quote, deref, unquote, meta, tag, f-string) embeds may be an unprocessed splicing ReaderConditional: the form returned contains a reader-internal object",
           witness="(read-string \"'#?@(:lpy [1])\") => (quote <ReaderConditional>)")
    if n_c == 0 or n_d == 0:
        raise AnalysisError(f"C16.R8 found no instances for a clause (indexing: {n_c}, raw _read_next: {n_d})")
    ctx.note(f"C16.R8: {n_a} asserts on read values, {n_c} constant subscripts of forms, {n_d} raw _read_next results")


def _eof_test(t) -> bool:
    """An end-of-input test: <x> == '' / <x> is ctx.eof, or a disjunction of such."""
    if isinstance(t, ast.BoolOp) and isinstance(t.op, ast.Or):
        return all(_eof_test(v) for v in t.values)
    if isinstance(t, ast.Compare) and len(t.ops) == 1:
        r = t.comparators[0]
        if isinstance(t.ops[0], ast.Eq) and isinstance(r, ast.Constant) and r.value == "":
            return True
        if isinstance(t.ops[0], ast.Is) and P.un(r) == "ctx.eof":
            return True
    return False


@rule("C16.R9", floor=30)
def r9_end_of_input_is_classified_as_such(ctx):
    """Incomplete versus malformed, both directions.  (a) Each reader function is executed abstractly
    with 0, 1 and 2 characters left in the stream and nothing after them: a plain syntax error
    whose deciding branch was decided by the end-of-input value (the '' every read returns from
    then on, or a table lookup / regex match on it) reports text that merely stops as malformed
    -- the REPL then rejects what it should keep reading.  (b) Conversely every raise of eof_error
    sits directly under an end-of-input test: raised under any other test it reports complete but
    malformed text as incomplete, and the REPL waits for more input for ever."""
    fns = _reader_functions(ctx)
    pr = _Progress(ctx, fns)
    seen = {}
    n_runs = 0
    for name in sorted(fns):
        fn = fns[name]
        if any(isinstance(x, (ast.Yield, ast.YieldFrom)) for x in P.walk_local(fn)) or name not in pr.cfgs:
            continue
        for k in (0, 1, 2):
            em = _EofMode(pr)
            try:
                em.explore(name, pr.cfgs[name].entry, {"__n__": k, "__e__": False})
            except RecursionError:
                raise AnalysisError(f"abstract execution of {name} does not converge")
            n_runs += 1
            for fname, r in em.eof_decided_raises:
                seen.setdefault((fname, r.lineno), (r, k))
    for fname in sorted(fns):
        bad = sorted((ln, rk) for (f, ln), rk in seen.items() if f == fname)
        if fname not in pr.cfgs:
            continue
        if not any(isinstance(r, ast.Raise) and r.exc is not None and "syntax_error" in P.un(r.exc) for r in ast.walk(fns[fname])):
            continue
        if not bad:
            ctx.ob("C16.R9", f"{RD}::{fname}::no plain syntax error is decided by the end of the input", RD, fns[fname].lineno, True)
        for ln, (r, k) in bad:
            guard = next((P.un(a.test) for a in P.ancestors(r) if isinstance(a, ast.If)), "")
            ctx.ob("C16.R9", f"{RD}::{fname}::`{P.un(r.exc)[:60]}` is not decided by the end of the input", RD, ln, False,
                   f"with {k} character(s) left and then the end of the input, this plain syntax error is raised because a read returned '' (nearest test `{guard[:60]}`): text that merely stops here is reported as malformed instead of incomplete",
                   witness="(read-string \"[1 #?\") / \"#\" / \"#b\" / \"\\\"abc\\\\\" => SyntaxError instead of UnexpectedEOFError")
    # (b)
    for fname, fn in sorted(fns.items()):
        for r in ast.walk(fn):
            if not (isinstance(r, ast.Raise) and r.exc is not None and "eof_error" in P.un(r.exc)):
                continue
            test = None
            cur = r
            for a in P.ancestors(r):
                if isinstance(a, ast.If) and P.contains(fn, a):
                    in_body = any(x is cur or P.contains(x, cur) for x in a.body)
                    test = a.test if in_body else None
                    break
                cur = a
            ok = test is not None and _eof_test(test)
            ctx.ob("C16.R9", f"{RD}::{fname}::eof_error under `{P.un(test)[:50] if test is not None else 'no test'}`", RD, r.lineno, ok,
                   "" if ok else "an unexpected-end-of-input error is raised under a test that is not an end-of-input test: complete but malformed text is reported as incomplete, and the REPL keeps waiting for more",
                   witness="#b \"é\" at the REPL: the prompt inserts a newline for ever")
    # (c) UnexpectedEOFError is a SyntaxError: a handler that catches SyntaxError (or wider) around a
    # call of a reader and answers with a plain syntax error re-labels "incomplete" as "malformed",
    # unless an earlier handler of the same try lets UnexpectedEOFError through
    for fname, fn in sorted(fns.items()):
        for t in [x for x in ast.walk(fn) if isinstance(x, ast.Try)]:
            reads = any(isinstance(c.func, ast.Name) and c.func.id in fns and c.func.id.startswith("_read") for s in t.body for c in P.calls(s))
            if not reads:
                continue
            passed = False
            for h in t.handlers:
                names = ["BaseException"] if h.type is None else [P.un(x).split(".")[-1] for x in (h.type.elts if isinstance(h.type, ast.Tuple) else [h.type])]
                if "UnexpectedEOFError" in names and any(isinstance(x, ast.Raise) and (x.exc is None or "eof_error" in P.un(x.exc) or P.un(x.exc) == (h.name or "")) for s in h.body for x in ast.walk(s)):
                    passed = True
                    continue
                wide = any(n in ("SyntaxError", "Exception", "BaseException") for n in names)
                relabels = any(isinstance(x, ast.Raise) and x.exc is not None and "syntax_error" in P.un(x.exc) for s in h.body for x in ast.walk(s))
                if wide and relabels:
                    ctx.ob("C16.R9", f"{RD}::{fname}::`except {', '.join(names)}` around a reader lets UnexpectedEOFError through", RD, h.lineno, passed,
                           "" if passed else f"the handler catches {', '.join(names)} -- which includes UnexpectedEOFError -- around a call of a reader and raises a plain syntax error: input that ends inside the nested form is reported as malformed, and the REPL rejects what it should keep reading",
                           witness="(read-string \"#f \\\"{(a\") => SyntaxError instead of UnexpectedEOFError")
    # ... and the same handler packaged as a context manager (`try: yield / except SyntaxError: raise
    # ctx.syntax_error(...)`) re-labels whatever the `with` block raises
    def _relabelling_handlers(t):
        passed = False
        for h in t.handlers:
            names = ["BaseException"] if h.type is None else [P.un(x).split(".")[-1] for x in (h.type.elts if isinstance(h.type, ast.Tuple) else [h.type])]
            if "UnexpectedEOFError" in names and any(isinstance(x, ast.Raise) and (x.exc is None or "eof_error" in P.un(x.exc) or P.un(x.exc) == (h.name or "")) for s in h.body for x in ast.walk(s)):
                passed = True
                continue
            wide = any(n in ("SyntaxError", "Exception", "BaseException") for n in names)
            relabels = any(isinstance(x, ast.Raise) and x.exc is not None and "syntax_error" in P.un(x.exc) for s in h.body for x in ast.walk(s))
            if wide and relabels and not passed:
                yield h, names
    cms = {}
    for name, f2 in sorted(fns.items()):
        if not any("contextmanager" in d for d in P.decorators(f2)):
            continue
        for t in [x for x in ast.walk(f2) if isinstance(x, ast.Try)]:
            if any(isinstance(y, (ast.Yield, ast.YieldFrom)) for s in t.body for y in ast.walk(s)):
                for h, names in _relabelling_handlers(t):
                    cms[name] = (h, names)
    for fname, fn in sorted(fns.items()):
        for w in [x for x in ast.walk(fn) if isinstance(x, ast.With)]:
            used = [P.un(i.context_expr.func) for i in w.items if isinstance(i.context_expr, ast.Call) and P.un(i.context_expr.func) in cms]
            reads = any(isinstance(c.func, ast.Name) and c.func.id in fns and c.func.id.startswith("_read") for s in w.body for c in P.calls(s))
            if used and reads:
                h, names = cms[used[0]]
                ctx.ob("C16.R9", f"{RD}::{fname}::`with {used[0]}(...)` around a reader lets UnexpectedEOFError through", RD, w.lineno, False,
                       f"{used[0]} catches {', '.join(names)} -- which includes UnexpectedEOFError -- and raises a plain syntax error; here it is wrapped around a call of a reader: input that ends inside the nested form is reported as malformed, and the REPL rejects what it should keep reading",
                       witness="(read-string \"#?(:lpy [1 2\") => SyntaxError instead of UnexpectedEOFError")
    ctx.note(f"C16.R9: {n_runs} abstract runs (function x characters left)")


SELFTEST = [
    {"name": "unhashable value out of a reader conditional escapes as TypeError (the repaired defect)", "file": RD, "expect": "C16.R1",
     "old": "    except TypeError as e:\n        # Resolving a tagged literal may put an unhashable value into a set or a map key\n        raise ctx.syntax_error(f\"Invalid form in reader conditional: {e}\") from None\n",
     "new": "    except KeyError as e:\n        raise ctx.syntax_error(f\"Invalid form in reader conditional: {e}\") from None\n"},
    {"name": "prefix readers accept a splicing reader conditional (the repaired defect)", "file": RD, "expect": "C16.R8",
     "old": "    if _should_splice_reader_conditional(ctx, v):\n        raise ctx.syntax_error(\n            f\"Splicing reader conditional may only appear in a collection; got it as the {owed_by}\"\n        )\n", "new": ""},
    {"name": "the var macro reads whatever follows with the symbol reader (the repaired defect)", "file": RD, "expect": "C16.R8",
     "old": "    s = _read_next_form(ctx, \"var form\")\n    if not isinstance(s, sym.Symbol) and not _is_unquote(s):\n        raise ctx.syntax_error(f\"Expected a symbol in var form; got '{s}'\")\n",
     "new": "    if char_next == \"~\":\n        s = _read_unquote(ctx)\n    else:\n        s = _read_sym(ctx)\n"},
    {"name": "the caller's eof value is the reader's end-of-input marker (the repaired defect)", "file": RD, "expect": "C16.R2",
     "old": "        eof=EOF,\n        features=features,", "new": "        eof=eof,\n        features=features,"},
    {"name": "reader macro prefix at the end of the input is a plain syntax error (the repaired defect)", "file": RD, "expect": "C16.R9",
     "old": "    if char == \"\":\n        raise ctx.eof_error(\"Unexpected EOF in reader macro\")\n", "new": ""},
    {"name": "#? at the end of the input is a plain syntax error (the repaired defect)", "file": RD, "expect": "C16.R9",
     "old": "    elif char == \"\":\n        raise ctx.eof_error(\"Unexpected EOF in reader conditional\")\n", "new": ""},
    {"name": "string ending in a backslash is a plain syntax error (the repaired defect)", "file": RD, "expect": "C16.R9", "nth": 0,
     "old": "            char = reader.next_char()\n            if char == \"\":\n                raise ctx.eof_error(\"Unexpected EOF in string\")\n            if raw_string:", "new": "            char = reader.next_char()\n            if raw_string:"},
    {"name": "#b at the end of the input is a plain syntax error (the repaired defect)", "file": RD, "expect": "C16.R9",
     "old": "    if char == \"\":\n        raise ctx.eof_error(\"Unexpected EOF in byte string\")\n    if char != '\"':", "new": "    if char != '\"':"},
    {"name": "non-ASCII byte string reported as incomplete (the repaired defect)", "file": RD, "expect": "C16.R9",
     "old": "            raise ctx.syntax_error(\"Byte strings must contain only ASCII characters\")", "new": "            raise ctx.eof_error(\"Byte strings must contain only ASCII characters\")"},
    {"name": "reader tag checked with an assert (the repaired defect)", "file": RD, "expect": "C16.R8",
     "old": "        if not isinstance(s, sym.Symbol):\n            raise ctx.syntax_error(f\"Expected a symbol as a reader tag, got '{s}'\")\n", "new": "        assert isinstance(s, sym.Symbol)\n"},
    {"name": "data reader TypeError escapes (the repaired defect)", "file": RD, "expect": "C16.R8",
     "old": "        except (TypeError, ValueError) as e:\n            raise ctx.syntax_error(f\"Invalid #{s} literal: {e}\") from None\n", "new": ""},
    {"name": "unquote indexed without an arity test (the repaired defect)", "file": RD, "expect": "C16.R8",
     "old": "    if len(form) != 2:  # type: ignore[arg-type]\n        raise ctx.syntax_error(f\"{form.first} takes exactly one form\")  # type: ignore[union-attr]\n", "new": ""},
    {"name": "f-string expression read without the comment filter (the repaired defect)", "file": RD, "expect": "C16.R8",
     "old": "            expr = _read_next_form(ctx, \"string\")\n", "new": "            expr = _read_next(ctx)\n            if expr is ctx.eof:\n                raise ctx.eof_error(\"Unexpected EOF in string\")\n"},
    {"name": "lone backslash reads as the empty string (the repaired defect)", "file": RD, "expect": "C16.R8",
     "old": "    if character == \"\":\n        raise ctx.eof_error(\"Unexpected EOF in character literal\")\n", "new": ""},
    {"name": "unguarded int on letters", "file": RD, "expect": "C16.R1",
     "old": "            try:\n                v = int(match.group(2), base=base)\n            except ValueError as e:\n                raise ctx.syntax_error(f\"Invalid number format: {s}\") from e\n            else:\n                return -v if neg else v\n",
     "new": "            v = int(match.group(2), base=base)\n            return -v if neg else v\n",
     "edits": [
         {"file": RD, "old": "    try:\n        if (match := integer_literal.fullmatch(s)) is not None:", "new": "    if True:\n        if (match := integer_literal.fullmatch(s)) is not None:"},
         {"file": RD, "old": "    except (ValueError, ArithmeticError) as e:\n        # e.g. integers beyond the interpreter's digit limit, out-of-range Decimal exponents\n        raise ctx.syntax_error(f\"Invalid number format: {s}\") from e\n", "new": ""},
         {"file": RD, "old": "            try:\n                v = int(match.group(2), base=base)\n            except ValueError as e:\n                raise ctx.syntax_error(f\"Invalid number format: {s}\") from e\n            else:\n                return -v if neg else v\n", "new": "            v = int(match.group(2), base=base)\n            return -v if neg else v\n"},
     ]},
    {"name": "plain ValueError raised by a reader", "file": RD, "expect": "C16.R1",
     "old": "    raise ctx.syntax_error(f\"Invalid number format: {s}\")\n", "new": "    raise ValueError(f\"Invalid number format: {s}\")\n"},
    {"name": "regex handler dropped", "file": RD, "expect": "C16.R1",
     "old": "    try:\n        return langutil.regex_from_str(s)\n    except re.error as e:\n        raise ctx.syntax_error(f\"Unrecognized regex pattern syntax: {s}\") from e\n", "new": "    return langutil.regex_from_str(s)\n"},
    {"name": "new reader macro embeds unchecked form", "file": RD, "expect": "C16.R2",
     "old": "def _read_comment_macro(ctx: ReaderContext) -> Comment:", "new": "def _read_splice_macro(ctx: ReaderContext):\n    ctx.reader.advance()\n    nxt = _read_next_consuming_comment(ctx)\n    return llist.l(_UNQUOTE_SPLICING, nxt)\n\n\ndef _read_comment_macro(ctx: ReaderContext) -> Comment:",
     "edits": [
         {"file": RD, "old": "def _read_comment_macro(ctx: ReaderContext) -> Comment:", "new": "def _read_splice_macro(ctx: ReaderContext):\n    ctx.reader.advance()\n    nxt = _read_next_consuming_comment(ctx)\n    return llist.l(_UNQUOTE_SPLICING, nxt)\n\n\ndef _read_comment_macro(ctx: ReaderContext) -> Comment:"},
         {"file": RD, "old": "    \"_\": _read_comment_macro,\n", "new": "    \"_\": _read_comment_macro,\n    \"$\": _read_splice_macro,\n"},
     ]},
    {"name": "dispatch key disagrees with assert", "file": RD, "expect": "C16.R3",
     "old": "    \"@\": _read_deref,\n", "new": "    \"@\": _read_deref,\n    \"$\": _read_deref,\n"},
    {"name": "prompt swallows EOF as error", "file": PROMPT, "expect": "C16.R6",
     "old": "            except reader.UnexpectedEOFError:\n                event.current_buffer.insert_text(\"\\n\")\n            except reader.SyntaxError as e:", "new": "            except reader.SyntaxError as e:"},
    {"name": "record macro calls issubclass on a non-class (the repaired defect)", "file": RD, "expect": "C16.R1",
     "old": "    if not isinstance(rectype, type):\n        raise ctx.syntax_error(f\"Var {s} is not a Record or Type\")\n", "new": ""},
    {"name": "record factory called without a handler (the repaired defect)", "file": RD, "expect": "C16.R1",
     "old": "            try:\n                return mapfactory.value(v)\n            except TypeError as e:\n                raise ctx.syntax_error(f\"Unable to construct {s} from a map\") from e\n", "new": "            return mapfactory.value(v)\n"},
    {"name": "namespaced map prefix trusts the next character (the repaired defect)", "file": RD, "expect": "C16.R3",
     "old": "    if char != \"{\":\n        raise ctx.syntax_error(\n            f\"Expected '{{' after namespaced map prefix '#:{map_ns}'; got '{char}'\"\n        )\n", "new": ""},
    {"name": "twin: namespaced map prefix guard written positively", "file": RD, "expect": None,
     "old": "    if char != \"{\":\n        raise ctx.syntax_error(\n            f\"Expected '{{' after namespaced map prefix '#:{map_ns}'; got '{char}'\"\n        )\n\n    return _read_map(ctx, namespace=map_ns)\n",
     "new": "    if char == \"{\":\n        return _read_map(ctx, namespace=map_ns)\n    raise ctx.syntax_error(\n        f\"Expected '{{' after namespaced map prefix '#:{map_ns}'; got '{char}'\"\n    )\n"},
    {"name": "twin: whitespace class as a constant set, used by the guard and the loop alike", "file": RD, "expect": None,
     "edits": [
         {"file": RD, "old": "def _consume_whitespace(ctx: ReaderContext) -> str:\n    reader = ctx.reader\n    char = reader.peek()\n    while whitespace_chars.match(char):\n",
          "new": "_WS = frozenset(\" \\t\\n\\r\\f\\v,\")\n\n\ndef _consume_whitespace(ctx: ReaderContext) -> str:\n    reader = ctx.reader\n    char = reader.peek()\n    while char in _WS:\n"},
         {"file": RD, "old": "    if whitespace_chars.match(char):\n        return _read_next_consuming_whitespace(ctx)\n", "new": "    if char in _WS:\n        return _read_next_consuming_whitespace(ctx)\n"},
     ]},
    {"name": "whitespace guard and whitespace loop use different classes", "file": RD, "expect": "C16.R5",
     "old": "def _consume_whitespace(ctx: ReaderContext) -> str:\n    reader = ctx.reader\n    char = reader.peek()\n    while whitespace_chars.match(char):\n",
     "new": "_WS = frozenset(\" \\t\\n\\r\\f\\v,\")\n\n\ndef _consume_whitespace(ctx: ReaderContext) -> str:\n    reader = ctx.reader\n    char = reader.peek()\n    while char in _WS:\n"},
    {"name": "line comment forgets end of input", "file": RD, "expect": "C16.R5",
     "old": "        if char == \"\":\n            return ctx.eof\n        reader.advance()\n", "new": "        reader.advance()\n"},
    {"name": "whitespace skipped without advancing", "file": RD, "expect": "C16.R5", "first": True,
     "old": "        if whitespace_chars.match(char):\n            reader.advance()\n            continue\n", "new": "        if whitespace_chars.match(char):\n            continue\n"},
    {"name": "token loop peeks instead of consuming", "file": RD, "expect": "C16.R5",
     "old": "        reader.next_char()\n        tokens.append(char)\n", "new": "        tokens.append(char)\n"},
    {"name": "string reader drops its EOF test", "file": RD, "expect": "C16.R5", "first": True,
     "old": "        char = reader.next_char()\n        if char == \"\":\n            raise ctx.eof_error(\"Unexpected EOF in string\")\n", "new": "        char = reader.next_char()\n"},
    {"name": "next_char stops moving once the pushback window is used", "file": RD, "expect": "C16.R5",
     "old": "        if self._idx < StreamReader.DEFAULT_INDEX:\n            self._idx += 1\n        else:", "new": "        if self._idx < StreamReader.DEFAULT_INDEX:\n            pass\n        else:"},
    {"name": "twin: comment loop tests end of input first", "file": RD, "expect": None,
     "old": "        if newline_chars.match(char):\n            reader.advance()\n            return COMMENT\n        if char == \"\":\n            return ctx.eof\n",
     "new": "        if char == \"\":\n            return ctx.eof\n        if newline_chars.match(char):\n            reader.advance()\n            return COMMENT\n"},
    {"name": "twin: whitespace loop written with advance()", "file": RD, "expect": None,
     "old": "    while whitespace_chars.match(char):\n        char = reader.next_char()\n    return char\n",
     "new": "    while whitespace_chars.match(char):\n        reader.advance()\n        char = reader.peek()\n    return char\n"},
    # twins
    {"name": "number conversions lose their handler (the repaired defect)", "file": RD, "expect": "C16.R1",
     "old": "    except (ValueError, ArithmeticError) as e:", "new": "    except KeyError as e:"},
    {"name": "twin: number handler names the classes one by one", "file": RD, "expect": None,
     "old": "    except (ValueError, ArithmeticError) as e:", "new": "    except (ValueError, ZeroDivisionError, OverflowError, decimal.InvalidOperation, ArithmeticError) as e:"},
]

SELFTEST = [c for c in SELFTEST if c["name"] != "unguarded int on letters"]  # its multi-line anchor no longer parses after the reader repair
