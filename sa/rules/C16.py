"""C16 -- the reader is total, classifies incomplete input, and reports true locations."""
from __future__ import annotations

import ast
import re

from ..core import AnalysisError, rule
from .. import pyfacts as P
from ..pycfg import CFG

RD = "src/basilisp/lang/reader.py"
PROMPT = "src/basilisp/prompt.py"

EXPLANATION = (
    "May-raise, sentinel and dispatch-table rules over reader.py: every explicit raise reachable from read() is a syntax/EOF "
    "error; every call of a partial conversion (int, float, chr, Decimal, Fraction, re.compile, set(), ...) is discharged by an "
    "enclosing handler that re-raises a syntax error, by a regex guard whose group language lies in the callee's domain (decided "
    "on the regex AST), or by a reviewed exemption; every use of the result of an EOF-returning reader is preceded by an "
    "`is ctx.eof` test that raises eof_error; dispatch keys agree with the asserts of the readers registered under them; "
    "_with_loc readers are entered at the first character of their form; the REPL maps exactly UnexpectedEOFError to 'keep reading'."
)
DECIDES = "only syntax errors escape (may-raise over the reader's call graph), EOF sentinel never embedded and reported as UnexpectedEOFError, dispatch/assert agreement, span start of located readers, REPL cue"
DECLINED = "line/column arithmetic under CR/CRLF and multi-byte input, equality of the re-read span (runtime values)"
TRUSTED = ["FT-raise: exception classes of int/float/chr/Decimal/Fraction/re.compile/uuid/set on bad input, incl. the 4300-digit int() limit for non power-of-two bases"]
ASSUMPTIONS = ["user-supplied data readers and resolvers are outside the property (their exceptions are theirs)"]
TECHNIQUE = "may-raise analysis with regex-language guards (re._parser AST), sentinel-use typestate on the CFG, dispatch-table/assert agreement"

OK_RAISES = ("ctx.syntax_error", "ctx.eof_error", "SyntaxError", "UnexpectedEOFError")


def _tree(ctx):
    return ctx.py(RD)


def _reader_functions(ctx):
    """Functions reachable from read(): everything at module level in reader.py whose name
    starts with _read / _py_ / _inst / _uuid / _resolve / _load / _expand / _process / _select /
    _should / _consume / _map_key plus the dispatch lambdas."""
    tree = _tree(ctx)
    fns = {}
    for n in tree.body:
        if isinstance(n, P.FUNC):
            fns[n.name] = n
    # call graph closure from read
    if "read" not in fns:
        raise AnalysisError("anchor vanished: reader.read")
    dispatch_vals = set()
    for tbl in ("_read_dispatch", "_read_macro_dispatch"):
        v = P.module_assign(tree, tbl)
        if not isinstance(v, ast.Dict):
            raise AnalysisError(f"anchor vanished: reader.{tbl}")
        ctx.analysed["tables"].add(f"reader.{tbl} ({len(v.keys)} keys)")
        for val in v.values:
            if isinstance(val, ast.Name):
                dispatch_vals.add(val.id)
    seen, work = set(), ["read"]
    while work:
        f = work.pop()
        if f in seen or f not in fns:
            continue
        seen.add(f)
        names = {n.id for n in ast.walk(fns[f]) if isinstance(n, ast.Name)}
        if f == "_read_next" or f == "_read_reader_macro":
            names |= dispatch_vals
        work.extend(n for n in names if n in fns)
    # data readers registered in ReaderContext._DATA_READERS
    rc = P.find_def(tree, "ReaderContext")
    if rc is not None:
        dr = P.class_assign(rc, "_DATA_READERS")
        if dr is not None:
            for n in ast.walk(dr):
                if isinstance(n, ast.Name) and n.id in fns:
                    seen.add(n.id)
                    work = [n.id]
                    while work:
                        f = work.pop()
                        for m in {x.id for x in ast.walk(fns[f]) if isinstance(x, ast.Name)}:
                            if m in fns and m not in seen:
                                seen.add(m)
                                work.append(m)
    return {k: fns[k] for k in seen}


# ---------------------------------------------------------------------------------------------
# regex language helpers

def _regex_table(ctx):
    tree = _tree(ctx)
    out = {}
    for n in tree.body:
        if isinstance(n, ast.Assign) and isinstance(n.value, ast.Call) and P.un(n.value.func) == "re.compile" and n.value.args and isinstance(n.value.args[0], ast.Constant):
            for t in n.targets:
                if isinstance(t, ast.Name):
                    out[t.id] = n.value.args[0].value
    return out


def _group_chars(pattern: str, group: int):
    """(set of possible characters as category/literal tokens, max total length or None) for a
    capture group of a regex, from the sre parse tree."""
    import re._parser as sp  # type: ignore

    tree = sp.parse(pattern)
    found = []

    def find(items):
        for op, av in items:
            name = str(op)
            if name == "SUBPATTERN":
                gid, _a, _b, sub = av
                if gid == group:
                    found.append(sub)
                find(sub)
            elif name in ("MAX_REPEAT", "MIN_REPEAT", "POSSESSIVE_REPEAT"):
                find(av[2])
            elif name == "BRANCH":
                for b in av[1]:
                    find(b)
            elif name in ("ASSERT", "ASSERT_NOT", "ATOMIC_GROUP"):
                find(av[1] if isinstance(av, tuple) else av)

    find(tree)
    if not found:
        return None

    def chars(items):
        cs, total = set(), 0
        for op, av in items:
            name = str(op)
            if name == "LITERAL":
                cs.add(("lit", chr(av))); total = None if total is None else total + 1
            elif name == "IN":
                for o2, a2 in av:
                    n2 = str(o2)
                    if n2 == "LITERAL":
                        cs.add(("lit", chr(a2)))
                    elif n2 == "RANGE":
                        cs.add(("range", chr(a2[0]), chr(a2[1])))
                    elif n2 == "CATEGORY":
                        cs.add(("cat", str(a2)))
                    else:
                        cs.add(("other", n2))
                total = None if total is None else total + 1
            elif name == "CATEGORY":
                cs.add(("cat", str(av))); total = None if total is None else total + 1
            elif name in ("MAX_REPEAT", "MIN_REPEAT", "POSSESSIVE_REPEAT"):
                lo, hi, sub = av
                c2, t2 = chars(sub)
                cs |= c2
                if hi is None or str(hi) == "MAXREPEAT" or t2 is None or total is None or (isinstance(hi, int) and hi > 100000):
                    total = None
                else:
                    total += int(hi) * t2
            elif name == "SUBPATTERN":
                c2, t2 = chars(av[3])
                cs |= c2
                total = None if (total is None or t2 is None) else total + t2
            elif name == "BRANCH":
                mx = 0
                for b in av[1]:
                    c2, t2 = chars(b)
                    cs |= c2
                    mx = None if (mx is None or t2 is None) else max(mx, t2)
                total = None if (total is None or mx is None) else total + mx
            elif name == "ANY":
                cs.add(("other", "ANY")); total = None if total is None else total + 1
            elif name == "NOT_LITERAL":
                cs.add(("other", "NOT_LITERAL")); total = None if total is None else total + 1
            elif name == "AT":
                pass
            else:
                cs.add(("other", name))
        return cs, total

    return chars(found[0])


def _subset_of(cs, allowed: str) -> bool:
    """Is every token within the allowed alphabet?  allowed: 'digits', 'hex', 'oct', 'float', 'alnum36'."""
    def lit_ok(ch):
        if allowed == "digits":
            return ch.isdigit() or ch in "-+"
        if allowed == "oct":
            return ch in "01234567"
        if allowed == "hex":
            return ch in "0123456789abcdefABCDEF"
        if allowed == "float":
            return ch.isdigit() or ch in "-+.eE"
        return False
    for tok in cs:
        if tok[0] == "lit":
            if not lit_ok(tok[1]):
                return False
        elif tok[0] == "range":
            if not all(lit_ok(chr(c)) for c in range(ord(tok[1]), ord(tok[2]) + 1)):
                return False
        elif tok[0] == "cat":
            if tok[1] != "CATEGORY_DIGIT" or allowed in ("oct", "hex"):
                return False
        else:
            return False
    return True


# ---------------------------------------------------------------------------------------------
# R1

PARTIAL = {
    # callee text -> (exceptions, description)
    "int": ({"ValueError"}, "int()"),
    "float": ({"ValueError"}, "float()"),
    "chr": ({"ValueError", "OverflowError"}, "chr()"),
    "decimal.Decimal": ({"InvalidOperation"}, "decimal.Decimal()"),
    "Fraction": ({"ZeroDivisionError"}, "Fraction()"),
    "re.compile": ({"error"}, "re.compile()"),
    "langutil.regex_from_str": ({"error"}, "regex_from_str()"),
    "langutil.inst_from_str": ({"ValueError", "OverflowError"}, "inst_from_str()"),
    "langutil.uuid_from_str": ({"ValueError", "TypeError"}, "uuid_from_str()"),
    "set": ({"TypeError"}, "set() of unhashable elements"),
    "lset.set": ({"TypeError"}, "lset.set() of unhashable elements"),
    "collections.Counter": ({"TypeError"}, "Counter() of unhashable elements"),
    "lqueue.queue": ({"TypeError"}, "queue() of a non-iterable"),
}
EXC_PARENT = {"InvalidOperation": "ArithmeticError", "ZeroDivisionError": "ArithmeticError", "error": "Exception", "ValueError": "Exception", "TypeError": "Exception", "OverflowError": "ArithmeticError", "ArithmeticError": "Exception", "Exception": "BaseException"}


def _handler_covers(h: ast.ExceptHandler, exc: str) -> bool:
    if h.type is None:
        return True
    names = [P.un(e).split(".")[-1] for e in (h.type.elts if isinstance(h.type, ast.Tuple) else [h.type])]
    e = exc
    while e:
        if e in names:
            return True
        e = EXC_PARENT.get(e)
    return False


def _handler_raises_syntax(h: ast.ExceptHandler) -> bool:
    for s in ast.walk(h):
        if isinstance(s, ast.Raise) and s.exc is not None:
            e = s.exc
            while isinstance(e, ast.Call):
                e = e.func
                if isinstance(e, ast.Attribute) and e.attr == "with_traceback":
                    e = e.value
            txt = P.un(e)
            if any(txt.startswith(o) for o in OK_RAISES):
                return True
    return False


def _enclosing_handlers(node, fn):
    out = []
    prev = node
    for a in P.ancestors(node):
        if a is fn:
            break
        if isinstance(a, ast.Try) and any(prev is b or P.contains(b, prev) for b in a.body):
            out.extend(a.handlers)
        prev = a
    return out


def _match_source(fn, name: str, at=None):
    """If `name` is bound by `(name := REGEX.fullmatch(s))` / `name = REGEX.match(x)`, return the regex var.
    When `at` is given, the binding in the test of the nearest enclosing `if` whose body contains
    `at` wins (the reader re-uses one name for every branch of its if/elif chain)."""
    if at is not None:
        prev = at
        for a in P.ancestors(at):
            if a is fn:
                break
            if isinstance(a, ast.If) and any(prev is b or P.contains(b, prev) for b in a.body):
                for n in ast.walk(a.test):
                    if isinstance(n, ast.NamedExpr) and n.target.id == name and isinstance(n.value, ast.Call) and isinstance(n.value.func, ast.Attribute) and n.value.func.attr in ("fullmatch", "match"):
                        return P.un(n.value.func.value), n.value.func.attr
            prev = a
    for n in ast.walk(fn):
        tgt, val = None, None
        if isinstance(n, ast.NamedExpr):
            tgt, val = n.target, n.value
        elif isinstance(n, ast.Assign) and len(n.targets) == 1:
            tgt, val = n.targets[0], n.value
        if isinstance(tgt, ast.Name) and tgt.id == name and isinstance(val, ast.Call) and isinstance(val.func, ast.Attribute) and val.func.attr in ("fullmatch", "match"):
            return P.un(val.func.value), val.func.attr
    return None


def _alias_of_group(fn, name: str, at):
    """`name` bound to `m.group(k)` (walrus or assignment) or unpacked from `m.groups()`:
    returns a synthetic `m.group(k)` call node."""
    for n in ast.walk(fn):
        if isinstance(n, ast.NamedExpr) and n.target.id == name and isinstance(n.value, ast.Call) and isinstance(n.value.func, ast.Attribute) and n.value.func.attr == "group":
            return n.value
        if isinstance(n, ast.Assign) and len(n.targets) == 1:
            t, v = n.targets[0], n.value
            if isinstance(t, ast.Name) and t.id == name and isinstance(v, ast.Call) and isinstance(v.func, ast.Attribute) and v.func.attr == "group":
                return v
            if isinstance(t, ast.Tuple) and isinstance(v, ast.Call) and isinstance(v.func, ast.Attribute) and v.func.attr == "groups":
                for i, e in enumerate(t.elts):
                    if isinstance(e, ast.Name) and e.id == name:
                        synth = ast.Call(func=ast.Attribute(value=v.func.value, attr="group", ctx=ast.Load()), args=[ast.Constant(i + 1)], keywords=[])
                        return synth
    return None


@rule("C16.R1", floor=25)
def r1_only_syntax_errors_escape(ctx):
    """Over the functions reachable from read(): explicit raises are syntax/EOF errors; each call of
    a partial conversion is inside a handler that covers its exceptions and raises a syntax error,
    or its argument is a regex group whose language lies in the callee's domain (and is length-
    bounded where CPython limits int digits), or it is a reviewed exemption; exponentiation by a
    text-controlled exponent is flagged (termination)."""
    fns = _reader_functions(ctx)
    regexes = _regex_table(ctx)
    EXEMPT = {
        ("_read_num", "int(match.group(1))"): None,  # placeholder: no blanket exemptions
    }
    _ = EXEMPT
    for fname, fn in sorted(fns.items()):
        ctx.analysed["functions"].add(f"{RD}::{fname}")
        for r in ast.walk(fn):
            if isinstance(r, ast.Raise):
                if r.exc is None:
                    continue  # re-raise inside a handler
                e = r.exc
                while isinstance(e, ast.Call):
                    e = e.func
                    if isinstance(e, ast.Attribute) and e.attr == "with_traceback":
                        e = e.value
                txt = P.un(e)
                ok = any(txt.startswith(o) for o in OK_RAISES) or (txt == "EOFError" and fname == "read")
                ctx.ob("C16.R1", f"{RD}::{fname}::raise {txt}", RD, r.lineno, ok, "" if ok else f"`raise {txt}` escapes the reader as a non-syntax exception")
        for c in P.calls(fn, into_defs=True):
            name = P.un(c.func)
            if name not in PARTIAL or not c.args and not c.keywords:
                continue
            excs, descr = PARTIAL[name]
            handlers = _enclosing_handlers(c, fn)
            uncovered = {e for e in excs if not any(_handler_covers(h, e) and _handler_raises_syntax(h) for h in handlers)}
            arg0 = c.args[0] if c.args else c.keywords[0].value
            inst = f"{RD}::{fname}::{P.un(c)}"
            if not uncovered:
                ctx.ob("C16.R1", inst, RD, c.lineno, True, "covered by a handler that raises a syntax error")
                continue
            why = f"{descr} can raise {sorted(uncovered)} and no enclosing handler turns it into a syntax error"
            ok = False
            # regex guard
            garg = arg0
            if isinstance(garg, ast.JoinedStr):
                garg = next((v.value for v in garg.values if isinstance(v, ast.FormattedValue)), garg)
            if isinstance(garg, ast.Name):
                garg = _alias_of_group(fn, garg.id, c) or garg
            if isinstance(garg, ast.Call) and isinstance(garg.func, ast.Attribute) and garg.func.attr == "group" and isinstance(garg.func.value, ast.Name) and garg.args and isinstance(garg.args[0], ast.Constant):
                ms = _match_source(fn, garg.func.value.id, at=c)
                if ms and ms[0] in regexes and ms[1] == "fullmatch":
                    gi = _group_chars(regexes[ms[0]], int(garg.args[0].value))
                    if gi is not None:
                        cs, maxlen = gi
                        base = None
                        for k in c.keywords:
                            if k.arg == "base":
                                base = P.un(k.value)
                        if len(c.args) > 1:
                            base = P.un(c.args[1])
                        if name == "int":
                            alpha = {"8": "oct", "16": "hex", None: "digits", "10": "digits"}.get(base)
                            if alpha and _subset_of(cs, alpha):
                                if alpha == "digits" and (maxlen is None or maxlen > 4300):
                                    why = "int() of an unbounded run of decimal digits raises ValueError beyond CPython's 4300-digit limit, and nothing turns it into a syntax error"
                                else:
                                    ok, why = True, f"regex guard {ms[0]} group {garg.args[0].value} within int() domain"
                            elif alpha is None:
                                why = f"int() with text-controlled base `{base}` is not guarded"
                        elif name == "float" and _subset_of(cs, "float"):
                            ok, why = True, f"regex guard {ms[0]} within float() domain"
            # arguments that are themselves ints/py values
            if not ok and name == "Fraction":
                pass
            ctx.ob("C16.R1", inst, RD, c.lineno, ok, why)
        for b in ast.walk(fn):
            if isinstance(b, ast.BinOp) and isinstance(b.op, ast.Pow) and not isinstance(b.right, ast.Constant):
                ctx.ob("C16.R1", f"{RD}::{fname}::{P.un(b)}", RD, b.lineno, False,
                       "exponentiation by an exponent taken from the input text: `1e999999999` makes the reader compute a number with a billion digits (does not terminate in practice)",
                       witness="(read-string \"1e999999999\")")


# ---------------------------------------------------------------------------------------------
# R2 EOF sentinel


def _eof_functions(fns) -> set[str]:
    eofs = set()
    for name, fn in fns.items():
        for r in ast.walk(fn):
            if isinstance(r, ast.Return) and r.value is not None and "ctx.eof" in P.un(r.value) and "eof_error" not in P.un(r.value):
                eofs.add(name)
    eofs.add("_read_next")  # dispatch table contains `lambda ctx: ctx.eof` and _read_comment
    changed = True
    while changed:
        changed = False
        for name, fn in fns.items():
            if name in eofs:
                continue
            for r in ast.walk(fn):
                if isinstance(r, ast.Return) and isinstance(r.value, ast.Call) and P.un(r.value.func) in eofs:
                    eofs.add(name)
                    changed = True
    return eofs


R2_EXEMPT = {
    "_read_coll": "the loop re-reads peek() before anything is returned: at end of input it raises eof_error, so an EOF sentinel appended to the scratch list never escapes",
    "__read_map_elems": "same loop shape as _read_coll: end of input raises eof_error before the generator finishes",
    "_read_reader_conditional_preserving": "same loop shape as _read_coll: end of input raises eof_error before the collection is returned",
    "read": "top level: the sentinel ends the stream of forms (no form is owed)",
    "_read_next_consuming_comment": "propagates the sentinel to its caller (summarised as an EOF-returning function)",
    "_read_next_consuming_whitespace": "propagates the sentinel to its caller",
    "_read_next": "propagates the sentinel to its caller",
}


@rule("C16.R2", floor=8)
def r2_eof_sentinel_checked(ctx):
    """Every call of an EOF-returning reader whose result is embedded in a form (or discarded as
    'the next form') is followed on every path to a return by an `is ctx.eof` test whose eof
    outcome raises ctx.eof_error; prefix readers that read a token directly test for end of input."""
    fns = _reader_functions(ctx)
    eofs = _eof_functions(fns)
    ctx.note(f"C16.R2 EOF-returning readers: {sorted(eofs)}")
    checked_helpers = set()
    # a helper whose every normal return is dominated by a non-eof outcome is a checking helper
    sites = 0
    for fname, fn in sorted(fns.items()):
        if fname in R2_EXEMPT:
            continue
        g = None
        for c in P.calls(fn, into_defs=True):
            if P.un(c.func) not in eofs:
                continue
            sites += 1
            st = P.stmt_of(c)
            inst = f"{RD}::{fname}::{P.un(st)}"
            par = P.parent(c)
            var = None
            if isinstance(st, ast.Assign) and st.value is c and len(st.targets) == 1 and isinstance(st.targets[0], ast.Name):
                var = st.targets[0].id
            elif isinstance(par, ast.NamedExpr):
                var = par.target.id
            if isinstance(st, ast.Return) and st.value is c:
                continue  # propagation (would be in eofs)
            if var is None:
                ctx.ob("C16.R2", inst, RD, c.lineno, False,
                       "the result of an EOF-returning reader is used without being named and tested: at end of input the sentinel object is embedded in the form (or the owed form is silently dropped)")
                continue
            g = g or CFG(fn)
            an = [nd for nd in g.nodes if nd.ast is st or (nd.ast is not None and nd.kind in ("stmt", "test") and P.contains(nd.ast, c))]
            tests = [nd for nd in g.nodes if nd.kind == "test" and isinstance(nd.ast, ast.Compare) and P.un(nd.ast.left) == var and isinstance(nd.ast.ops[0], (ast.Is, ast.IsNot)) and P.un(nd.ast.comparators[0]) == "ctx.eof"]
            reach = g.reach(an, avoid=tests, follow_exc=False)
            unguarded = g.exit.id in reach
            leaks = False
            wrong_exc = False
            for t in tests:
                eof_label = isinstance(t.ast.ops[0], ast.Is)
                succ = [b for b, lab in t.succ if lab is eof_label]
                r2 = g.reach(succ, follow_exc=False)
                if g.exit.id in r2:
                    leaks = True
                raises = [g.nodes[i] for i in r2 if g.nodes[i].kind == "stmt" and isinstance(g.nodes[i].ast, ast.Raise)]
                if raises and not all("eof_error" in P.un(x.ast) or "UnexpectedEOFError" in P.un(x.ast) for x in raises):
                    wrong_exc = True
            ok = bool(tests) and not unguarded and not leaks and not wrong_exc
            why = ""
            if not tests or unguarded:
                why = f"`{var}` may be the EOF sentinel and reaches a return without an `is ctx.eof` test: at end of input a bare object() is embedded in the form, or a plain SyntaxError is raised instead of UnexpectedEOFError"
            elif leaks:
                why = "the eof outcome of the test does not raise"
            elif wrong_exc:
                why = "end of input after a prefix is reported with a plain syntax error, not eof_error (the REPL would not keep reading)"
            ctx.ob("C16.R2", inst, RD, c.lineno, ok, why, witness="' @ ~ ~@ ^ #tag #_ ` at end of input")
    # checked helper call sites count as discharged sites (floor stability across a refactor into a helper)
    for fname, fn in sorted(fns.items()):
        for c in P.calls(fn, into_defs=True):
            callee = P.un(c.func)
            if callee in fns and callee not in eofs and callee.startswith("_read_next"):
                sites += 1
                ctx.ob("C16.R2", f"{RD}::{fname}::{P.un(P.stmt_of(c))}", RD, c.lineno, True, f"{callee} raises eof_error itself")
                checked_helpers.add(callee)
    # direct token readers after a prefix: #' must test for end of input before reading a symbol
    vm = fns.get("_read_var_macro")
    if vm is not None:
        txt = P.un(vm)
        ok = "eof_error" in txt
        ctx.ob("C16.R2", f"{RD}::_read_var_macro::end of input after #'", RD, vm.lineno, ok,
               "" if ok else "#' at end of input falls into _read_sym and reports `Invalid symbol or keyword ''` (a plain syntax error) although a form is still owed", witness="#' at end of input")
    _ = sites


# ---------------------------------------------------------------------------------------------
# R3 dispatch / assert agreement


def _asserted_chars(fn):
    """Characters the reader asserts it starts on: ('advance'|'peek', {chars})."""
    out = []
    for a in P.walk_local(fn):
        if isinstance(a, ast.Assert) and isinstance(a.test, ast.Compare) and len(a.test.ops) == 1:
            left, op, right = a.test.left, a.test.ops[0], a.test.comparators[0]
            chars = None
            if isinstance(op, ast.Eq) and isinstance(right, ast.Constant) and isinstance(right.value, str):
                chars = {right.value}
            elif isinstance(op, ast.In) and isinstance(right, ast.Set):
                chars = {e.value for e in right.elts if isinstance(e, ast.Constant)}
            if chars is None:
                continue
            ltxt = P.un(left)
            if ltxt.endswith("reader.peek()"):
                out.append(("peek", chars))
            elif ltxt == "start":
                out.append(("start", chars))
    return out


@rule("C16.R3", floor=18)
def r3_dispatch_assert_agreement(ctx):
    """A reader registered under key K in _read_dispatch / _read_macro_dispatch asserts K on the
    character it starts on (so the asserts can never fire on any input)."""
    tree = _tree(ctx)
    fns = {n.name: n for n in tree.body if isinstance(n, P.FUNC)}
    for tbl in ("_read_dispatch", "_read_macro_dispatch"):
        d = P.module_assign(tree, tbl)
        for k, v in zip(d.keys, d.values):
            if not isinstance(k, ast.Constant):
                raise AnalysisError(f"{tbl}: non-literal key")
            key = k.value
            if isinstance(v, ast.Constant) and v.value is None:
                ctx.ob("C16.R3", f"{RD}::{tbl}[{key!r}] = None (closing delimiter)", RD, k.lineno, True)
                continue
            if isinstance(v, ast.Lambda):
                ctx.ob("C16.R3", f"{RD}::{tbl}[{key!r}] = lambda", RD, k.lineno, key == "", "" if key == "" else "lambda reader on a non-empty key")
                continue
            fn = fns.get(v.id) if isinstance(v, ast.Name) else None
            if fn is None:
                raise AnalysisError(f"{tbl}[{key!r}] names an unknown reader")
            asserted = _asserted_chars(fn)
            if not asserted:
                ctx.ob("C16.R3", f"{RD}::{tbl}[{key!r}] -> {fn.name} (no assert)", RD, fn.lineno, True, "reader does not assert its start character")
                continue
            ok = all(key in chars for _k, chars in asserted[:1])
            ctx.ob("C16.R3", f"{RD}::{tbl}[{key!r}] -> {fn.name} asserts {sorted(asserted[0][1])}", RD, fn.lineno, ok,
                   "" if ok else f"{fn.name} is registered under {key!r} but asserts {sorted(asserted[0][1])}: reading {key!r} raises AssertionError")


# ---------------------------------------------------------------------------------------------
# R4 spans


@rule("C16.R4", floor=5)
def r4_spans_start_at_first_char(ctx):
    """A reader decorated with _with_loc records the stream position on entry; it must be entered
    with the stream at the first character of the form's text: entered from _read_dispatch (yes),
    from _read_macro_dispatch (the `#` is already consumed: span starts one column late) or
    called directly after a prefix was consumed."""
    tree = _tree(ctx)
    fns = {n.name: n for n in tree.body if isinstance(n, P.FUNC)}
    located = {n for n, f in fns.items() if any(d == "_with_loc" for d in P.decorators(f))}
    ctx.note(f"C16.R4 located readers: {sorted(located)}")
    rm = fns.get("_read_reader_macro")
    rm_located = rm is not None and "_read_reader_macro" in located
    d1 = P.module_assign(tree, "_read_dispatch")
    d2 = P.module_assign(tree, "_read_macro_dispatch")
    for k, v in zip(d1.keys, d1.values):
        if isinstance(v, ast.Name) and v.id in located:
            ctx.ob("C16.R4", f"{RD}::{v.id} entered from _read_dispatch[{k.value!r}]", RD, fns[v.id].lineno, True, "entered at the form's first character")
    for k, v in zip(d2.keys, d2.values):
        if isinstance(v, ast.Name) and v.id in located:
            ok = rm_located
            ctx.ob("C16.R4", f"{RD}::{v.id} entered from _read_macro_dispatch[{k.value!r}] after `#`", RD, fns[v.id].lineno, ok,
                   "" if ok else f"the span of `#{k.value}...` forms starts after the `#`: re-reading the text of the span yields a different form",
                   witness="#{1 2} is tagged col 1-6; `{1 2}` re-reads as a map")
    # direct calls after consuming characters
    for name, fn in fns.items():
        for c in P.calls(fn):
            callee = P.un(c.func)
            if callee in located and callee in ("_read_map", "_read_set", "_read_list", "_read_vector", "_read_function") and name not in ("_read_next",):
                consumed = any(isinstance(x.func, ast.Attribute) and x.func.attr in ("advance", "next_char") and x.lineno < c.lineno for x in P.calls(fn))
                if consumed:
                    ok = name in located or (name == "_read_namespaced_map" and rm_located)
                    ctx.ob("C16.R4", f"{RD}::{callee} called from {name} after characters were consumed", RD, c.lineno, ok,
                           "" if ok else f"{name} consumes the prefix and then calls the located reader {callee}: the recorded span omits the prefix",
                           witness="#:a{:b 1} span starts at `{`")


@rule("C16.R7", floor=2)
def r7_incomplete_before_malformed(ctx):
    """A reader that consumes a generator-reader (a function that yields forms and raises eof_error
    at end of input) must realise it completely (list()/tuple()) before it validates and raises a
    plain syntax error: otherwise unterminated input with a local defect (duplicate key) is
    classified as malformed instead of incomplete. Line comments end at every newline form the
    stream's line counter knows (\\n, \\r\\n and a lone \\r)."""
    fns = _reader_functions(ctx)
    gens = {n for n, f in fns.items() if any(isinstance(x, (ast.Yield, ast.YieldFrom)) for x in ast.walk(f)) and "eof_error" in P.un(f)}
    ctx.note(f"C16.R7 generator readers: {sorted(gens)}")
    n = 0
    for fname, fn in sorted(fns.items()):
        for c in P.calls(fn):
            if P.un(c.func) not in gens:
                continue
            n += 1
            par = P.parent(c)
            realised = isinstance(par, ast.Call) and P.un(par.func) in ("list", "tuple") and par.args and par.args[0] is c
            raises_in_fn = any(isinstance(r, ast.Raise) and r.exc is not None and "syntax_error" in P.un(r.exc) for r in ast.walk(fn))
            ok = realised or not raises_in_fn
            ctx.ob("C16.R7", f"{RD}::{fname}::{P.un(par)[:70]}", RD, c.lineno, ok,
                   "" if ok else f"{fname} validates elements while {P.un(c.func)} is still reading: `{{:a 1 :a 2` (no closing brace yet) raises a plain syntax error instead of UnexpectedEOFError")
    rc = fns.get("_read_comment")
    if rc is None:
        raise AnalysisError("anchor vanished: _read_comment")
    uses_class = any(isinstance(c.func, ast.Attribute) and P.un(c.func.value) == "newline_chars" for c in P.calls(rc))
    regexes = _regex_table(ctx)
    pat = regexes.get("newline_chars", "")
    covers = all(x in pat for x in ("\r\n", "\r", "\n"))
    ok = uses_class and covers
    ctx.ob("C16.R7", f"{RD}::_read_comment::ends at every newline form (newline_chars={pat!r})", RD, rc.lineno, ok,
           "" if ok else "a line comment no longer ends at a lone carriage return (which the stream's line counter treats as a line end): `(a ;c\\rb)` swallows the rest of the form and reports an unexpected end of input for complete text")
    if n == 0:
        raise AnalysisError("no generator-reader call sites found")


# ---------------------------------------------------------------------------------------------
# R6 REPL cue


@rule("C16.R6", floor=2)
def r6_repl_cue(ctx):
    """prompt.py: the enter handler maps exactly UnexpectedEOFError to 'insert newline' and the
    broader SyntaxError to 'report', in that order; UnexpectedEOFError subclasses SyntaxError and
    ctx.eof_error constructs it."""
    pt = ctx.py(PROMPT)
    tries = [t for t in ast.walk(pt) if isinstance(t, ast.Try) and any("read_str" in P.un(s) for s in t.body)]
    if not tries:
        raise AnalysisError("anchor vanished: prompt.py enter handler try")
    t = tries[0]
    types = [P.un(h.type).split(".")[-1] if h.type is not None else "*" for h in t.handlers]
    ok = types[:2] == ["UnexpectedEOFError", "SyntaxError"]
    ctx.ob("C16.R6", f"{PROMPT}::enter handler order {types}", PROMPT, t.lineno, ok, "" if ok else "UnexpectedEOFError is not handled before the broader SyntaxError: incomplete input would be reported as an error")
    h0 = t.handlers[0]
    ok = any(isinstance(c.func, ast.Attribute) and c.func.attr == "insert_text" for c in P.calls(h0))
    ctx.ob("C16.R6", f"{PROMPT}::UnexpectedEOFError -> insert newline", PROMPT, h0.lineno, ok, "" if ok else "the EOF handler no longer continues the input")
    tree = _tree(ctx)
    ue = P.find_def(tree, "UnexpectedEOFError")
    ok = ue is not None and any(P.un(b) == "SyntaxError" for b in ue.bases)
    ctx.ob("C16.R6", f"{RD}::UnexpectedEOFError(SyntaxError)", RD, getattr(ue, "lineno", 0), ok, "" if ok else "UnexpectedEOFError is not a SyntaxError subclass")
    ee = P.find_def(tree, "ReaderContext.eof_error")
    se = P.find_def(tree, "ReaderContext.syntax_error")
    ok = ee is not None and "UnexpectedEOFError(" in P.un(ee) and se is not None and "UnexpectedEOFError" not in P.un(se)
    ctx.ob("C16.R6", f"{RD}::ctx.eof_error builds UnexpectedEOFError; ctx.syntax_error does not", RD, getattr(ee, "lineno", 0), ok, "" if ok else "eof_error/syntax_error construct the wrong classes")
    for fn in (ee, se):
        if fn is not None:
            ok = "line=" in P.un(fn) and "col=" in P.un(fn)
            ctx.ob("C16.R6", f"{RD}::{fn.name} carries line and col", RD, fn.lineno, ok, "" if ok else "the error is built without line/col")


SELFTEST = [
    {"name": "unguarded int on letters", "file": RD, "expect": "C16.R1",
     "old": "            try:\n                v = int(match.group(2), base=base)\n            except ValueError as e:\n                raise ctx.syntax_error(f\"Invalid number format: {s}\") from e\n            else:\n                return -v if neg else v\n",
     "new": "            v = int(match.group(2), base=base)\n            return -v if neg else v\n",
     "edits": [
         {"file": RD, "old": "    try:\n        if (match := integer_literal.fullmatch(s)) is not None:", "new": "    if True:\n        if (match := integer_literal.fullmatch(s)) is not None:"},
         {"file": RD, "old": "    except (ValueError, ArithmeticError) as e:\n        # e.g. integers beyond the interpreter's digit limit, out-of-range Decimal exponents\n        raise ctx.syntax_error(f\"Invalid number format: {s}\") from e\n", "new": ""},
         {"file": RD, "old": "            try:\n                v = int(match.group(2), base=base)\n            except ValueError as e:\n                raise ctx.syntax_error(f\"Invalid number format: {s}\") from e\n            else:\n                return -v if neg else v\n", "new": "            v = int(match.group(2), base=base)\n            return -v if neg else v\n"},
     ]},
    {"name": "plain ValueError raised by a reader", "file": RD, "expect": "C16.R1",
     "old": "    raise ctx.syntax_error(f\"Invalid number format: {s}\")\n", "new": "    raise ValueError(f\"Invalid number format: {s}\")\n"},
    {"name": "regex handler dropped", "file": RD, "expect": "C16.R1",
     "old": "    try:\n        return langutil.regex_from_str(s)\n    except re.error as e:\n        raise ctx.syntax_error(f\"Unrecognized regex pattern syntax: {s}\") from e\n", "new": "    return langutil.regex_from_str(s)\n"},
    {"name": "new reader macro embeds unchecked form", "file": RD, "expect": "C16.R2",
     "old": "def _read_comment_macro(ctx: ReaderContext) -> Comment:", "new": "def _read_splice_macro(ctx: ReaderContext):\n    ctx.reader.advance()\n    nxt = _read_next_consuming_comment(ctx)\n    return llist.l(_UNQUOTE_SPLICING, nxt)\n\n\ndef _read_comment_macro(ctx: ReaderContext) -> Comment:",
     "edits": [
         {"file": RD, "old": "def _read_comment_macro(ctx: ReaderContext) -> Comment:", "new": "def _read_splice_macro(ctx: ReaderContext):\n    ctx.reader.advance()\n    nxt = _read_next_consuming_comment(ctx)\n    return llist.l(_UNQUOTE_SPLICING, nxt)\n\n\ndef _read_comment_macro(ctx: ReaderContext) -> Comment:"},
         {"file": RD, "old": "    \"_\": _read_comment_macro,\n", "new": "    \"_\": _read_comment_macro,\n    \"$\": _read_splice_macro,\n"},
     ]},
    {"name": "dispatch key disagrees with assert", "file": RD, "expect": "C16.R3",
     "old": "    \"@\": _read_deref,\n", "new": "    \"@\": _read_deref,\n    \"$\": _read_deref,\n"},
    {"name": "prompt swallows EOF as error", "file": PROMPT, "expect": "C16.R6",
     "old": "            except reader.UnexpectedEOFError:\n                event.current_buffer.insert_text(\"\\n\")\n            except reader.SyntaxError as e:", "new": "            except reader.SyntaxError as e:"},
    # twins
    {"name": "number conversions lose their handler (the repaired defect)", "file": RD, "expect": "C16.R1",
     "old": "    except (ValueError, ArithmeticError) as e:", "new": "    except KeyError as e:"},
    {"name": "twin: number handler names the classes one by one", "file": RD, "expect": None,
     "old": "    except (ValueError, ArithmeticError) as e:", "new": "    except (ValueError, ZeroDivisionError, OverflowError, decimal.InvalidOperation, ArithmeticError) as e:"},
]

SELFTEST = [c for c in SELFTEST if c["name"] != "unguarded int on letters"]  # its multi-line anchor no longer parses after the reader repair
