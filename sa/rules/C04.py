"""C04 -- persistent collections are immutable values."""
from __future__ import annotations

import ast

from ..core import AnalysisError, rule
from .. import pyfacts as P

FILES = {
    "src/basilisp/lang/vector.py": ["PersistentVector", "MapEntry"],
    "src/basilisp/lang/map.py": ["PersistentMap"],
    "src/basilisp/lang/set.py": ["PersistentSet"],
    "src/basilisp/lang/list.py": ["PersistentList"],
    "src/basilisp/lang/queue.py": ["PersistentQueue"],
}
TRANSIENTS = {
    "src/basilisp/lang/vector.py": ("TransientVector", "PersistentVector", "persistent"),
    "src/basilisp/lang/map.py": ("TransientMap", "PersistentMap", "finish"),
    "src/basilisp/lang/set.py": ("TransientSet", "PersistentSet", "finish"),
}
IFACE = "src/basilisp/lang/interfaces.py"
RS = "rust/src/basilisp_native/seq.rs"

EXPLANATION = (
    "Immutability / isolation rules over the five persistent wrappers: no method but __init__ stores to a value field or "
    "mutates the delegate in place; an evolver/mutation obtained from the delegate never escapes (it is only a receiver of "
    "mutation calls and of persistent()/finish(), or goes straight into the Transient constructor); persistent! hands out a "
    "frozen delegate; __eq__/__hash__ never look at metadata; with_meta is pure and installs exactly the given metadata; a "
    "mutator may return `self` unchanged only behind identity/emptiness tests, never behind a Python == on element values."
)
DECIDES = "no stores to value fields, evolver non-escape, transient hand-off, metadata invisible to =/hash, with_meta pure and exact, no ==-guarded self-return shortcuts, nil metadata installed like any other, pop stays in its collection type, nth covers every sequential collection, the elements of a vararg mutator are judged against the evolving collection (never filtered by a test of the receiver)"
DECLINED = "agreement of each operation's result with the mathematical model (values); internals of pyrsistent / immutables"
TRUSTED = ["FT-delegate: pyrsistent pvector/plist/pdeque and immutables.Map are immutable; evolver()/mutate() are copy-on-write"]
ASSUMPTIONS = []
TECHNIQUE = "field-store and escape analysis over the wrapper classes (Python AST), attribute scan of the Rust pyclasses"

MUTATORS = ("assoc", "cons", "dissoc", "disj", "pop", "update", "update_with", "empty", "with_meta")


def _classes(ctx):
    for rel, names in FILES.items():
        tree = ctx.py(rel)
        for n in names:
            c = P.find_def(tree, n)
            if c is None:
                raise AnalysisError(f"anchor vanished: {rel}::{n}")
            yield rel, c


@rule("C04.R1", floor=6)
def r1_no_stores_to_value_fields(ctx):
    """In the persistent classes no method other than __init__ assigns / aug-assigns / deletes a
    value field of self (a field initialised from a constructor parameter), stores through the
    delegate (`self._inner[k] = v`, `del self._inner[k]`) or calls a delegate method for its side
    effect (result discarded); __slots__ is declared.  A memo field initialised to a constant is
    not a value field."""
    for rel, cls in _classes(ctx):
        init = P.methods(cls).get("__init__")
        value_fields = set()
        if init is not None:
            params = {a.arg for a in init.args.args[1:]}
            for s, attr in P.self_attr_stores(init):
                v = getattr(s, "value", None)
                if v is not None and P.names_read(v) & params:
                    value_fields.add(attr)
        else:
            value_fields = {"_inner", "_meta"}
        problems = []
        for m in P.all_methods(cls):
            if m.name == "__init__":
                continue
            for s, attr in P.self_attr_stores(m):
                if attr in value_fields or attr in ("_inner", "_meta"):
                    problems.append((s, f"`{P.un(s)}` in {m.name} stores to the value field {attr}"))
            for n in ast.walk(m):
                if isinstance(n, (ast.Assign, ast.AugAssign, ast.Delete)):
                    for t in P.store_targets(n):
                        if isinstance(t, ast.Subscript) and P.un(t.value).startswith("self._inner"):
                            problems.append((n, f"`{P.un(n)}` in {m.name} mutates the delegate in place"))
                if isinstance(n, ast.Expr) and isinstance(n.value, ast.Call) and P.un(n.value.func).startswith("self._inner."):
                    problems.append((n, f"`{P.un(n)}` in {m.name} calls a delegate method for its side effect (result discarded)"))
                if isinstance(n, ast.Call) and P.un(n.func) in ("object.__setattr__", "setattr") and n.args and P.un(n.args[0]) == "self":
                    problems.append((n, f"`{P.un(n)}` in {m.name} sets an attribute reflectively"))
        ok = not problems
        ctx.ob("C04.R1", f"{rel}::{cls.name}::no store to {sorted(value_fields) or ['_inner', '_meta']} outside __init__", rel, cls.lineno, ok,
               "" if ok else problems[0][1] + ": a value obtained earlier changes under its holder")
        slots = P.class_assign(cls, "__slots__")
        ok = slots is not None
        ctx.ob("C04.R1", f"{rel}::{cls.name}::__slots__ declared", rel, cls.lineno, ok, "" if ok else "no __slots__: arbitrary attributes can be attached to a value")
    rf = ctx.rust(RS)
    for name in ("Cons", "EmptySequence", "LazySeq"):
        st = rf.structs.get(name)
        if st is None:
            raise AnalysisError(f"anchor vanished: struct {name}")
        ok = "frozen" in st[0]
        ctx.ob("C04.R1", f"{RS}::{name}::frozen pyclass", RS, st[2], ok, "" if ok else f"{name} lost `frozen`")


@rule("C04.R2", floor=5)
def r2_evolvers_do_not_escape(ctx):
    """A value obtained from self._inner.evolver() / .mutate() inside a persistent class is used only
    as the receiver of mutation calls, subscripts, membership tests and persistent()/finish(), or is
    passed straight to the Transient constructor in to_transient."""
    for rel, cls in _classes(ctx):
        for m in P.all_methods(cls):
            names = {}
            for n in ast.walk(m):
                if isinstance(n, ast.Assign) and isinstance(n.value, ast.Call) and P.un(n.value.func) in ("self._inner.evolver", "self._inner.mutate"):
                    for t in n.targets:
                        if isinstance(t, ast.Name):
                            names[t.id] = n
                if isinstance(n, ast.With):
                    for it in n.items:
                        if isinstance(it.context_expr, ast.Call) and P.un(it.context_expr.func) in ("self._inner.evolver", "self._inner.mutate") and isinstance(it.optional_vars, ast.Name):
                            names[it.optional_vars.id] = n
                if isinstance(n, ast.Call) and P.un(n.func) in ("self._inner.evolver", "self._inner.mutate"):
                    par = P.parent(n)
                    direct_ok = (isinstance(par, ast.Call) and P.un(par.func).startswith("Transient") and m.name == "to_transient") or isinstance(par, (ast.Assign, ast.withitem))
                    if not direct_ok:
                        ctx.ob("C04.R2", f"{rel}::{cls.name}.{m.name}::{P.un(par)[:80]}", rel, n.lineno, False, "a mutable evolver of the delegate is handed to something other than the Transient constructor")
                    elif isinstance(par, ast.Call):
                        ctx.ob("C04.R2", f"{rel}::{cls.name}.{m.name}::{P.un(par)}", rel, n.lineno, True, "evolver goes straight into the transient")
            tree_ = ctx.py(rel)

            def escapes(func, name, depth=0):
                """The use through which `name` leaves `func`, or None.  Handing it to a private helper of
                the same module is no escape if the helper's parameter stays local in turn."""
                for u in ast.walk(func):
                    if isinstance(u, ast.Name) and u.id == name and isinstance(u.ctx, ast.Load):
                        par = P.parent(u)
                        if isinstance(par, ast.Attribute) and par.value is u:
                            continue  # receiver: e.append / m.set / m.finish / e.persistent
                        if isinstance(par, ast.Subscript) and par.value is u:
                            continue
                        if isinstance(par, ast.Compare):
                            continue  # k in m
                        if isinstance(par, ast.Call) and u in par.args and isinstance(par.func, ast.Name) and par.func.id.startswith("_") and depth < 2:
                            h = P.find_def(tree_, par.func.id)
                            pos = par.args.index(u)
                            if h is not None and isinstance(h, P.FUNC) and pos < len(h.args.args) and not any(isinstance(a, ast.Starred) for a in par.args):
                                inner = escapes(h, h.args.args[pos].arg, depth + 1)
                                if inner is None:
                                    continue
                                return inner
                        return par
                return None

            for name, origin in names.items():
                bad = escapes(m, name)
                ok = bad is None
                ctx.ob("C04.R2", f"{rel}::{cls.name}.{m.name}::evolver `{name}` stays local", rel, origin.lineno, ok,
                       "" if ok else f"the evolver `{name}` escapes through `{P.un(bad)[:80]}`: later mutation through it would be visible in a value already handed out")


@rule("C04.R3", floor=3)
def r3_transient_handoff(ctx):
    """Transient*.to_persistent returns Persistent*(self._inner.persistent() | .finish()), never the
    mutable object itself."""
    for rel, (tname, pname, fin) in TRANSIENTS.items():
        cls = P.find_def(ctx.py(rel), tname)
        if cls is None:
            raise AnalysisError(f"anchor vanished: {rel}::{tname}")
        m = P.methods(cls).get("to_persistent")
        if m is None:
            raise AnalysisError(f"anchor vanished: {tname}.to_persistent")
        rets = [r for r in ast.walk(m) if isinstance(r, ast.Return) and r.value is not None]
        ok = bool(rets) and all(isinstance(r.value, ast.Call) and P.un(r.value.func) == pname and r.value.args and P.un(r.value.args[0]) in (f"self._inner.{fin}()", "self._inner.persistent()", "self._inner.finish()") for r in rets)
        ctx.ob("C04.R3", f"{rel}::{tname}.to_persistent::{' | '.join(P.un(r.value) for r in rets)}", rel, m.lineno, ok,
               "" if ok else "persistent! does not freeze the evolver: the persistent result shares mutable state with the transient")


@rule("C04.R4", floor=8)
def r4_metadata_invisible_to_eq_and_hash(ctx):
    """__eq__ / __hash__ of the persistent classes, ISeq.__eq__/__hash__ and seq_equals never
    access _meta / meta."""
    targets = []
    for rel, cls in _classes(ctx):
        for name in ("__eq__", "__hash__"):
            m = P.methods(cls).get(name)
            if m is not None:
                targets.append((rel, f"{cls.name}.{name}", m))
    it = ctx.py(IFACE)
    iseq = P.find_def(it, "ISeq")
    for name in ("__eq__", "__hash__"):
        m = P.methods(iseq).get(name)
        if m is None:
            raise AnalysisError(f"anchor vanished: ISeq.{name}")
        targets.append((IFACE, f"ISeq.{name}", m))
    se = P.find_def(it, "seq_equals")
    if se is None:
        raise AnalysisError("anchor vanished: interfaces.seq_equals")
    targets.append((IFACE, "seq_equals", se))
    for rel, q, m in targets:
        bad = [n for n in ast.walk(m) if isinstance(n, ast.Attribute) and n.attr in ("_meta", "meta")]
        ctx.ob("C04.R4", f"{rel}::{q}::no metadata access", rel, m.lineno, not bad, "" if not bad else f"`{P.un(bad[0])}`: metadata takes part in equality / hashing")


@rule("C04.R5", floor=5)
def r5_with_meta_pure_and_exact(ctx):
    """with_meta does not store to self and returns a constructor / factory call on the same
    delegate with meta=<the parameter> (not merged, not dropped)."""
    for rel, cls in _classes(ctx):
        m = cls and P.methods(cls).get("with_meta")
        if m is None:
            continue
        p = m.args.args[1].arg
        stores = P.self_attr_stores(m)
        rets = [r for r in ast.walk(m) if isinstance(r, ast.Return) and r.value is not None]
        ok = not stores and bool(rets)
        why = "with_meta stores to self" if stores else ""
        for r in rets:
            v = r.value
            if not (isinstance(v, ast.Call) and v.args and P.un(v.args[0]) == "self._inner"):
                ok, why = False, f"`{P.un(v)}` is not a constructor call on the same delegate"
                continue
            kw = {k.arg: P.un(k.value) for k in v.keywords}
            pos_meta = P.un(v.args[1]) if len(v.args) > 1 else None
            if kw.get("meta", pos_meta) != p:
                ok, why = False, f"`{P.un(v)}` does not install exactly the given metadata `{p}`"
        ctx.ob("C04.R5", f"{rel}::{cls.name}.with_meta::{' | '.join(P.un(r.value) for r in rets)}", rel, m.lineno, ok, why)
    # ... and the core function hands *every* metadata value on, nil included: a test of the new
    # metadata's truthiness alone returns the value with its old metadata for (with-meta x nil)
    from .. import lispread as L
    CORE = "src/basilisp/core.lpy"
    defs = L.top_defs(ctx.lisp(CORE))
    wm = defs.get("with-meta")
    if wm is None:
        raise AnalysisError("anchor vanished: core.lpy::with-meta")
    fns = [f for f in L.walk(wm) if L.head(f) in ("fn*", "fn") and any(isinstance(x, L.Vec) for x in f.items)]
    if not fns:
        raise AnalysisError("core.lpy::with-meta is not a fn form")
    params = next(x for x in fns[0].items if isinstance(x, L.Vec))
    on, mn = params.items[0].val, params.items[1].val
    calls = [f for f in L.walk(fns[0]) if L.head(f) == ".with-meta" and len(f.items) == 3 and f.items[1].text() == on and f.items[2].text() == mn]
    if not calls:
        raise AnalysisError("core.lpy::with-meta no longer calls (.with-meta o meta)")
    ok, why = True, ""
    for c in calls:
        for a in L.ancestors(c):
            if a is fns[0]:
                break
            if L.head(a) in ("if", "when", "if-not", "when-not") and len(a.items) >= 3 and not any(isinstance(x, L.Sym) and x.val == on for x in L.walk(a.items[1])):
                if any(isinstance(x, L.Sym) and x.val == mn for x in L.walk(a.items[1])):
                    ok, why = False, f"`{a.items[1].text()}` alone decides whether the metadata is installed: (with-meta x nil) returns x with its old metadata instead of a value whose metadata is nil"
    ctx.ob("C04.R5", f"{CORE}::with-meta::nil metadata is installed like any other", CORE, wm.line, ok, why,
           witness="(meta (with-meta (with-meta [1] {:a 1}) nil)) => {:a 1}")


@rule("C04.R11", floor=1)
def r11_native_seq_methods_do_not_unwrap_what_python_may_leave_out(ctx):
    """A method of the native seq classes (Cons, LazySeq, ...) that unwraps an Option taken from a
    struct field or from one of its own parameters panics when the option is None -- and None is
    what Python legitimately passes or stores there (a Cons onto an empty collection has no rest,
    an empty lazy seq has no seq).  A panic surfaces as pyo3's PanicException, a BaseException that
    `(catch python/Exception ...)` does not catch, for an operation (with-meta) that the model
    defines on every value.  Every such unwrap is therefore guarded by an is_some() test of the
    same expression in the same condition, or replaced by a match."""
    import re
    rf = ctx.rust(RS)
    n = 0
    for f in rf.fns:
        if f.owner == "":
            continue  # module initialisation unwraps import results, not caller-supplied options
        sig_start = rf.code.rfind("fn " + f.name, 0, f.start)
        sig = rf.code[sig_start:f.start] if sig_start >= 0 else ""
        opt_params = set(re.findall(r"\b([a-z_][a-z0-9_]*)\s*:\s*Option\s*<", sig))
        st = rf.structs.get(f.owner)
        opt_fields = set(re.findall(r"\b([a-z_][a-z0-9_]*)\s*:\s*Option\s*<", st[1])) if st else set()
        for m in re.finditer(r"((?:self|cur|slf|[a-z_][a-z0-9_]*)(?:\s*\.\s*[a-z_][a-z0-9_]*(?:\s*\([^()]*\))?)*?)\s*\.\s*unwrap\s*\(\s*\)", f.body):
            chain = re.sub(r"\s+", "", m.group(1))
            head = chain.split(".")[0]
            field = chain.split(".")[1].split("(")[0] if "." in chain else None
            is_opt = (head in opt_params) or (head in ("self", "cur", "slf") and field in opt_fields)
            if not is_opt:
                continue
            n += 1
            base = head if head in opt_params else f"{head}.{field}"
            # the statement / condition the unwrap sits in
            a = max(f.body.rfind(";", 0, m.start()), f.body.rfind("{", 0, m.start()), f.body.rfind("}", 0, m.start())) + 1
            before = re.sub(r"\s+", "", f.body[a:m.start()])
            guarded = f"{base}.is_some()&&" in before or re.search(r"iflet\s*Some", f.body[a:m.start()]) is not None
            ctx.ob("C04.R11", f"{RS}::{f.owner}::{f.name}::{chain}.unwrap() is guarded by is_some()", RS, rf.line_of(f.start + 1 + m.start()), guarded,
                   "" if guarded else f"`{chain}.unwrap()` panics when `{base}` is None, which Python code can make it: the operation raises PanicException (a BaseException) instead of working on, or rejecting, the value",
                   witness="(with-meta (cons 1 []) {:a 1}) / (with-meta (map inc []) {:a 1}) => pyo3_runtime.PanicException")
    if n == 0:
        ctx.ob("C04.R11", f"{RS}::no method unwraps an Option field or parameter", RS, 0, True)


@rule("C04.R10", floor=4)
def r10_every_sequential_collection_has_an_nth_arm(ctx):
    """nth (and with it sequential destructuring and rand-nth) dispatches on the type of the
    collection through functools.singledispatch.  Every persistent collection class that is
    sequential -- declares ISequential among its ancestors -- has to be covered by an arm: the class
    itself or one of its (transitive, by-name) base classes is registered.  An uncovered class
    falls to the base function, which raises TypeError for it."""
    rt = "src/basilisp/lang/runtime.py"
    reg = P.singledispatch_registry(ctx.py(rt), "nth")
    if "default" not in reg:
        raise AnalysisError("anchor vanished: runtime.nth (singledispatch base)")
    registered = {k.split(".")[-1].split("[")[0] for k in reg if k != "default"}
    # by-name class graph over interfaces.py and the collection modules
    bases = {}
    for rel in [IFACE, *FILES]:
        for c in ast.walk(ctx.py(rel)):
            if isinstance(c, ast.ClassDef):
                bases[c.name] = [P.un(b).split("[")[0].split(".")[-1] for b in c.bases]

    def ancestors_of(name, seen=None):
        seen = seen if seen is not None else set()
        for b in bases.get(name, []):
            if b not in seen:
                seen.add(b)
                ancestors_of(b, seen)
        return seen
    n = 0
    for rel, cls in _classes(ctx):
        anc = ancestors_of(cls.name)
        if "ISequential" not in anc:
            continue
        n += 1
        cover = sorted(({cls.name} | anc) & registered)
        ctx.ob("C04.R10", f"{rt}::nth::{cls.name} is covered by a registered arm", rt, reg["default"].lineno, bool(cover),
               "" if cover else f"{cls.name} is sequential but neither it nor any of its base classes ({', '.join(sorted(anc & {'ISeq', 'IIndexed', 'Sequence', 'IPersistentList', 'IPersistentVector'})) or 'none of the registered kinds'}) is registered with nth: (nth coll i) and [a b] destructuring raise TypeError",
               witness="(nth (queue [:a :b :c]) 1) => TypeError")
    if n < 3:
        raise AnalysisError(f"only {n} sequential collection classes found")


@rule("C04.R9", floor=3)
def r9_pop_stays_in_its_collection_type(ctx):
    """pop of a vector, list or queue is a value of the same collection type (the model's sequence
    minus one element): it is built by the class's own constructor or slicing, never handed out
    from a seq-level accessor (`rest` of a one element list is the generic empty seq, which is not
    a list: peek / pop / list? on it fail)."""
    n = 0
    for rel, cls in _classes(ctx):
        m = cls and P.methods(cls).get("pop")
        if m is None or cls.name.startswith("Transient"):
            continue
        n += 1
        rets = [r for r in ast.walk(m) if isinstance(r, ast.Return) and r.value is not None]
        bad = []
        for r in rets:
            v = r.value
            while isinstance(v, ast.Call) and P.un(v.func) in ("cast", "typing.cast") and len(v.args) == 2:
                v = v.args[1]
            same_type = (isinstance(v, ast.Call) and P.un(v.func) in (cls.name, "type(self)", "self.__class__")) or (isinstance(v, ast.Subscript) and P.un(v.value) == "self") or P.un(v) in ("self", "EMPTY")
            if not same_type:
                bad.append(r)
        ctx.ob("C04.R9", f"{rel}::{cls.name}.pop::returns a {cls.name}", rel, m.lineno, bool(rets) and not bad,
               "" if rets and not bad else f"`{P.un(bad[0].value) if bad else '?'}` is not built by {cls.name} itself: for a one element list `rest` is the generic empty seq, so (list? (pop '(1))) is false and (peek (pop '(1))) raises AttributeError",
               witness="(peek (pop '(1))) => AttributeError")
    if n < 3:
        raise AnalysisError(f"only {n} pop implementations found")


def _controlling_tests(node, func):
    out = []
    cur = node
    while cur is not func and cur is not None:
        blk = P.block_of(cur)
        par = P.parent(cur)
        if blk is not None and cur in blk:
            for s in blk[: blk.index(cur)]:
                if isinstance(s, ast.If) and s.body and isinstance(s.body[-1], (ast.Return, ast.Raise)):
                    out.append(s.test)
        if isinstance(par, ast.If):
            out.append(par.test)
        cur = par
    return out


@rule("C04.R6", floor=5)
def r6_no_equality_guarded_self_return(ctx):
    """A mutator (assoc, cons, dissoc, disj, pop, update, ...) may return `self` unchanged only
    behind identity / emptiness tests; a Python == / != on stored values would conflate values that
    the language keeps apart (0 and false, 1 and 1.0) and hand back the old collection."""
    for rel, cls in _classes(ctx):
        for m in P.all_methods(cls):
            if m.name not in MUTATORS and not m.name.startswith(("assoc", "cons", "dissoc", "disj", "update")):
                continue
            bad = None
            for r in ast.walk(m):
                if isinstance(r, ast.Return) and r.value is not None and P.un(r.value) == "self":
                    for t in _controlling_tests(r, m):
                        for c in ast.walk(t):
                            if isinstance(c, ast.Compare) and any(isinstance(o, (ast.Eq, ast.NotEq)) for o in c.ops):
                                sides = [c.left] + c.comparators
                                if not any((isinstance(s, ast.Constant) and isinstance(s.value, int)) or (isinstance(s, ast.Call) and P.un(s.func) == "len") for s in sides):
                                    bad = (r, c)
            ok = bad is None
            ctx.ob("C04.R6", f"{rel}::{cls.name}.{m.name}::no ==-guarded `return self`", rel, m.lineno, ok,
                   "" if ok else f"`return self` is taken when `{P.un(bad[1])}`: Python equality is coarser than the language's (0 == False, 1 == 1.0), so an assoc of a different value returns the old collection")


def _swallows(h: ast.ExceptHandler) -> bool:
    return not any(isinstance(x, ast.Raise) for s in h.body for x in ast.walk(s))


@rule("C04.R8", floor=4)
def r8_every_vararg_is_processed(ctx):
    """A mutator taking several elements/keys (`*elems`, `*ks`) applies each of them: a loop over
    the vararg is never wrapped, as a whole, in a try whose handler swallows the exception (the
    first absent key would silently drop the remaining arguments), and never left early by
    break/return from a handler.  The swallowing try belongs around the single operation."""
    n = 0
    for rel, cls in _classes(ctx):
        for m in P.all_methods(cls):
            va = m.args.vararg.arg if m.args.vararg is not None else None
            if va is None:
                continue
            loops = [f for f in ast.walk(m) if isinstance(f, ast.For) and any(isinstance(x, ast.Name) and x.id == va for x in ast.walk(f.iter))]
            for f in loops:
                n += 1
                outer = [t for t in P.ancestors(f) if isinstance(t, ast.Try) and any(_swallows(h) for h in t.handlers) and any(P.contains(s, f) for s in t.body)]
                # stop at the method boundary
                outer = [t for t in outer if P.contains(m, t)]
                early = [x for h in ast.walk(f) if isinstance(h, ast.ExceptHandler) for s in h.body for x in ast.walk(s) if isinstance(x, (ast.Break, ast.Return))]
                ok = not outer and not early
                why = ""
                if outer:
                    why = f"the loop over *{va} sits inside a try (line {outer[0].lineno}) whose handler swallows the exception: the first argument that raises ends the loop and the remaining arguments are silently ignored"
                elif early:
                    why = f"a handler inside the loop over *{va} leaves the loop: the remaining arguments are ignored"
                ctx.ob("C04.R8", f"{rel}::{cls.name}.{m.name}::every element of *{va} is applied", rel, f.lineno, ok, why,
                       witness="(disj #{1 2} 5 1) must be #{2}")
    if n == 0:
        raise AnalysisError("no vararg loops found in the collection classes")


def _reads_receiver(test, aliases) -> bool:
    for x in ast.walk(test):
        if isinstance(x, ast.Name) and (x.id == "self" or x.id in aliases):
            return True
    return False


@rule("C04.R12", floor=4)
def r12_varargs_are_applied_to_the_evolving_collection(ctx):
    """The elements of a `*vararg` are applied one after the other, each to the collection as the
    earlier ones left it (`(assoc m k v1 k v2)` = `(assoc (assoc m k v1) k v2)`): none of them is
    skipped or filtered out under a test that reads the *receiver* (`self...`, or a local that
    names one of its fields) -- the receiver is the state before the first element, so such a test
    judges element i against a collection that elements < i have already changed."""
    n = 0
    for rel, cls in _classes(ctx):
        for m in P.all_methods(cls):
            va = m.args.vararg.arg if m.args.vararg is not None else None
            if va is None or (m.name not in MUTATORS and not m.name.startswith(("assoc", "cons", "dissoc", "disj", "update"))):
                continue
            defs = P.single_defs(m)
            aliases = {k for k, a in defs.items() if any(P.is_self_attr(x) for x in ast.walk(a.value))}
            # locals derived from the vararg (entries = [... for k, v in partition(kvs, 2) ...])
            derived = {va}
            for _ in range(3):
                derived |= {k for k, a in defs.items() if any(isinstance(x, ast.Name) and x.id in derived for x in ast.walk(a.value))}
            bad = None
            for x in ast.walk(m):
                if isinstance(x, ast.comprehension) and any(isinstance(y, ast.Name) and y.id in derived for y in ast.walk(x.iter)):
                    for t in x.ifs:
                        if _reads_receiver(t, aliases):
                            bad = (t, "filters the elements")
                if isinstance(x, ast.Call) and P.un(x.func) in ("filter", "itertools.filterfalse", "filterfalse", "takewhile", "dropwhile", "itertools.takewhile", "itertools.dropwhile") and len(x.args) == 2 \
                        and any(isinstance(y, ast.Name) and y.id in derived for y in ast.walk(x.args[1])) and _reads_receiver(x.args[0], aliases):
                    bad = (x.args[0], "filters the elements")
                if isinstance(x, (ast.For, ast.While)) and isinstance(x, ast.For) and any(isinstance(y, ast.Name) and y.id in derived for y in ast.walk(x.iter)):
                    for i in ast.walk(x):
                        if isinstance(i, (ast.If, ast.IfExp)) and _reads_receiver(i.test, aliases):
                            bad = (i.test, "applies an element or skips it")
            n += 1
            ok = bad is None
            ctx.ob("C04.R12", f"{rel}::{cls.name}.{m.name}::elements of *{va} judged against the evolving collection", rel, m.lineno, ok,
                   "" if ok else f"`{P.un(bad[0])}` {bad[1]} of *{va} by looking at the receiver, i.e. at the collection before the first element was applied: an element that undoes an earlier one of the same call is taken for a no-op",
                   witness="(assoc {:a 1} :a 2 :a 1) must be {:a 1}")
    if n == 0:
        raise AnalysisError("no vararg mutators found in the collection classes")


RT = "src/basilisp/lang/runtime.py"
DISPATCHED = ("assoc", "update", "conj", "dissoc", "disj", "pop", "contains", "get", "nth", "nthnext", "nthrest")


@rule("C04.R7", floor=3)
def r7_runtime_ops_do_not_return_their_input_blindly(ctx):
    """The runtime implementations behind assoc / update / conj / dissoc registered for the
    collection interfaces answer with the collection's own operation; a path that hands the input
    collection back unchanged must be behind a test that the key is present (contains / entry /
    membership), because for an absent key even an identical (nil) value changes the collection."""
    tree = ctx.py(RT)
    n = 0
    for fname in ("assoc", "update", "conj"):
        reg = P.singledispatch_registry(tree, fname)
        for key, fn in sorted(reg.items()):
            if key in ("default", "type(None)"):
                continue
            n += 1
            coll = fn.args.args[0].arg
            rets = [r for r in P.walk_local(fn) if isinstance(r, ast.Return) and r.value is not None]
            bad = None
            for r in rets:
                if P.un(r.value) == coll:
                    tests = _controlling_tests(r, fn)
                    if not any(any(x in P.un(t) for x in (".contains(", ".entry(", f" in {coll}", "_SENTINEL")) for t in tests):
                        bad = r
            delegates = any(isinstance(r.value, ast.Call) and P.un(r.value.func).startswith(f"{coll}.") for r in rets)
            ok = bad is None and delegates
            ctx.ob("C04.R7", f"{RT}::{fn.name} ({fname} for {key})", RT, fn.lineno, ok,
                   "" if ok else (f"`return {coll}` without a key-presence test: (update {{}} :a identity) would return {{}} instead of {{:a nil}}" if bad is not None else f"{fn.name} no longer answers with the collection's own operation"))
    if n == 0:
        raise AnalysisError("no registered collection implementations of assoc/update/conj found")


SELFTEST = [
    {"name": "Cons::with_meta unwraps an absent rest (the repaired defect)", "file": RS, "expect": "C04.R11",
     "old": "        let rest = match &cur.rest {\n            Some(r) => r.clone_ref(py),\n            None => py.None(),\n        };\n        tp.call((cur.first.clone_ref(py), rest), Some(&kwargs))",
     "new": "        tp.call((cur.first.clone_ref(py), cur.rest.as_ref().unwrap().clone_ref(py)), Some(&kwargs))"},
    {"name": "nth has no arm for queues (the repaired defect)", "file": RT, "expect": "C04.R10",
     "old": "@nth.register(lqueue.PersistentQueue)\n", "new": ""},
    {"name": "list pop hands out rest (the repaired defect)", "file": "src/basilisp/lang/list.py", "expect": "C04.R9",
     "old": "        return PersistentList(self._inner.rest)\n", "new": "        return cast(PersistentList, self.rest)\n", "nth": 1},
    {"name": "with-meta ignores nil metadata (the repaired defect)", "file": "src/basilisp/core.lpy", "expect": "C04.R5",
     "old": "       (if (if meta meta (if (python/hasattr o \"meta\") (.-meta o) nil))\n", "new": "       (if meta\n"},
    {"name": "twin: with-meta always calls .with-meta", "file": "src/basilisp/core.lpy", "expect": None,
     "old": "       (if (if meta meta (if (python/hasattr o \"meta\") (.-meta o) nil))\n         (.with-meta o meta)\n         o)))", "new": "       (.with-meta o meta)))"},
    {"name": "seeded C04/a: update returns its input when the value is identical", "file": RT, "expect": "C04.R7",
     "old": "    new_v = f(old_v, *args)\n    return m.assoc(k, new_v)\n", "new": "    new_v = f(old_v, *args)\n    if new_v is old_v:\n        return m\n    return m.assoc(k, new_v)\n"},
    {"name": "twin: update shortcut behind a presence test", "file": RT, "expect": None,
     "old": "    new_v = f(old_v, *args)\n    return m.assoc(k, new_v)\n", "new": "    new_v = f(old_v, *args)\n    if new_v is old_v and m.contains(k):\n        return m\n    return m.assoc(k, new_v)\n"},
    {"name": "vector cons fast path mutates _inner", "file": "src/basilisp/lang/vector.py", "expect": "C04.R1",
     "old": "        e = self._inner.evolver()\n        for elem in elems:\n            e.append(elem)\n        return PersistentVector(e.persistent(), meta=self.meta)\n",
     "new": "        if len(elems) == 1 and self._meta is None:\n            self._inner = self._inner.append(elems[0])\n            return self\n        e = self._inner.evolver()\n        for elem in elems:\n            e.append(elem)\n        return PersistentVector(e.persistent(), meta=self.meta)\n"},
    {"name": "map keeps its mutation for reuse", "file": "src/basilisp/lang/map.py", "expect": "C04.R2",
     "old": "    def to_transient(self) -> TransientMap[K, V]:\n        return TransientMap(self._inner.mutate())\n",
     "new": "    def to_transient(self) -> TransientMap[K, V]:\n        m = self._inner.mutate()\n        _MUTATIONS.append(m)\n        return TransientMap(m)\n"},
    {"name": "persistent! returns the evolver-backed vector", "file": "src/basilisp/lang/vector.py", "expect": "C04.R3",
     "old": "        return PersistentVector(self._inner.persistent())\n", "new": "        return PersistentVector(self._inner)\n"},
    {"name": "queue equality looks at metadata", "file": "src/basilisp/lang/queue.py", "expect": "C04.R4",
     "old": "        if isinstance(other, Sized) and len(self) != len(other):\n            return False\n        return seq_equals(self, other)\n",
     "new": "        if isinstance(other, Sized) and len(self) != len(other):\n            return False\n        if getattr(other, \"_meta\", None) != self._meta:\n            return False\n        return seq_equals(self, other)\n"},
    {"name": "with_meta merges instead of replacing", "file": "src/basilisp/lang/map.py", "expect": "C04.R5",
     "old": "        return PersistentMap(self._inner, meta=meta)\n", "new": "        return PersistentMap(self._inner, meta=(self._meta or EMPTY).update(meta or EMPTY))\n"},
    {"name": "with_meta mutates in place", "file": "src/basilisp/lang/list.py", "expect": "C04.R5",
     "old": "        return list(self._inner, meta=meta)\n", "new": "        self._meta = meta\n        return self\n"},
    {"name": "seeded C04/b: assoc no-op shortcut by ==", "file": "src/basilisp/lang/map.py", "expect": "C04.R6",
     "old": "    def assoc(self, *kvs):\n        with self._inner.mutate() as m:", "new": "    def assoc(self, *kvs):\n        if len(kvs) == 2 and self._inner.get(kvs[0], _ENTRY_SENTINEL) == kvs[1]:\n            return self\n        with self._inner.mutate() as m:"},
    # twins
    {"name": "twin: memoised hash field", "file": "src/basilisp/lang/queue.py", "expect": None,
     "edits": [
         {"file": "src/basilisp/lang/queue.py", "old": "    __slots__ = (\"_inner\", \"_meta\")\n", "new": "    __slots__ = (\"_hash\", \"_inner\", \"_meta\")\n"},
         {"file": "src/basilisp/lang/queue.py", "old": "        self._inner = wrapped\n        self._meta = meta\n", "new": "        self._inner = wrapped\n        self._meta = meta\n        self._hash = None\n"},
     ]},
    {"name": "twin: identity-guarded no-op assoc", "file": "src/basilisp/lang/map.py", "expect": None,
     "old": "    def assoc(self, *kvs):\n        with self._inner.mutate() as m:", "new": "    def assoc(self, *kvs):\n        if len(kvs) == 2 and self._inner.get(kvs[0], _ENTRY_SENTINEL) is kvs[1]:\n            return self\n        with self._inner.mutate() as m:"},
    {"name": "twin: empty cons returns self", "file": "src/basilisp/lang/list.py", "expect": None,
     "old": "        l = self._inner\n        for elem in elems:", "new": "        if not elems:\n            return self\n        l = self._inner\n        for elem in elems:"},
]
