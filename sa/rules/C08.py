"""C08 -- calls bind arguments to the right arity however the call is made."""
from __future__ import annotations

import ast

from ..core import AnalysisError, rule
from .. import pyfacts as P
from ..minipy import ClassModel, Interp, Obj, PyRaise, Unsupported

RT = "src/basilisp/lang/runtime.py"
GEN = "src/basilisp/lang/compiler/generator.py"

EXPLANATION = (
    "Two mechanisms the suite cannot reach (infinite argument seqs, a million iterations) are decided structurally: in apply "
    "and the variadic apply_to the lazy tail flows only into to_seq / .first / .rest / _WrappedRestArgs (never list(), len(), "
    "star-expansion) and the pre-binding loop is bounded by the fixed arity; recur compiles to a _TrampolineArgs value / a "
    "`continue`, the trampoline decorator is attached wherever has_recur is set and the trampoline itself is an iterative loop. "
    "The argument re-packing of a variadic recur is evaluated on representative argument tuples (nil / empty / non-empty rest); "
    "partial recomputes the apply_to of the partial from the remaining arities; a Var is called through its current value."
)
DECIDES = "laziness of apply on the variadic path, recur-as-loop (constant stack), rest-argument re-packing on recur judged by what the arity binds, arity-dispatch shape, partial/Var call forwarding, apply through a Var, trampolining of coroutine functions, per-arity variadic flag of recur points, max_fixed_arity covers the variadic arity's fixed parameters (analyzer computation, origin of every fn decorator's value)"
DECLINED = "the full binding table signature x call shape x argument count (a function of values)"
TRUSTED = ["Python *args star-expansion realises its operand", "concat() is lazy (C06)"]
ASSUMPTIONS = []
TECHNIQUE = "taint-style flow rule for the lazy tail, template checks on the generator, evaluation of the recur re-packing by our own AST interpreter"

LAZY_SINKS = {"to_seq", "_WrappedRestArgs", "lseq.to_seq", "concat"}
REALISERS = {"list", "tuple", "len", "sorted", "vec.vector", "llist.list", "set", "sum", "max", "min"}


def _uses(fn, name):
    return [n for n in ast.walk(fn) if isinstance(n, ast.Name) and n.id == name and isinstance(n.ctx, ast.Load)]


def _tail_problems(fn, names):
    """Uses of the lazy-tail names that realise the sequence."""
    bad = []
    for nm in names:
        for u in _uses(fn, nm):
            par = P.parent(u)
            if isinstance(par, ast.Attribute) and par.attr in ("first", "rest"):
                continue
            if isinstance(par, ast.Call) and u in par.args:
                f = P.un(par.func)
                if f in LAZY_SINKS:
                    # concat(...) is lazy, but star-expanding its result is not
                    gp = P.parent(par)
                    if f == "concat" and isinstance(gp, ast.Starred):
                        bad.append((u, f"`{P.un(P.stmt_of(u))}` star-expands concat(..., {nm}): the whole tail is realised"))
                    continue
                if f in REALISERS or f.endswith(".extend") or f.endswith(".append"):
                    bad.append((u, f"`{P.un(par)}` realises the tail `{nm}`"))
                    continue
                bad.append((u, f"`{P.un(par)}`: the tail `{nm}` escapes to an unknown consumer"))
                continue
            if isinstance(par, ast.Starred):
                bad.append((u, f"`*{nm}` star-expands the tail: an infinite argument seq never returns"))
                continue
            if isinstance(par, (ast.For, ast.comprehension)) and getattr(par, "iter", None) is u:
                bad.append((u, f"iteration over `{nm}` realises the whole tail"))
                continue
            if isinstance(par, ast.Assign) or isinstance(par, ast.Tuple) or isinstance(par, ast.Compare) or isinstance(par, ast.Assert) or isinstance(par, ast.BoolOp):
                continue
            if isinstance(par, (ast.If, ast.While)) and par.test is u:
                continue
    return bad


@rule("C08.R1", floor=4)
def r1_apply_is_lazy_on_the_variadic_path(ctx):
    """In runtime.apply (basilisp-fn branch) and the variadic apply_to closure of _fn_apply_to, the
    tail flows only into to_seq / .first / .rest / _WrappedRestArgs; the loop that pre-binds fixed
    parameters is bounded by max_fixed_arity - len(args); _unwrap_rest_args returns a lazy concat."""
    ap = ctx.fn(RT, "apply")
    # the branch taken for basilisp functions
    calls = [c for c in P.calls(ap) if P.un(c.func) == "f.apply_to"]
    ok = bool(calls) and all(len(c.args) == 2 and P.un(c.args[1]) == "s" for c in calls)
    ctx.ob("C08.R1", f"{RT}::apply::basilisp fns receive the tail unrealised via f.apply_to(final, s)", RT, ap.lineno, ok, "" if ok else "apply no longer hands the tail seq to apply_to as is")
    g_if = [n for n in ast.walk(ap) if isinstance(n, ast.If) and "apply_to" in P.un(n.test)]
    ok = bool(g_if) and all(not any("extend" in P.un(s) or "list(" in P.un(s) for s in n.body) for n in g_if)
    ctx.ob("C08.R1", f"{RT}::apply::no realisation on the apply_to branch", RT, ap.lineno, ok, "" if ok else "the tail is realised before apply_to is called")
    fa = ctx.fn(RT, "_fn_apply_to")
    inner = [n for n in ast.walk(fa) if isinstance(n, P.FUNC) and n.name == "apply_to"]
    if len(inner) < 2:
        raise AnalysisError("_fn_apply_to no longer defines two apply_to variants")
    variadic = None
    for n in ast.walk(fa):
        if isinstance(n, ast.If) and "_REST_KW in arities" in P.un(n.test):
            variadic = next((x for x in n.body if isinstance(x, P.FUNC)), None)
    if variadic is None:
        raise AnalysisError("cannot find the variadic apply_to")
    bad = _tail_problems(variadic, {"rest"})
    ctx.ob("C08.R1", f"{RT}::_fn_apply_to.apply_to[variadic]::tail `rest` only reaches to_seq/.first/.rest/_WrappedRestArgs", RT, variadic.lineno, not bad,
           "" if not bad else bad[0][1] + ": (apply f (range)) on a variadic fn never returns")
    loops = [n for n in ast.walk(variadic) if isinstance(n, ast.While)]
    ok = all("num_missing_args > 0" in P.un(l.test) for l in loops) and any(isinstance(s, ast.AugAssign) and P.un(s.target) == "num_missing_args" for l in loops for s in ast.walk(l))
    ctx.ob("C08.R1", f"{RT}::_fn_apply_to.apply_to[variadic]::pre-binding loop bounded by the fixed arity", RT, variadic.lineno, ok, "" if ok else "the loop that moves tail elements into fixed parameters is not bounded by the number of missing fixed arguments")
    ok = any(P.un(a) == "num_missing_args = max_fixed_arity - len(args)" for a in ast.walk(variadic) if isinstance(a, ast.Assign))
    ctx.ob("C08.R1", f"{RT}::_fn_apply_to.apply_to[variadic]::num_missing_args = max_fixed_arity - len(args)", RT, variadic.lineno, ok, "" if ok else "the number of fixed parameters still to bind is computed differently")
    # a Var standing for the fn: its own apply_to, or the fn is taken out of the Var before the test
    var = P.find_def(ctx.py(RT), "Var")
    var_has = var is not None and "apply_to" in P.methods(var)
    first_test = min((n.lineno for n in ast.walk(ap) if isinstance(n, ast.If) and "apply_to" in P.un(n.test)), default=0)
    deref = [n for n in ast.walk(ap) if isinstance(n, ast.If) and P.un(n.test) == "isinstance(f, Var)" and n.lineno < first_test
             and any(isinstance(s, ast.Assign) and P.un(s.targets[0]) == "f" and P.un(s.value) in ("f.value", "f.deref()") for s in n.body)]
    ok = var_has or bool(deref)
    ctx.ob("C08.R1", f"{RT}::apply::a Var is applied through its fn's apply_to", RT, ap.lineno, ok,
           "" if ok else "apply looks for apply_to on the Var object, which has none: (apply #'f (range)) on a variadic f realises the whole argument seq and never returns",
           witness="(defn f [a & r] a) (apply #'f (range))")
    un = ctx.fn(RT, "_unwrap_rest_args")
    rets = [P.un(r.value) for r in ast.walk(un) if isinstance(r, ast.Return)]
    need = {"concat(final, last.rest)", "concat(final, [last])"}
    ok = need <= set(rets) and set(rets) <= need | {"last.rest"}
    ctx.ob("C08.R1", f"{RT}::_unwrap_rest_args::lazy concat of the positional rest and the wrapped tail", RT, un.lineno, ok, "" if ok else f"_unwrap_rest_args does not splice the wrapped tail lazily after the positional rest arguments (returns {' | '.join(rets)})")
    gen = ctx.py(GEN)
    ok = P.module_assign(gen, "_UNWRAP_REST_ARGS_FN_NAME") is not None and any(isinstance(c, ast.Call) and any(P.un(k.value) == "_UNWRAP_REST_ARGS_FN_NAME" or P.un(a) == "_UNWRAP_REST_ARGS_FN_NAME" for k in c.keywords for a in [k.value]) for c in ast.walk(gen))
    ctx.ob("C08.R1", f"{GEN}::variadic fns unwrap their rest args with _unwrap_rest_args", GEN, 0, ok, "" if ok else "generated variadic functions no longer call _unwrap_rest_args")


@rule("C08.R2", floor=6)
def r2_recur_is_a_loop(ctx):
    """fn recur returns a _TrampolineArgs value (never a self-call); every function/method path adds
    the trampoline decorator under ctx.recur_point.has_recur; has_recur is set when a recur is
    generated; runtime._trampoline is an iterative `while True`; loop recur ends in `continue`."""
    gen = ctx.py(GEN)
    for name in ("__fn_recur_to_py_ast", "__deftype_method_recur_to_py_ast"):
        fn = ctx.fn(GEN, name)
        rets = [r for r in ast.walk(fn) if isinstance(r, ast.Return) and r.value is not None]
        ok = bool(rets) and all("func=_TRAMPOLINE_ARGS_FN_NAME" in P.un(r.value) for r in rets)
        ctx.ob("C08.R2", f"{GEN}::{name}::returns a _TrampolineArgs call", GEN, fn.lineno, ok, "" if ok else "fn recur compiles to something other than a trampoline-args value: deep recursion would grow the stack")
        ok = "ast.Constant(ctx.recur_point.is_variadic)" in P.un(fn)
        ctx.ob("C08.R2", f"{GEN}::{name}::passes is_variadic first", GEN, fn.lineno, ok, "" if ok else "the variadic flag is no longer the first trampoline argument")
    sites = [n for n in ast.walk(gen) if isinstance(n, ast.IfExp) and "_TRAMPOLINE_FN_NAME" in P.un(n.body) and P.un(n.test) == "ctx.recur_point.has_recur"]
    ctx.ob("C08.R2", f"{GEN}::trampoline decorator under has_recur at {len(sites)} site(s)", GEN, sites[0].lineno if sites else 0, len(sites) >= 3,
           "" if len(sites) >= 3 else "a function-emitting path lost its trampoline decorator: recur in such functions returns a _TrampolineArgs object to the caller")
    rec = ctx.fn(GEN, "_recur_to_py_ast")
    ok = any(P.un(a) == "ctx.recur_point.has_recur = True" for a in ast.walk(rec) if isinstance(a, ast.Assign))
    ctx.ob("C08.R2", f"{GEN}::_recur_to_py_ast::marks the recur point", GEN, rec.lineno, ok, "" if ok else "has_recur is never set")
    tr = ctx.fn(RT, "_trampoline")
    inners = [n for n in ast.walk(tr) if isinstance(n, P.FUNC) and n is not tr]
    names = {n.name for n in inners} | {"_trampoline"}
    ok = bool(inners) and all(any(isinstance(w, ast.While) and P.un(w.test) == "True" for w in ast.walk(i)) and not any(P.un(c.func) in names for c in P.calls(i)) for i in inners)
    ctx.ob("C08.R2", f"{RT}::_trampoline::iterative while True", RT, tr.lineno, ok, "" if ok else "the trampoline recurses")
    ok = bool(inners) and all("isinstance(ret, _TrampolineArgs)" in P.un(i) and "args = ret.args" in P.un(i) for i in inners)
    ctx.ob("C08.R2", f"{RT}::_trampoline::re-invokes with ret.args while a _TrampolineArgs comes back", RT, tr.lineno, ok, "" if ok else "the trampoline loop does not re-invoke with the recur arguments")
    # the generator puts the decorator on `async def` functions too (is_async next to the decorator
    # list): the value tested for _TrampolineArgs must then be the awaited result, not the coroutine
    emits_async = any(isinstance(c, ast.Call) and any(k.arg == "is_async" and P.un(k.value) != "False" for k in c.keywords)
                      and any(k.arg == "decorator_list" and "_TRAMPOLINE_FN_NAME" in P.un(k.value) for k in c.keywords) for c in ast.walk(gen))
    sync = [i for i in inners if isinstance(i, ast.FunctionDef)]
    asyn = [i for i in inners if isinstance(i, ast.AsyncFunctionDef)]

    def _awaits(i):
        return any(isinstance(a, ast.Assign) and P.un(a.targets[0]) == "ret" and isinstance(a.value, ast.Await) and isinstance(a.value.value, ast.Call) and P.un(a.value.value.func) == "f" for a in ast.walk(i))

    guards = [n for n in ast.walk(tr) if isinstance(n, ast.If) and "iscoroutinefunction(f)" in P.un(n.test)]
    ok = (not emits_async) or (bool(asyn) and all(_awaits(i) for i in asyn) and bool(sync) and bool(guards)
                               and all(any(a in ast.walk(g) for g in guards) for a in asyn))
    ctx.ob("C08.R2", f"{RT}::_trampoline::a coroutine function is trampolined by awaiting each round", RT, tr.lineno, ok,
           "" if ok else "the trampoline calls an `async def` function and tests the un-awaited coroutine for _TrampolineArgs: recur in an async fn runs the body once and returns the _TrampolineArgs object to the awaiting caller",
           witness="(defasync f [n acc] (if (pos? n) (recur (dec n) (+ acc n)) acc)) (asyncio/run (f 4 0)) => a _TrampolineArgs object")
    lp = ctx.fn(GEN, "__loop_recur_to_py_ast")
    appends = [P.un(c.args[0]) for c in sorted(P.calls(lp), key=lambda c: c.lineno) if P.un(c.func) == "recur_deps.append" and c.args]
    ok = bool(appends) and appends[-1] == "ast.Continue()"
    ctx.ob("C08.R2", f"{GEN}::__loop_recur_to_py_ast::ends in continue", GEN, lp.lineno, ok, "" if ok else "loop recur no longer ends with `continue`")


def _seq_model():
    cls = ClassModel(ast.parse("class ISeq:\n    def __iter__(self):\n        return iter(self._items)\n").body[0])
    return cls


@rule("C08.R4", floor=9)
def r4_recur_rest_argument_repacking(ctx):
    """_TrampolineArgs.args followed by _unwrap_rest_args, evaluated on representative recur argument
    tuples and judged by what the receiving arity binds: for a variadic target the final argument is
    the rest collection -- nil means 'no rest arguments', a seq or any other seqable collection
    arrives as its elements in order, the fixed arguments are untouched; a rest seq handed over
    wrapped gains no layer per iteration; for a non-variadic target the arguments pass as given."""
    tree = ctx.py(RT)
    cls = P.find_def(tree, "_TrampolineArgs")
    wcls = P.find_def(tree, "_WrappedRestArgs")
    if cls is None or wcls is None:
        raise AnalysisError("anchor vanished: runtime._TrampolineArgs / _WrappedRestArgs")
    model = ClassModel(cls)
    wmodel = ClassModel(wcls)
    iseq = _seq_model()
    prop = model.props.get("args")
    if prop is None:
        raise AnalysisError("anchor vanished: _TrampolineArgs.args")
    unwrap = ctx.fn(RT, "_unwrap_rest_args")
    realised = []

    def chain(*xs):
        out = []
        for x in xs:
            if isinstance(x, Obj) and x.cls.isa("LazySeq"):
                realised.append(x)
            out.extend(interp.iterate(x))
        return tuple(out)

    # collaborators a variant may reach for: modelled so that a wrong re-packing is reported as a
    # wrong binding instead of an uninterpretable program
    def to_seq(x):
        if x is None:
            return None
        if isinstance(x, Obj) and x.cls.isa("ISeq"):
            return x if x.f.get("_items") else None
        if isinstance(x, Obj) and x.cls.isa("ISeqable"):
            return Obj(iseq, _items=x.f["_items"]) if x.f.get("_items") else None
        raise PyRaise("TypeError", "not seqable")

    def concat(*xs):
        items = []
        for x in xs:
            items.extend(x.f["_items"] if isinstance(x, Obj) else interp.iterate(x))
        return Obj(iseq, _items=tuple(items), _wraps=any(isinstance(x, Obj) for x in xs))

    interp = Interp(globals_={"itertools.chain": chain, "chain": chain, "to_seq": to_seq, "lseq.to_seq": to_seq, "concat": concat,
                              "_WrappedRestArgs": lambda x: Obj(wmodel, rest=x)})
    lazy = ClassModel(ast.parse("class LazySeq:\n    pass\n").body[0], bases=(iseq,))
    seqable = ClassModel(ast.parse("class ISeqable:\n    pass\n").body[0])
    vector = ClassModel(ast.parse("class PersistentVector:\n    pass\n").body[0], bases=(seqable,))
    seq12 = Obj(iseq, _items=(1, 2))
    empty = Obj(iseq, _items=())
    lazy12 = Obj(lazy, _items=(1, 2))
    vec12 = Obj(vector, _items=(1, 2))
    vec0 = Obj(vector, _items=())

    def bound(packed, nfixed):
        """What a variadic arity with `nfixed` fixed parameters binds when called with *packed:
        (fixed values, rest elements, the rest object)."""
        fixed, va = tuple(packed[:nfixed]), tuple(packed[nfixed:])
        if not va:
            return fixed, (), None
        r = interp.call_function(unwrap, [va], {})
        return fixed, tuple(r.f["_items"]), r

    cases = [
        ("variadic, rest=nil", True, (7, None), (7,), ()),
        ("variadic, rest=(1 2)", True, (7, seq12), (7,), (1, 2)),
        ("variadic, rest=()", True, (7, empty), (7,), ()),
        ("variadic, rest=lazy (1 2)", True, (7, lazy12), (7,), (1, 2)),
        ("variadic, rest=[1 2]: a vector is the rest collection, not one rest argument", True, (7, vec12), (7,), (1, 2)),
        ("variadic, rest=[]", True, (7, vec0), (7,), ()),
        ("variadic, only rest=nil", True, (None,), (), ()),
        ("non-variadic", False, (7, 8), (7, 8), None),
        ("non-variadic, nil argument kept", False, (7, None), (7, None), None),
        ("non-variadic, seq argument kept", False, (7, seq12), (7, seq12), None),
    ]
    for label, var, args, wfixed, wrest in cases:
        o = Obj(model, _has_varargs=var, _args=args, _kwargs={})
        del realised[:]
        robj = None
        try:
            got = interp.call_function(prop, [o], {})
            got = tuple(got) if not isinstance(got, tuple) else got
            if var:
                fixed, rest, robj = bound(got, len(args) - 1)
                ok = fixed == wfixed and rest == wrest
                why = "" if ok else f"recur arguments {args!r} re-enter the arity with fixed parameters {fixed!r} and rest elements {rest!r}, expected {wfixed!r} and {wrest!r}"
            else:
                ok = len(got) == len(wfixed) and all(a is b or a == b for a, b in zip(got, wfixed))
                why = "" if ok else f"recur arguments {args!r} are re-packed as {got!r}, expected {wfixed!r}"
        except Unsupported as e:
            raise AnalysisError(f"_TrampolineArgs.args / _unwrap_rest_args outside the interpretable fragment: {e}")
        except PyRaise as e:
            ok, why = False, f"raises {e.name} for {args!r}"
        ctx.ob("C08.R4", f"{RT}::_TrampolineArgs.args::{label}", RT, prop.lineno, ok, why,
               witness="(defn t [x & args] (if (pos? x) (recur (dec x) args) args)) (t 1) => (nil); ((fn [n & r] (if (pos? n) (recur (dec n) [1 2]) r)) 1) => ([1 2])")
        if "lazy" in label:
            # either way of handing the rest seq over is accepted (spliced into the argument tuple,
            # which the pinned unit test of _TrampolineArgs fixes for lists, or wrapped as apply
            # does); a wrapped seq must then come out as itself, not inside a new concat
            ok = robj is None or robj is lazy12 or not robj.f.get("_wraps")
            ctx.ob("C08.R4", f"{RT}::_TrampolineArgs.args::passing the rest seq along adds no layer per iteration", RT, prop.lineno, ok,
                   "" if ok else "the rest parameter re-bound by recur is a new concat around the previous one: after n iterations of (recur (dec n) r) realising r recurses n levels deep",
                   witness="(apply (fn [n & r] (if (pos? n) (recur (dec n) r) (first r))) 100000 (range 5)) => RecursionError")


def _single_arity_call(tree, fname, arity_pos, owner_pos):
    """True when every call of `fname` passes, at `arity_pos`, the only arity of the node it passes
    at `owner_pos`: `next(iter(<owner>.arities))` on the True branch of `len(<owner>.arities) == 1`."""
    sites = [c for c in ast.walk(tree) if isinstance(c, ast.Call) and P.un(c.func) == fname]
    if not sites:
        return False
    for c in sites:
        if len(c.args) <= max(arity_pos, owner_pos):
            return False
        owner = P.un(c.args[owner_pos])
        if P.un(c.args[arity_pos]) not in (f"next(iter({owner}.arities))", f"{owner}.arities[0]"):
            return False
        guard = None
        for a in P.ancestors(c):
            if isinstance(a, ast.If) and P.un(a.test) == f"len({owner}.arities) == 1" and any(c in ast.walk(s) for s in a.body):
                guard = a
                break
        if guard is None:
            return False
    return True


@rule("C08.R5", floor=3)
def r5_recur_point_carries_the_flag_of_its_own_arity(ctx):
    """The variadic flag of a recur point decides how `recur` re-packs its last argument, so it has to
    be the flag of the arity whose loop id the recur point carries -- not of the fn or method as a
    whole, which is variadic as soon as any arity is.  Taking it from the owner is the same thing
    only where every caller passes the owner's single arity."""
    tree = ctx.py(GEN)
    n = 0
    for fn in [f for f in ast.walk(tree) if isinstance(f, P.FUNC)]:
        for c in ast.walk(fn):
            if not (isinstance(c, ast.Call) and P.un(c.func) == "ctx.new_recur_point" and c.args):
                continue
            flag = next((k.value for k in c.keywords if k.arg == "is_variadic"), None)
            if flag is None:
                continue  # loop recur points have no flag
            if P.enclosing_func(c) is not fn:
                continue
            n += 1
            lid = c.args[0]
            ok, why = True, ""
            if not (isinstance(lid, ast.Attribute) and lid.attr == "loop_id" and isinstance(flag, ast.Attribute) and flag.attr == "is_variadic"):
                ok, why = False, f"`{P.un(c)}`: the loop id / variadic flag are not read from an arity node"
            elif P.un(lid.value) != P.un(flag.value):
                params = [a.arg for a in fn.args.args]
                a_name, o_name = P.un(lid.value), P.un(flag.value)
                if not (a_name in params and o_name in params and _single_arity_call(tree, fn.name, params.index(a_name), params.index(o_name))):
                    ok, why = False, (f"the recur point of `{a_name}` takes the variadic flag of `{o_name}`: a recur in a fixed arity of a fn (or method) that also has a "
                                      f"variadic arity treats its last argument as the rest seq -- a seq is spliced into the argument list, nil is dropped")
            ctx.ob("C08.R5", f"{GEN}::{fn.name}::recur point of {P.un(lid)}", GEN, c.lineno, ok, why,
                   witness="((fn nest ([n acc] (if (pos? n) (recur (dec n) (list acc)) acc)) ([n acc & more] :unused)) 2 :a) => :a, expected ((:a))")
    if n == 0:
        raise AnalysisError("no function/method recur point found in the generator")


@rule("C08.R3", floor=3)
def r3_arity_dispatch_shape(ctx):
    """The multi-arity dispatch function selects by len(args) from the arity table, falls back to the
    variadic arity only when len(args) >= its fixed arity, and otherwise raises an arity error: no
    user code runs before the selection."""
    fn = ctx.fn(GEN, "__multi_arity_dispatch_fn")
    txt = P.un(fn)
    ok = "ast.Call(func=ast.Name(id='len', ctx=ast.Load()), args=[ast.Name(id=_MULTI_ARITY_ARG_NAME, ctx=ast.Load())]" in txt
    ctx.ob("C08.R3", f"{GEN}::__multi_arity_dispatch_fn::dispatches on len(args)", GEN, fn.lineno, ok, "" if ok else "the dispatcher no longer counts the positional arguments")
    ok = "ops=[ast.GtE()], comparators=[ast.Constant(max_fixed_arity)]" in txt
    ctx.ob("C08.R3", f"{GEN}::__multi_arity_dispatch_fn::rest arity only when nargs >= max fixed arity", GEN, fn.lineno, ok, "" if ok else "the variadic arity is selected by a different test")
    ok = "ast.Raise(" in txt and "ArityException" in txt or "_ARITY_EXC" in txt or "RuntimeException" in txt
    ctx.ob("C08.R3", f"{GEN}::__multi_arity_dispatch_fn::falls through to a raise", GEN, fn.lineno, ok, "" if ok else "no arity error is raised when nothing matches")
    # the dispatch function finds its arity functions and its table by *name*, at call time, in the
    # module: for a def'ed fn those names must be fresh per definition, or a second (def f ...) turns
    # the function f held before into the new one's arities
    mf = ctx.fn(GEN, "__multi_arity_fn_to_py_ast")
    fstr = [j for j in ast.walk(mf) if isinstance(j, ast.JoinedStr) and "__arity" in P.un(j)]
    if not fstr:
        raise AnalysisError("__multi_arity_fn_to_py_ast no longer builds the arity function names with an f-string")
    base = next((P.un(v.value) for v in fstr[0].values if isinstance(v, ast.FormattedValue)), None)
    srcs = [a.value for a in ast.walk(mf) if isinstance(a, ast.Assign) and P.un(a.targets[0]) == base]

    def fresh_for_defs(v):
        if isinstance(v, ast.Call) and P.un(v.func) == "genname":
            return True
        if isinstance(v, ast.IfExp):
            t = P.un(v.test)
            if t == "def_name is None":
                return fresh_for_defs(v.orelse)
            if t == "def_name is not None":
                return fresh_for_defs(v.body)
        return False
    ok = bool(srcs) and all(fresh_for_defs(v) for v in srcs)
    ctx.ob("C08.R3", f"{GEN}::__multi_arity_fn_to_py_ast::the arity functions of a def'ed fn get names fresh per definition", GEN, mf.lineno, ok,
           "" if ok else f"the arity function names are built from `{base}`, which for a def'ed fn is the munged name of the Var alone: the module globals of the first definition are overwritten by the second, and the first function -- still reachable under another name -- dispatches into the second's code",
           witness="(def multi-orig multi) then a second (defn multi ...) with other arities: (multi-orig 1 2) raises a spurious arity error")
    dcall = [c for c in P.calls(mf) if P.un(c.func) == "__multi_arity_dispatch_fn"]
    passes = bool(dcall) and any(P.un(k.value) == base for k in dcall[0].keywords) and any(
        isinstance(j, ast.JoinedStr) and "_dispatch_map" in P.un(j) and any(isinstance(v, ast.FormattedValue) and any(k.arg in P.names_read(v.value) for k in dcall[0].keywords if P.un(k.value) == base) for v in j.values)
        for j in ast.walk(fn))
    ctx.ob("C08.R3", f"{GEN}::__multi_arity_dispatch_fn::the dispatch table is named with the same fresh prefix", GEN, fn.lineno, passes,
           "" if passes else "the dispatch table of a def'ed fn is still a module global named after the Var alone")
    # partial and Var forwarding
    up = ctx.fn(RT, "_update_signature_for_partial")
    t = P.un(up)
    kw = [k for c in P.calls(up) if P.un(c.func) == "_fn_apply_to" for k in c.keywords if k.arg == "max_fixed_arity"]
    ok = bool(kw) and all("max(" in P.un(k.value) and "new_arities" in P.un(k.value) for k in kw)
    ctx.ob("C08.R3", f"{RT}::_update_signature_for_partial::apply_to rebuilt from the remaining arities", RT, up.lineno, bool(ok), "" if ok else "the partial's apply_to is built with a fixed arity that ignores the remaining parameters")
    var = P.find_def(ctx.py(RT), "Var")
    call = P.methods(var).get("__call__")
    if call is None:
        raise AnalysisError("anchor vanished: Var.__call__")
    rets = [P.un(r.value) for r in ast.walk(call) if isinstance(r, ast.Return)]
    ok = rets == ["self.value(*args, **kwargs)"]
    ctx.ob("C08.R3", f"{RT}::Var.__call__::{' | '.join(rets)}", RT, call.lineno, ok, "" if ok else "calling through a Var does not call its current value (thread bindings of dynamic Vars are bypassed)")


SELFTEST = [
    {"name": "arity functions of a def'ed fn named after the Var alone (the repaired defect)", "file": GEN, "expect": "C08.R3",
     "old": "    arity_prefix = py_fn_name if def_name is None else genname(py_fn_name)\n", "new": "    arity_prefix = py_fn_name\n"},
    {"name": "dispatch table of a def'ed fn named after the Var alone", "file": GEN, "expect": "C08.R3",
     "old": "        dispatch_map_prefix=arity_prefix,\n", "new": ""},
    {"name": "variadic apply_to star-expands the tail", "file": RT, "expect": "C08.R1",
     "old": "            return f(*args, _WrappedRestArgs(rest))\n", "new": "            return f(*args, *rest)\n"},
    {"name": "apply realises the tail before apply_to", "file": RT, "expect": "C08.R1",
     "old": "            return f.apply_to(final, s)\n", "new": "            return f.apply_to(final, llist.list(s))\n"},
    {"name": "unwrap realises", "file": RT, "expect": "C08.R1",
     "old": "        return concat(final, last.rest)\n", "new": "        return vec.vector([*final, *last.rest]).seq()\n"},
    {"name": "trampoline decorator dropped on the multi-arity path", "file": GEN, "expect": "C08.R2", "nth": 1,
     "old": "[_TRAMPOLINE_FN_NAME] if ctx.recur_point.has_recur else []", "new": "[]"},
    {"name": "trampoline recurses", "file": RT, "expect": "C08.R2",
     "old": "            if isinstance(ret, _TrampolineArgs):\n                args = ret.args\n                kwargs = ret.kwargs\n                continue\n            return ret\n",
     "new": "            if isinstance(ret, _TrampolineArgs):\n                return trampoline(*ret.args, **ret.kwargs)\n            return ret\n"},
    {"name": "nil rest passed as an argument (the repaired defect)", "file": RT, "expect": "C08.R4",
     "old": "            if final is None:\n                # `nil` is how \"no rest arguments\" is passed to a variadic recur target\n                return self._args[:-1]\n", "new": ""},
    {"name": "recur rest spliced reversed", "file": RT, "expect": "C08.R4",
     "old": "                return tuple(itertools.chain(inits, to_seq(final) or ()))\n", "new": "                return tuple(itertools.chain(to_seq(final) or (), inits))\n"},
    {"name": "a vector passed as the rest collection becomes one rest argument (the repaired defect)", "file": RT, "expect": "C08.R4",
     "edits": [{"file": RT, "old": "            if isinstance(final, (ISeq, ISeqable)):\n", "new": "            if isinstance(final, ISeq):\n"},
               {"file": RT, "old": "to_seq(final) or ()))\n", "new": "final))\n"}]},
    {"name": "recur point of a multi-arity fn takes the fn's variadic flag (the repaired defect)", "file": GEN, "expect": "C08.R5",
     "old": "arity.loop_id, RecurType.FN, is_variadic=arity.is_variadic", "new": "arity.loop_id, RecurType.FN, is_variadic=node.is_variadic"},
    {"name": "recur point of a deftype method arity takes the method's variadic flag (the repaired defect)", "file": GEN, "expect": "C08.R5",
     "old": "arity.loop_id, RecurType.METHOD, is_variadic=arity.is_variadic", "new": "arity.loop_id, RecurType.METHOD, is_variadic=node.is_variadic"},
    {"name": "twin: single-arity recur point reads the arity's own flag", "file": GEN, "expect": None,
     "old": "method.loop_id, RecurType.FN, is_variadic=node.is_variadic", "new": "method.loop_id, RecurType.FN, is_variadic=method.is_variadic"},
    {"name": "the trampoline tests the un-awaited coroutine (the repaired defect)", "file": RT, "expect": "C08.R2",
     "old": "    if inspect.iscoroutinefunction(f):\n", "new": "    if False:\n", "nth": 0},
    {"name": "async trampoline forgets to await", "file": RT, "expect": "C08.R2",
     "old": "                ret = await f(*args, **kwargs)\n", "new": "                ret = f(*args, **kwargs)\n"},
    {"name": "apply looks for apply_to on the Var (the repaired defect)", "file": RT, "expect": "C08.R1",
     "old": "    if isinstance(f, Var):\n        # Apply the Var's function itself so its `apply_to` is found\n        f = f.value\n", "new": ""},
    {"name": "seeded C08/b: Var call bypasses thread bindings", "file": RT, "expect": "C08.R3",
     "old": "        return self.value(*args, **kwargs)", "new": "        return self._root(*args, **kwargs)"},
    {"name": "Var call passes keyword names positionally (the repaired defect)", "file": RT, "expect": "C08.R3",
     "old": "        return self.value(*args, **kwargs)", "new": "        return self.value(*args, *kwargs)"},
    # twins
    {"name": "twin: rename tail variable", "file": RT, "expect": None, "count": "all",
     "old": "num_missing_args", "new": "missing"},
]
SELFTEST = [c for c in SELFTEST if "rename tail variable" not in c["name"]]


ANA = "src/basilisp/lang/compiler/analyzer.py"


def _arg_origins(tree, fn, expr, depth=3):
    """The expressions a value can come from: locals expanded to their single definition; a bare
    parameter of a private module-level function followed to the argument every caller passes."""
    e = P.expand_locals(fn, expr)
    params = [a.arg for a in fn.args.posonlyargs + fn.args.args + fn.args.kwonlyargs]
    if isinstance(e, ast.Name) and e.id in params and depth > 0:
        out = []
        callers = [c for c in ast.walk(tree) if isinstance(c, ast.Call) and isinstance(c.func, ast.Name) and c.func.id == fn.name]
        if not callers:
            return [(fn, e)]
        for c in callers:
            val = next((k.value for k in c.keywords if k.arg == e.id), None)
            pos = [a.arg for a in fn.args.posonlyargs + fn.args.args]
            if val is None and e.id in pos and pos.index(e.id) < len(c.args):
                val = c.args[pos.index(e.id)]
            cf = P.enclosing_func(c)
            if val is None or cf is None:
                out.append((fn, e))  # the default, or a call we cannot see through
            else:
                out.extend(_arg_origins(tree, cf, val, depth - 1))
        return out
    return [(fn, e)]


@rule("C08.R6", floor=4)
def r6_max_fixed_arity_covers_the_variadic_arity(ctx):
    """`apply` peels leading elements of its last argument into positional arguments until the call has
    `max_fixed_arity` of them, then hands the rest over lazily; the variadic arity binds its fixed
    parameters from those.  So the number recorded on a function must be the maximum over *all* its
    arities, the variadic one included (`([a]) ([a b c & r])` records 3): the analyzer computes it as
    max(arity.fixed_arity for arity in arities) without filtering, and every fn decorator the
    generator emits takes it from the node (`node.max_fixed_arity`), never from a table of the fixed
    arities only."""
    tree = ctx.py(ANA)
    n = 0
    for c in ast.walk(tree):
        if not isinstance(c, ast.Call):
            continue
        for k in c.keywords:
            if k.arg != "max_fixed_arity":
                continue
            f = P.enclosing_func(c)
            if f is None:
                continue
            e = P.expand_locals(f, k.value)
            n += 1
            gen = e.args[0] if isinstance(e, ast.Call) and P.un(e.func) == "max" and e.args and isinstance(e.args[0], (ast.GeneratorExp, ast.ListComp)) else None
            ok = gen is not None and len(gen.generators) == 1 and not gen.generators[0].ifs and isinstance(gen.elt, ast.Attribute) and gen.elt.attr == "fixed_arity" \
                and P.un(gen.generators[0].iter) in ("arities", "node.arities")
            ctx.ob("C08.R6", f"{ANA}::{f.name}::max_fixed_arity is the maximum fixed_arity over all arities", ANA, c.lineno, ok,
                   "" if ok else f"max_fixed_arity is computed as `{P.un(e)[:100]}`: when the variadic arity has more fixed parameters than every fixed arity, apply stops peeling too early and the variadic arity's fixed parameters are bound to the wrapped rest",
                   witness="((fn ([a] 1) ([a b c & r] [a b c r])) ... via (apply f 1 2 [3 4]) must bind c = 3, r = (4)")
    if n == 0:
        raise AnalysisError("no max_fixed_arity computation found in the analyzer")
    g = ctx.py(GEN)
    dec = ctx.fn(GEN, "__fn_decorator")
    sites = [c for c in ast.walk(g) if isinstance(c, ast.Call) and isinstance(c.func, ast.Name) and c.func.id == dec.name]
    if not sites:
        raise AnalysisError("__fn_decorator is never called")
    for c in sites:
        f = P.enclosing_func(c)
        val = next((k.value for k in c.keywords if k.arg == "max_fixed_arity"), None)
        if val is None:
            pos = [a.arg for a in dec.args.posonlyargs + dec.args.args]
            if "max_fixed_arity" in pos and pos.index("max_fixed_arity") < len(c.args):
                val = c.args[pos.index("max_fixed_arity")]
        origins = _arg_origins(g, f, val) if val is not None else []
        ok = bool(origins) and all(isinstance(o, ast.Attribute) and o.attr == "max_fixed_arity" for _f, o in origins)
        ctx.ob("C08.R6", f"{GEN}::{f.name}::the fn decorator records the node's max_fixed_arity", GEN, c.lineno, ok,
               "" if ok else f"the decorator's max_fixed_arity comes from {[P.un(o)[:60] for _f, o in origins] or 'nowhere (default None)'} instead of the fn node: a table of the non-variadic arities misses the fixed parameters of the variadic arity",
               witness="(apply (fn ([a] 1) ([a b c & r] [a b c r])) 1 2 [3 4]) must be [1 2 3 (4)]")
