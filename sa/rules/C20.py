"""C20 -- integer / ratio arithmetic is exact; type contagion is order-independent; inline = call."""
from __future__ import annotations

import ast
import itertools

from ..core import AnalysisError, rule
from .. import lispread as L
from .. import pyfacts as P
from ..minipy import ClassModel, Interp, Obj, PyRaise, Unsupported

NUM = "src/basilisp/lang/numbers.py"
CORE = "src/basilisp/core.lpy"
OPT = "src/basilisp/lang/compiler/optimizer.py"

EXPLANATION = (
    "Abstract interpretation of numbers.py over the type domain {int, Fraction, Decimal, float}: singledispatch on the first "
    "operand, isinstance tests on the second, Python operator result types from a 4x4x4 fact table (with its TypeError cells). "
    "All 64 (op, type, type) cells are evaluated: no reachable TypeError, +/* result types symmetric, {int,Fraction}^2 stays in "
    "{int,Fraction}, int/int goes through Fraction, every arm normalises integral ratios. quot/rem/mod bodies are typed the same "
    "way over {int,Fraction}; every ^:inline function's parameters occur exactly once, in order, outside conditionals, so the "
    "inlined expansion evaluates what the call evaluates."
)
DECIDES = "type-contagion table of + - * / (exhaustive over 4x4 types), exactness on int/ratio, normalisation on every arm, typing of quot/rem/mod, inline-expansion linearity, operator forwarding"
DECLINED = "the sign identities of rem/mod and concrete numeric values (arithmetic reasoning), big-operand behaviour of CPython ints/Fractions"
TRUSTED = ["FT-py-numeric: result type / TypeError of + - * / on int, Fraction, Decimal, float (language reference)", "fractions.Fraction arithmetic is exact"]
ASSUMPTIONS = ["bool is not treated as a number here"]
EXHAUSTIVE = True
TECHNIQUE = "abstract interpretation over the numeric-type lattice with a Python operator fact table; s-expression linearity analysis for inline templates"

T = ("int", "Fraction", "Decimal", "float")
OPS = {"add": ast.Add, "subtract": ast.Sub, "multiply": ast.Mult, "divide": ast.Div}
DISPATCH_KEY = {"int": ("int",), "Fraction": ("Fraction", "fractions.Fraction"), "Decimal": ("decimal.Decimal", "Decimal"), "float": ("float",)}


class TypeErr(Exception):
    pass


def py_binop(op, a: str, b: str) -> str:
    """FT-py-numeric."""
    # "Fraction" is a *proper* ratio (the language never holds an integral one: the reader and
    # every arithmetic arm normalise n/1 to n); "RawFraction" is a fractions.Fraction that may be
    # integral and still has to pass the normalisation.
    s = {a, b}
    fr = {"Fraction", "RawFraction"}
    if "Decimal" in s and ("float" in s or s & fr):
        raise TypeErr(f"unsupported operand type(s): {a} and {b}")
    if "float" in s:
        return "float"
    if "Decimal" in s:
        return "Decimal"
    if s & fr:
        if op is ast.FloorDiv:
            return "int"
        if op in (ast.Add, ast.Sub) and "RawFraction" not in s and "int" in s:
            return "Fraction"  # integer +/- proper ratio is a proper ratio
        return "RawFraction"
    # int, int
    return "float" if op is ast.Div else "int"


class AbsEval:
    """Evaluates a numbers.py function on abstract argument types; returns the set of result
    types.  Branches on isinstance are decided; any other branch forks."""

    def __init__(self, tree):
        self.tree = tree

    def call(self, fn, argtypes):
        env = {a.arg: t for a, t in zip(fn.args.args, argtypes)}
        return self.block(fn.body, env)

    def block(self, stmts, env) -> set:
        """Returns the set of returned types; falls through -> continues."""
        out = set()
        envs = [env]
        for s in stmts:
            nxt = []
            for e in envs:
                r, cont = self.stmt(s, e)
                out |= r
                nxt.extend(cont)
            envs = nxt
            if not envs:
                break
        if envs:
            out.add("None")
        return out

    def stmt(self, s, env):
        if isinstance(s, ast.Expr):
            return set(), [env]
        if isinstance(s, ast.Return):
            return self.expr(s.value, env), []
        if isinstance(s, (ast.Assign, ast.AnnAssign)):
            vals = self.expr(s.value, env)
            outs = []
            tgts = s.targets if isinstance(s, ast.Assign) else [s.target]
            for v in vals:
                e2 = dict(env)
                for t in tgts:
                    if isinstance(t, ast.Name):
                        e2[t.id] = v
                    elif isinstance(t, ast.Tuple):
                        for el in t.elts:
                            e2[el.id] = "int"  # as_integer_ratio()
                    else:
                        raise AnalysisError(f"numbers.py: unsupported target {P.un(t)}")
                outs.append(e2)
            return set(), outs
        if isinstance(s, ast.If):
            d = self.test(s.test, env)
            res, conts = set(), []
            for branch, take in ((s.body, True), (s.orelse, False)):
                if d is None or d is take:
                    r = set()
                    envs = [env]
                    for st in branch:
                        nxt = []
                        for e in envs:
                            rr, cc = self.stmt(st, e)
                            r |= rr
                            nxt.extend(cc)
                        envs = nxt
                        if not envs:
                            break
                    res |= r
                    conts.extend(envs)
            return res, conts
        if isinstance(s, ast.Try):
            res, conts = set(), []
            for blk in [s.body] + [h.body for h in s.handlers]:
                envs = [env]
                for st in blk:
                    nxt = []
                    for e in envs:
                        rr, cc = self.stmt(st, e)
                        res |= rr
                        nxt.extend(cc)
                    envs = nxt
                    if not envs:
                        break
                conts.extend(envs)
            return res, conts
        raise AnalysisError(f"numbers.py: unsupported statement {P.un(s)[:60]}")

    def test(self, t, env):
        if isinstance(t, ast.Call) and P.un(t.func) == "isinstance" and isinstance(t.args[0], ast.Name):
            have = env.get(t.args[0].id)
            spec = t.args[1]
            names = [P.un(x) for x in (spec.elts if isinstance(spec, ast.Tuple) else [spec])]
            return any(n in DISPATCH_KEY.get("Fraction" if have == "RawFraction" else have, ()) for n in names)
        if isinstance(t, ast.BoolOp):
            vals = [self.test(v, env) for v in t.values]
            if isinstance(t.op, ast.And):
                return False if any(v is False for v in vals) else (True if all(v is True for v in vals) else None)
            return True if any(v is True for v in vals) else (False if all(v is False for v in vals) else None)
        if isinstance(t, ast.UnaryOp) and isinstance(t.op, ast.Not):
            v = self.test(t.operand, env)
            return None if v is None else not v
        return None

    def expr(self, e, env) -> set:
        if isinstance(e, ast.Name):
            if e.id in env:
                return {env[e.id]}
            raise AnalysisError(f"numbers.py: unknown name {e.id}")
        if isinstance(e, ast.Constant):
            return {type(e.value).__name__}
        if isinstance(e, ast.BinOp):
            out = set()
            for a in self.expr(e.left, env):
                for b in self.expr(e.right, env):
                    out.add(py_binop(type(e.op), a, b))
            return out
        if isinstance(e, ast.UnaryOp) and isinstance(e.op, ast.USub):
            return self.expr(e.operand, env)
        if isinstance(e, ast.IfExp):
            d = self.test(e.test, env)
            out = set()
            if d is not False:
                out |= self.expr(e.body, env)
            if d is not True:
                out |= self.expr(e.orelse, env)
            return out
        if isinstance(e, ast.Attribute):
            if P.un(e) in ("math.nan", "math.inf"):
                return {"float"}
            if e.attr in ("numerator", "denominator"):
                return {"int"}
            raise AnalysisError(f"numbers.py: unsupported attribute {P.un(e)}")
        if isinstance(e, ast.Call):
            f = P.un(e.func)
            args = [self.expr(a, env) for a in e.args]
            if f == "float":
                return {"float"}
            if f == "int":
                return {"int"}
            if f in ("decimal.Decimal", "Decimal"):
                for a in args[0]:
                    if a in ("Fraction", "RawFraction"):
                        raise TypeErr("decimal.Decimal(Fraction) is a TypeError")
                return {"Decimal"}
            if f in ("Fraction", "fractions.Fraction"):
                for combo in itertools.product(*args):
                    if len(combo) == 2 and set(combo) - {"int", "Fraction", "RawFraction"}:
                        raise TypeErr(f"Fraction({', '.join(combo)}) is a TypeError")
                return {"RawFraction"}
            if f in ("math.trunc", "math.floor", "math.ceil"):
                return {"int"}
            if f.endswith(".as_integer_ratio"):
                return {"tuple"}
            local = P.find_def(self.tree, f)
            if local is not None and isinstance(local, P.FUNC):
                out = set()
                for combo in itertools.product(*args):
                    out |= self.call(local, list(combo))
                return out
            raise AnalysisError(f"numbers.py: unsupported call {P.un(e)}")
        raise AnalysisError(f"numbers.py: unsupported expression {P.un(e)[:60]}")


def _arm(reg, t):
    for k in DISPATCH_KEY[t]:
        if k in reg:
            return reg[k]
    return reg["default"]


def _normalized(fn) -> bool:
    return any(d.split(".")[-1] == "_normalize_fraction_result" for d in P.decorators(fn))


def _table(ctx):
    """(op, ta, tb) -> set of result types or 'TypeError: ...'; memoised per run."""
    if "c20table" in ctx.memo:
        return ctx.memo["c20table"]
    tree = ctx.py(NUM)
    ev = AbsEval(tree)
    table, raw = {}, {}
    for opname in OPS:
        reg = P.singledispatch_registry(tree, opname)
        if "default" not in reg:
            raise AnalysisError(f"anchor vanished: numbers.{opname}")
        ctx.analysed["tables"].add(f"numbers.{opname} registry: {sorted(reg)}")
        for ta in T:
            fn = _arm(reg, ta)
            ctx.analysed["functions"].add(f"{NUM}::{fn.name}")
            for tb in T:
                try:
                    r = ev.call(fn, [ta, tb])
                    raw[(opname, ta, tb)] = (fn, set(r))
                    if _normalized(fn) and "RawFraction" in r:
                        r = (set(r) - {"RawFraction"}) | {"int", "Fraction"}
                    table[(opname, ta, tb)] = r
                except TypeErr as e:
                    raw[(opname, ta, tb)] = (fn, str(e))
                    table[(opname, ta, tb)] = f"TypeError: {e}"
    ctx.memo["c20table"] = (table, raw)
    return table, raw


@rule("C20.R1", floor=64 + 12 + 16)
def r1_contagion_table(ctx):
    """All 64 (op, type, type) cells: no TypeError; + and * have order-independent result types;
    int/Fraction operands never leave {int, Fraction}; a float operand gives float, else a Decimal
    operand gives Decimal."""
    table, raw = _table(ctx)
    for (op, ta, tb), r in sorted(table.items()):
        fn = raw[(op, ta, tb)][0]
        ok = not isinstance(r, str) and "None" not in r
        ctx.ob("C20.R1", f"{NUM}::{op}({ta},{tb})::total", NUM, fn.lineno, ok,
               "" if ok else f"{op}({ta}, {tb}) via {fn.name}: {r if isinstance(r, str) else 'falls off the end (returns None)'}")
    for op in ("add", "multiply"):
        for ta, tb in itertools.combinations(T, 2):
            a, b = table[(op, ta, tb)], table[(op, tb, ta)]
            ok = a == b
            ctx.ob("C20.R1", f"{NUM}::{op}::symmetric({ta},{tb})", NUM, raw[(op, ta, tb)][0].lineno, ok,
                   "" if ok else f"type of {op}({ta},{tb}) is {sorted(a) if not isinstance(a, str) else a} but {op}({tb},{ta}) is {sorted(b) if not isinstance(b, str) else b}: the result type depends on operand order")
    for op in OPS:
        for ta, tb in itertools.product(("int", "Fraction"), repeat=2):
            r = table[(op, ta, tb)]
            ok = not isinstance(r, str) and r <= {"int", "Fraction"}
            ctx.ob("C20.R1", f"{NUM}::{op}({ta},{tb})::exact", NUM, raw[(op, ta, tb)][0].lineno, ok,
                   "" if ok else f"{op}({ta},{tb}) can yield {r}: integer/ratio arithmetic leaves the exact types")


@rule("C20.R2", floor=16)
def r2_normalisation_on_every_arm(ctx):
    """Each arm (registered or default) of add/subtract/multiply/divide either carries
    _normalize_fraction_result or cannot return a Fraction for any second-operand type; and the
    decorator maps n/1 to the integer n, leaves proper ratios and other types alone."""
    table, raw = _table(ctx)
    tree = ctx.py(NUM)
    seen = set()
    for (op, ta, tb), (fn, r) in sorted(raw.items()):
        if (op, fn.name) in seen:
            continue
        seen.add((op, fn.name))
        can_frac = [t2 for t2 in T if not isinstance(raw[(op, ta, t2)][1], str) and "RawFraction" in raw[(op, ta, t2)][1]]
        ok = _normalized(fn) or not can_frac
        ctx.ob("C20.R2", f"{NUM}::{fn.name}::normalised", NUM, fn.lineno, ok,
               "" if ok else f"{fn.name}({ta}, {can_frac[0]}) can produce an integral fractions.Fraction (e.g. 3 * 1/3) but lacks _normalize_fraction_result: the result stays 1/1 instead of the integer 1")
        # decorator order: register must be outermost so that the *normalised* function is registered
        decs = P.decorators(fn)
        if _normalized(fn) and len(decs) >= 2:
            ok2 = decs[-1].split(".")[-1] == "_normalize_fraction_result"
            ctx.ob("C20.R2", f"{NUM}::{fn.name}::decorator-order", NUM, fn.lineno, ok2,
                   "" if ok2 else "the normalising decorator is applied outside the registration: the registered implementation is the un-normalised one")
    norm = P.find_def(tree, "_normalize_fraction_result")
    if norm is None:
        raise AnalysisError("anchor vanished: numbers._normalize_fraction_result")
    inner = next((n for n in norm.body if isinstance(n, P.FUNC)), None)
    if inner is None:
        raise AnalysisError("_normalize_fraction_result has no inner function")
    frac = ClassModel(ast.parse("class Fraction: pass").body[0])
    problems = []
    try:
        # integral values on both sides of and AT zero (0/1 is falsy: `x or y` idioms lose it), a proper ratio, other numbers
        for probe, want in ((Obj(frac, numerator=4, denominator=1), 4), (Obj(frac, numerator=0, denominator=1), 0), (Obj(frac, numerator=-3, denominator=1), -3),
                            (Obj(frac, numerator=1, denominator=2), "same"), (3, 3), (0, 0), (1.5, 1.5)):
            interp = Interp(globals_={"f": lambda x, y, _p=probe: _p})
            # module-level helpers of numbers.py are interpreted too
            from ..minipy import Closure
            for helper in tree.body:
                if isinstance(helper, P.FUNC) and helper is not norm:
                    interp.globals.setdefault(helper.name, Closure(helper, {}, interp))
            got = interp.call_function(inner, [0, 0], {})
            if want == "same":
                if got is not probe:
                    problems.append(f"1/2 becomes {got!r}")
            elif isinstance(got, Obj) or got != want or type(got) is not type(want):
                problems.append(f"{probe!r} becomes {got!r}, expected {want!r}")
    except (Unsupported, PyRaise) as e:
        raise AnalysisError(f"_normalize_fraction_result not interpretable: {e}")
    ctx.ob("C20.R2", f"{NUM}::_normalize_fraction_result::n/1->n", NUM, norm.lineno, not problems, "; ".join(problems))


# ------------------------------------------------------------------------------------------
# Lisp half


class LispTypes:
    """Abstract typing of the quot/rem/mod bodies over sets of numeric types."""

    def __init__(self, ctx, defs):
        self.ctx = ctx
        self.defs = defs
        self.table, _ = _table(ctx)
        self.depth = 0

    def op(self, opname, A, B):
        out = set()
        for a in A:
            for b in B:
                if "TypeError" in (a, b) or "None" in (a, b):
                    out.add("TypeError")
                    continue
                if "RawFraction" in (a, b):
                    out.add("RawFraction")  # an un-normalised ratio already escaped; keep the taint
                a = "Fraction" if a == "RawFraction" else a
                b = "Fraction" if b == "RawFraction" else b
                r = self.table[(opname, a, b)]
                if isinstance(r, str):
                    out.add("TypeError")
                else:
                    out |= r
        return out

    def ev(self, f, env) -> set:
        if isinstance(f, L.Sym):
            if f.val in env:
                return env[f.val]
            raise AnalysisError(f"core.lpy arithmetic: unbound {f.val}")
        if isinstance(f, L.Num):
            return {"float"} if any(c in f.val for c in ".eE") and not f.val.startswith("0x") else {"int"}
        if not isinstance(f, L.List) or not f.items:
            raise AnalysisError(f"core.lpy arithmetic: unsupported form {f.text()[:60]}")
        h = L.head(f)
        args = f.items[1:]
        binop = {"+": "add", "-": "subtract", "*": "multiply", "/": "divide",
                 "basilisp.lang.numbers/add": "add", "basilisp.lang.numbers/subtract": "subtract",
                 "basilisp.lang.numbers/multiply": "multiply", "basilisp.lang.numbers/divide": "divide"}
        if h in binop:
            vals = [self.ev(a, env) for a in args]
            if len(vals) == 1:
                if h == "-":
                    return vals[0]
                if h == "/":
                    return self.op("divide", {"int"}, vals[0])
                return vals[0]
            acc = vals[0]
            for v in vals[1:]:
                acc = self.op(binop[h], acc, v)
            return acc
        pyop = {"operator/add": ast.Add, "operator/sub": ast.Sub, "operator/mul": ast.Mult, "operator/truediv": ast.Div,
                "operator/mod": ast.Mod, "operator/floordiv": ast.FloorDiv}
        if h in pyop:
            A, B = self.ev(args[0], env), self.ev(args[1], env)
            out = set()
            for a in A:
                for b in B:
                    try:
                        out.add(py_binop(pyop[h], a, b))
                    except TypeErr:
                        out.add("TypeError")
            return out
        if h in ("math/floor", "math/ceil", "python/int", "int"):
            for a in args:
                self.ev(a, env)
            return {"int"}
        if h in ("python/float", "float", "double"):
            for a in args:
                self.ev(a, env)
            return {"float"}
        if h == "basilisp.lang.numbers/trunc":
            A = self.ev(args[0], env)
            out = set()
            for a in A:
                out |= {"int": {"int"}, "Fraction": {"int", "Fraction"}, "RawFraction": {"int", "Fraction"}, "Decimal": {"Decimal"}, "float": {"float"}}.get(a, {a})
            return out
        if h in ("let", "let*"):
            e2 = dict(env)
            b = args[0].items
            for k, v in zip(b[0::2], b[1::2]):
                e2[k.val] = self.ev(v, e2)
            return self.ev(args[-1], e2)
        if h == "if":
            return self.ev(args[1], env) | (self.ev(args[2], env) if len(args) > 2 else {"None"})
        if h in self.defs and h in ("quot", "rem", "mod"):
            self.depth += 1
            if self.depth > 5:
                raise AnalysisError("recursive arithmetic definition")
            d = self.defs[h]
            ar = L.fn_arities(d)
            params, body = ar[0]
            e2 = {p.val: self.ev(a, env) for p, a in zip(params.items, args)}
            r = self.ev(body[-1], e2)
            self.depth -= 1
            return r
        raise AnalysisError(f"core.lpy arithmetic: unsupported operator `{h}` in {f.text()[:60]}")


@rule("C20.R3", floor=12)
def r3_quot_rem_mod_exact(ctx):
    """quot, rem, mod typed abstractly over {int, Fraction}^2 stay within {int, Fraction} (no float
    or Decimal intermediate, no TypeError)."""
    defs = L.top_defs(ctx.lisp(CORE))
    lt = LispTypes(ctx, defs)
    for name in ("quot", "rem", "mod"):
        d = defs.get(name)
        if d is None:
            raise AnalysisError(f"anchor vanished: core.lpy::{name}")
        params, body = L.fn_arities(d)[0]
        for ta, tb in itertools.product(("int", "Fraction"), repeat=2):
            env = {params.items[0].val: {ta}, params.items[1].val: {tb}}
            r = lt.ev(body[-1], env)
            ok = r <= {"int", "Fraction"}
            ctx.ob("C20.R3", f"{CORE}::{name}({ta},{tb})::exact", CORE, d.line, ok, "" if ok else f"({name} {ta} {tb}) can have type {sorted(r)}: an inexact intermediate")


FLOORISH_OPERATORS = {"operator/floordiv", "operator/mod", "python/divmod", "operator/ifloordiv", "operator/imod", "//", "%"}


@rule("C20.R5", floor=4)
def r5_rounding_modes_of_quot_rem_mod(ctx):
    """x = y * (quot x y) + (rem x y), rem takes the sign of x and mod the sign of y, for integers,
    ratios, decimals and floats alike.  Structurally: quot rounds the *exact* quotient (/ x y)
    towards zero (trunc), mod rounds it down (floor), rem is x - y * (quot x y); none of them uses
    Python's // or % family, whose rounding depends on the operand type (FT-operator: on
    decimal.Decimal `//` and `%` truncate towards zero, on every other type they floor), and which
    refuses mixed decimal/float/ratio operands."""
    defs = L.top_defs(ctx.lisp(CORE))
    want = {"quot": ("trunc", {"basilisp.lang.numbers/trunc", "math/trunc"}), "mod": ("floor", {"math/floor", "basilisp.lang.numbers/floor"})}
    for name in ("quot", "rem", "mod"):
        d = defs.get(name)
        if d is None:
            raise AnalysisError(f"anchor vanished: core.lpy::{name}")
        params, body = L.fn_arities(d)[0]
        x, y = (p.val for p in params.items[:2])
        bad = [f for b in body for f in L.walk(b) if isinstance(f, L.Sym) and f.val in FLOORISH_OPERATORS]
        ctx.ob("C20.R5", f"{CORE}::{name}::no type-dependent floor-division operator", CORE, d.line, not bad,
               "" if not bad else f"{name} uses `{bad[0].val}`: Python floors for int/float/Fraction but truncates towards zero for decimal.Decimal, so the sign identity fails for decimals (and mixed decimal/ratio operands raise TypeError)",
               witness="(mod -5M 3M) must be 1M")
        if name in want:
            mode, heads = want[name]
            rounds = [f for b in body for f in L.walk(b) if L.head(f) in heads | {"math/floor", "math/ceil", "math/trunc", "basilisp.lang.numbers/trunc", "python/round", "python/int"}]
            def exact_quotient(arg):
                if arg.text() == f"(/ {x} {y})":
                    return True
                if isinstance(arg, L.Sym):  # a let-bound name for the exact quotient
                    for a in L.ancestors(arg):
                        if L.head(a) in ("let", "let*") and isinstance(a.items[1], L.Vec):
                            for nm, init in zip(a.items[1].items[0::2], a.items[1].items[1::2]):
                                if L.is_sym(nm, arg.val):
                                    return init.text() == f"(/ {x} {y})"
                return False
            ok = len(rounds) == 1 and L.head(rounds[0]) in heads and len(rounds[0].items) == 2 and exact_quotient(rounds[0].items[1])
            ctx.ob("C20.R5", f"{CORE}::{name}::rounds the exact quotient (/ {x} {y}) with {mode}", CORE, d.line, ok,
                   "" if ok else f"{name} does not apply exactly one {mode} to the exact quotient (/ {x} {y}) (found {[r.text()[:40] for r in rounds]})")
    rm = defs["rem"]
    params, body = L.fn_arities(rm)[0]
    x, y = (p.val for p in params.items[:2])
    def expand(f, depth=0):
        """the text of a form with the let-bound names in it replaced by what they are bound to"""
        if isinstance(f, L.Sym) and depth < 6:
            for a in L.ancestors(f):
                if L.head(a) in ("let", "let*") and len(a.items) > 1 and isinstance(a.items[1], L.Vec):
                    binds = a.items[1].items
                    for nm, init in zip(binds[0::2], binds[1::2]):
                        if L.is_sym(nm, f.val) and not any(x is f for x in L.walk(init)) and not (nm is f):
                            return expand(init, depth + 1)
            return f.text()
        if isinstance(f, (L.List,)):
            return "(" + " ".join(expand(i, depth) for i in f.items) + ")"
        return f.text()
    want_rem = f"(- {x} (* {y} (quot {x} {y})))"
    ok = want_rem in rm.text() or any(isinstance(f, L.List) and L.head(f) == "-" and expand(f) == want_rem for b in body for f in L.walk(b))
    ctx.ob("C20.R5", f"{CORE}::rem::x - y * (quot x y)", CORE, rm.line, ok, "" if ok else "rem is not defined as the remainder of quot: x = y * (quot x y) + (rem x y) no longer holds by construction")


CONDITIONAL_HEADS = {"if", "when", "when-not", "and", "or", "cond", "condp", "case", "if-let", "when-let", "if-not", "if-some", "when-some", "fn", "fn*", "loop", "loop*", "lazy-seq", "delay", "future", "try", "while", "for", "doseq", "dotimes", "quote"}


def _param_uses(body, pnames):
    """Occurrences of parameter symbols in evaluation (textual) order, with a flag when the use
    is not unconditionally evaluated exactly once."""
    uses = []

    def walk(f, cond):
        if isinstance(f, L.FnLit):
            cond = True  # #(...) body runs later, zero or many times
        if isinstance(f, L.Sym):
            if f.val in pnames:
                uses.append((f.val, cond))
            return
        if isinstance(f, L.Wrap) and f.tag in ("quote",):
            return
        h = L.head(f)
        kids = f.children()
        for i, k in enumerate(kids):
            c = cond
            if h in CONDITIONAL_HEADS and i >= 1:
                # the test of if/when/... (position 1) is unconditional, later positions are not
                if not (h in ("if", "when", "when-not", "if-not") and i == 1):
                    c = True
            walk(k, c)

    walk(body, False)
    return uses


ARITH = {"+", "-", "*", "/", "=", "==", "<", ">", "<=", ">=", "mod", "quot", "rem", "python/abs", "python/int", "python/float",
         "bit-and", "bit-or", "bit-xor", "bit-not", "bit-shift-left", "bit-shift-right", ".-numerator", ".-denominator",
         "basilisp.lang.runtime/compare"}


def _is_arith(body) -> bool:
    return any(isinstance(x, L.Sym) and (x.val in ARITH or x.val.startswith("operator/")) for x in L.walk(body))


@rule("C20.R4", floor=25)
def r4_inline_equals_call(ctx):
    """Every boolean ^:inline function (auto-inlined from its single body expression) uses each
    parameter exactly once, in parameter order, outside conditional or deferred positions -- so the
    expansion evaluates exactly what the call evaluates; the 2-arities of + - * / forward to
    numbers/add.. in order and the variadic arities fold left."""
    forms = ctx.lisp(CORE)
    n = 0

    def is_inline(f):
        metas = []
        for x in (f.items[1:3] if isinstance(f, L.List) else []):
            metas.extend(x.meta or [])
        for m in (f.meta or []):
            metas.append(m)
        return any(isinstance(m, L.Kw) and m.val == "inline" for m in metas)

    for f in forms:
        if L.head(f) not in ("defn", "defn-") or not is_inline(f):
            continue
        name = f.items[1].val
        ar = L.fn_arities(f)
        if len(ar) != 1 or not ar[0][1]:
            continue
        params, body = ar[0]
        pn = [p.val for p in params.items if isinstance(p, L.Sym)]
        if len(pn) != len(params.items):
            continue  # destructuring parameters: the analyzer refuses to inline those
        if not (_is_arith(body[-1]) or name in ("inc", "dec", "inc'", "dec'", "abs", "zero?", "pos?", "neg?")):
            continue  # non-arithmetic inline functions are held to the same rule under C02.R6
        uses = _param_uses(body[-1], set(pn))
        order = [u for u, _c in uses]
        problems = []
        if any(c for _u, c in uses):
            problems.append(f"parameter {[u for u, c in uses if c][0]} is used in a conditional/deferred position: the argument expression may be evaluated zero or many times when inlined")
        if sorted(order) != sorted(pn):
            dup = [p for p in pn if order.count(p) != 1]
            problems.append(f"parameter(s) {dup} used {[order.count(p) for p in dup]} time(s): the argument expression is evaluated that many times when inlined")
        elif order != pn:
            problems.append(f"parameters are evaluated in order {order}, the call evaluates {pn}")
        n += 1
        ctx.ob("C20.R4", f"{CORE}::{name}::inline-linear", CORE, f.line, not problems, "; ".join(problems))
    defs = L.top_defs(forms)
    for name, op in (("+", "add"), ("-", "subtract"), ("*", "multiply"), ("/", "divide")):
        d = defs.get(name)
        if d is None:
            raise AnalysisError(f"anchor vanished: core.lpy::{name}")
        for params, body in L.fn_arities(d):
            pn = [p.val for p in params.items]
            if len(pn) == 2:
                want = f"(basilisp.lang.numbers/{op} {pn[0]} {pn[1]})"
                ok = body[-1].text() == want
                ctx.ob("C20.R4", f"{CORE}::{name}/2::{want}", CORE, body[-1].line, ok, "" if ok else f"`{body[-1].text()}` is not {want}")
            elif "&" in pn:
                x, y, rest = pn[0], pn[1], pn[-1]
                want = f"(if (seq {rest}) (recur (basilisp.lang.numbers/{op} {x} {y}) (first {rest}) (rest {rest})) (basilisp.lang.numbers/{op} {x} {y}))"
                ok = body[-1].text() == want
                ctx.ob("C20.R4", f"{CORE}::{name}/variadic::left-fold", CORE, body[-1].line, ok, "" if ok else f"variadic arity is not the left fold {want}")
    ctx.note(f"C20.R4: {n} arithmetic ^:inline functions of core.lpy analysed")


SELFTEST = [
    {"name": "mod through Python floor division", "file": CORE, "expect": "C20.R5",
     "old": "  (- num (* div (math/floor (/ num div)))))", "new": "  (- num (* div (operator/floordiv num div))))"},
    {"name": "quot rounds down instead of towards zero", "file": CORE, "expect": "C20.R5",
     "old": "  (basilisp.lang.numbers/trunc (/ num div)))", "new": "  (math/floor (/ num div)))"},
    {"name": "twin: mod names the exact quotient first", "file": CORE, "expect": None,
     "old": "  (- num (* div (math/floor (/ num div)))))", "new": "  (let [q (/ num div)]\n    (- num (* div (math/floor q)))))"},
    {"name": "fraction arm computes in float", "file": NUM, "expect": "C20.R1",
     "old": "    if isinstance(y, decimal.Decimal):\n        return _to_decimal(x) + y\n    return x + y\n", "new": "    if isinstance(y, decimal.Decimal):\n        return _to_decimal(x) + y\n    return float(x) + y\n"},
    {"name": "decimal arm forgets fraction coercion", "file": NUM, "expect": "C20.R1",
     "old": "    v = x * _to_decimal(y)\n", "new": "    v = x * y\n"},
    {"name": "float+decimal stays decimal one way round", "file": NUM, "expect": "C20.R1",
     "old": "    if isinstance(y, decimal.Decimal):\n        return float(decimal.Decimal(x) + y)\n    return x + y\n", "new": "    if isinstance(y, decimal.Decimal):\n        return decimal.Decimal(x) + y\n    return x + y\n"},
    {"name": "int division is true division", "file": NUM, "expect": "C20.R1",
     "old": "    if isinstance(y, int):\n        return Fraction(x, y)\n    return x / y\n", "new": "    return x / y\n"},
    {"name": "arm without normalisation", "file": NUM, "expect": "C20.R2",
     "old": "@multiply.register(Fraction)\n@_normalize_fraction_result\n", "new": "@multiply.register(Fraction)\n"},
    {"name": "normalisation outside registration", "file": NUM, "expect": "C20.R2",
     "old": "@subtract.register(Fraction)\n@_normalize_fraction_result\n", "new": "@_normalize_fraction_result\n@subtract.register(Fraction)\n"},
    {"name": "normaliser truncates proper ratios", "file": NUM, "expect": "C20.R2",
     "old": "            if isinstance(result, fractions.Fraction) and result.denominator == 1\n", "new": "            if isinstance(result, fractions.Fraction)\n"},
    {"name": "quot through float", "file": CORE, "expect": "C20.R3",
     "old": "  (basilisp.lang.numbers/trunc (/ num div)))", "new": "  (basilisp.lang.numbers/trunc (/ (python/float num) div)))"},
    {"name": "inline fn uses its parameter twice", "file": CORE, "expect": "C20.R4",
     "old": "(defn ^:inline inc\n  \"Increment the argument by 1.\"\n  [x]\n  (+ x 1))", "new": "(defn ^:inline inc\n  \"Increment the argument by 1.\"\n  [x]\n  (if (int? x) (+ x 1) (+ x 1)))"},
    {"name": "2-arity minus swaps operands", "file": CORE, "expect": "C20.R4",
     "old": "  ([x y] (basilisp.lang.numbers/subtract x y))", "new": "  ([x y] (basilisp.lang.numbers/subtract y x))"},
    {"name": "variadic * drops the accumulator", "file": CORE, "expect": "C20.R4",
     "old": "     (recur (basilisp.lang.numbers/multiply x y) (first args) (rest args))", "new": "     (recur y (first args) (rest args))"},
    # twins
    {"name": "twin: explicit normalising return", "file": NUM, "expect": None,
     "old": "@functools.singledispatch\n@_normalize_fraction_result\ndef multiply(x: LispNumber, y: LispNumber) -> LispNumber:\n    \"\"\"Multiply two numbers together and return the result.\"\"\"\n    return x * y  # type: ignore[operator]\n",
     "new": "@functools.singledispatch\n@_normalize_fraction_result\ndef multiply(x: LispNumber, y: LispNumber) -> LispNumber:\n    \"\"\"Multiply two numbers together and return the result.\"\"\"\n    v = x * y\n    return v\n"},
    {"name": "twin: int arm for add", "file": NUM, "expect": None,
     "old": "@add.register(float)\n", "new": "@add.register(int)\n@_normalize_fraction_result\ndef _add_int(x: int, y: LispNumber) -> LispNumber:\n    return x + y\n\n\n@add.register(float)\n"},
]
