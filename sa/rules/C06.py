"""C06 -- lazy sequences realise each element once, on demand, safely shared."""
from __future__ import annotations

import ast
import re

from ..core import AnalysisError, rule
from .. import lispread as L
from .. import pyfacts as P

RS = "rust/src/basilisp_native/seq.rs"
CORE = "src/basilisp/core.lpy"
RT = "src/basilisp/lang/runtime.py"

EXPLANATION = (
    "Guard-lifetime, typestate and laziness-discipline rules: in impl LazySeq (Rust, own scanner) no PyO3 call-back may occur "
    "while the native mutex guard is live; after the state is set to Computing every exit must have stored a definite state; the "
    "generator is moved out of the state before it is called and is called at one site; Sequence/SeqIterator advance by one "
    "element without loops; every true recursion of the core seq functions sits under lazy-seq; concat_from_seq stays an "
    "iterator pipeline."
)
DECIDES = "no Python call-back under the native guard, Computing-typestate on exceptional exits, take-then-call, one-element-per-cell, laziness of the seq library's recursion"
DECLINED = "who wins a race and what each thread observes; the prebuilt .so is assumed to correspond to seq.rs"
TRUSTED = ["FT-pyo3: call0/call1/call/call_method*/getattr/is_instance/try_iter/next/import may execute Python code and release the GIL", "parking_lot ReentrantMutex guard lives until drop or end of scope"]
ASSUMPTIONS = ["a thread blocking on a native mutex does not release the GIL"]
TECHNIQUE = "guard-liveness and typestate scan over the Rust source (own lexer/brace parser) + s-expression recursion-under-lazy-seq rule"

CALLBACKS = ["call0", "call1", "call", "call_method0", "call_method1", "call_method", "getattr", "setattr", "is_instance", "try_iter", "import", "repr", "str", "hash", "len", "get_item", "set_item", "iter", "next", "rich_compare", "is_truthy", "extract"]
REPO_CALLBACK_FNS = ["to_seq", "sequence", "seq_or_nil", "is_iseq", "is_iseqable", "_compute_seq", "seq"]


def _gil_releasing_acquirers(rf) -> set[str]:
    """Free functions of seq.rs that take a native mutex *without* waiting for it while holding the
    GIL: a loop around `try_lock()` that gives the GIL up between attempts (py.detach /
    allow_threads) and never calls the blocking `.lock()`."""
    out = set()
    for f in rf.fns:
        if f.owner != "":
            continue
        b = f.body
        if re.search(r"\btry_lock\s*\(", b) and re.search(r"\bloop\b|\bwhile\b", b) and re.search(r"\.\s*(detach|allow_threads)\s*\(", b) and not re.search(r"\.\s*lock\s*\(\s*\)", b):
            out.add(f.name)
    return out


def _guard_regions(body: str, acquirers=()):
    """(guard name, start offset, end offset, blocking?) for `let g = self.lock.lock();` -- or
    `let g = <acquirer>(py, &self.lock);` -- in a fn body.  The guard lives to the end of the
    enclosing block or an explicit drop(g)."""
    out = []
    pats = [(r"let\s+(?:mut\s+)?([A-Za-z_][A-Za-z0-9_]*)\s*=\s*self\s*\.\s*lock\s*\.\s*lock\s*\(\s*\)\s*;", True)]
    # ... or through any helper that is handed the mutex: it waits with the GIL held unless it is one
    # of the recognised GIL-releasing acquirers
    pats.append((r"let\s+(?:mut\s+)?([A-Za-z_][A-Za-z0-9_]*)\s*=\s*([A-Za-z_][A-Za-z0-9_]*)\s*\([^;]*&\s*self\s*\.\s*lock[^;]*\)\s*;", None))
    for pat, blocking in pats:
        for m in re.finditer(pat, body):
            g = m.group(1)
            if blocking is None:
                blocking_here = m.group(2) not in acquirers
            else:
                blocking_here = blocking
            start = m.end()
            # end of enclosing block
            depth, k, end = 0, start, len(body)
            while k < len(body):
                if body[k] == "{":
                    depth += 1
                elif body[k] == "}":
                    if depth == 0:
                        end = k
                        break
                    depth -= 1
                k += 1
            d = re.search(r"\bdrop\s*\(\s*" + re.escape(g) + r"\s*\)", body[start:end])
            if d:
                end = start + d.start()
            out.append((g, start, end, blocking_here))
    return sorted(out, key=lambda r: r[1])


def _callbacks_in(text: str):
    hits = []
    for m in re.finditer(r"\.\s*(" + "|".join(CALLBACKS) + r")\s*(?:::<[^>]*>)?\s*\(", text):
        hits.append((m.start(), m.group(1), "." + m.group(1) + "("))
    for m in re.finditer(r"(?<![A-Za-z0-9_.])(" + "|".join(REPO_CALLBACK_FNS) + r")\s*\(", text):
        hits.append((m.start(), m.group(1), m.group(1) + "("))
    for m in re.finditer(r"\bself\s*\.\s*(_compute_seq|seq|first|rest)\s*\(", text):
        hits.append((m.start(), m.group(1), "self." + m.group(1) + "("))
    return sorted(set(hits))


def _stmt_at(body: str, off: int) -> str:
    a = max(body.rfind(";", 0, off), body.rfind("{", 0, off), body.rfind("}", 0, off)) + 1
    b = body.find(";", off)
    b = len(body) if b < 0 else b
    return re.sub(r"\s+", " ", body[a:b]).strip()


@rule("C06.R1", floor=3)
def r1_no_callback_under_guard(ctx):
    """The deadlock: thread A holds the LazySeq's native mutex and runs Python code under it (the
    producer, to_seq, a nested lazy seq), the GIL changes hands, thread B reaches the same LazySeq
    and *blocks on the mutex while holding the GIL* -- A can never get the GIL back.  It takes both
    halves, so either of two disciplines rules it out, and one of them must hold for impl LazySeq:
    (i) between taking the guard and the end of its life no PyO3 call-back (nor a repository
    function that reaches one) occurs, or (ii) no thread ever waits for the mutex with the GIL held:
    every guard is taken through a helper that loops on try_lock() and gives the GIL up between
    attempts, and the blocking `self.lock.lock()` is not used at all."""
    rf = ctx.rust(RS)
    fns = rf.fns_of("LazySeq")
    if not fns:
        raise AnalysisError("anchor vanished: impl LazySeq")
    acquirers = _gil_releasing_acquirers(rf)
    all_regions = [(f, r) for f in fns for r in _guard_regions(f.body, acquirers)]
    any_blocking = any(r[3] for _f, r in all_regions)
    seen_guard = 0
    for f in fns:
        ctx.analysed["functions"].add(f"{RS}::LazySeq::{f.name}")
        regions = _guard_regions(f.body, acquirers)
        if not regions:
            continue
        seen_guard += 1
        any_hit = False
        for g, a, b, blocking in regions:
            hits = _callbacks_in(f.body[a:b])
            if not any_blocking:
                continue  # discipline (ii): nobody waits for this mutex with the GIL held
            for off, name, tok in hits:
                any_hit = True
                stmt = _stmt_at(f.body, a + off)
                line = rf.line_of(f.start + 1 + a + off)
                ctx.ob("C06.R1", f"{RS}::LazySeq::{f.name}::{tok} in `{stmt}`", RS, line, False,
                       f"`{tok}` can run Python code while the native guard `{g}` is held, and the mutex is (somewhere in impl LazySeq) waited for with the GIL held: another thread that gets the GIL and touches this LazySeq blocks on the mutex with the GIL held -> interpreter-wide deadlock",
                       witness="two threads walking one lazy seq whose producer blocks or yields the GIL")
        if not any_hit:
            how = "guard region free of call-backs" if any_blocking else "guard taken without waiting under the GIL"
            ctx.ob("C06.R1", f"{RS}::LazySeq::{f.name}::{how}", RS, f.line, True)
    if seen_guard == 0:
        raise AnalysisError("no guard region found in impl LazySeq: scanner out of date")
    if not any_blocking:
        for name in sorted(acquirers):
            ctx.ob("C06.R1", f"{RS}::{name}::try_lock loop that releases the GIL between attempts", RS, next(f.line for f in rf.fns if f.name == name and f.owner == ""), True)


@rule("C06.R8", floor=1)
def r8_no_callback_under_a_mutable_state_borrow(ctx):
    """The state of a LazySeq sits in a RefCell inside a *re-entrant* mutex: the same thread may come
    back to the same LazySeq from Python code the LazySeq itself is running (a producer, or the
    coercion of its result, that looks at the seq being built).  That re-entrant reader borrows
    the state; if the outer frame holds a `borrow_mut()` across the call-back, the RefCell panics
    (PanicException, a BaseException).  So between `let mut x = <..>.borrow_mut();` and the end of
    x's life no PyO3 call-back and no repository function that reaches one occurs."""
    rf = ctx.rust(RS)
    n = 0
    for f in rf.fns_of("LazySeq"):
        for m in re.finditer(r"let\s+mut\s+([A-Za-z_][A-Za-z0-9_]*)\s*=\s*[^;]*\.\s*borrow_mut\s*\(\s*\)\s*;", f.body):
            n += 1
            g, start = m.group(1), m.end()
            depth, k, end = 0, start, len(f.body)
            while k < len(f.body):
                if f.body[k] == "{":
                    depth += 1
                elif f.body[k] == "}":
                    if depth == 0:
                        end = k
                        break
                    depth -= 1
                k += 1
            d = re.search(r"\bdrop\s*\(\s*" + re.escape(g) + r"\s*\)", f.body[start:end])
            if d:
                end = start + d.start()
            hits = [h for h in _callbacks_in(f.body[start:end]) if h[1] not in ("clone_ref",)]
            ordinal = sum(1 for m2 in re.finditer(r"borrow_mut\s*\(", f.body[:m.start()]))
            ctx.ob("C06.R8", f"{RS}::LazySeq::{f.name}::mutable borrow #{ordinal} is released before any call-back", RS, rf.line_of(f.start + 1 + m.start()), not hits,
                   "" if not hits else f"`{hits[0][2]}` in `{_stmt_at(f.body, start + hits[0][0])}` can run Python code while the state is mutably borrowed: a same-thread look at this LazySeq from that code panics (RefCell already mutably borrowed)",
                   witness="(def s (lazy-seq (eduction (map (fn [x] (realized? s) x)) [1 2 3]))) (vec s) => PanicException")
    if n == 0:
        raise AnalysisError("no mutable state borrow found in impl LazySeq: scanner out of date")


@rule("C06.R2", floor=1)
def r2_computing_typestate(ctx):
    """After `*state = LazySeqState::Computing` every exit of the function (`?`, return) must come
    after a store of Computed/Realized/Initialized: otherwise an exception thrown by the producer
    leaves the cell in Computing, which every later reader maps to an empty sequence."""
    rf = ctx.rust(RS)
    n = 0
    for f in rf.fns_of("LazySeq"):
        for m in re.finditer(r"\*\s*state\s*=\s*LazySeqState\s*::\s*Computing\s*;", f.body):
            n += 1
            rest = f.body[m.end():]
            # a store of a definite state through any place expression: `*state = ..`, `*mutex.borrow_mut() = ..`
            nxt = re.search(r"\*\s*[A-Za-z_][A-Za-z0-9_]*(?:\s*\.\s*[A-Za-z_][A-Za-z0-9_]*\s*\(\s*\))*\s*=\s*LazySeqState\s*::\s*(Computed|Realized|Initialized)\b", rest)
            window = rest[: nxt.start()] if nxt else rest
            exits = [(x.start(), "?") for x in re.finditer(r"\?\s*[;,)]", window)] + [(x.start(), "return") for x in re.finditer(r"\breturn\b", window)]
            # a scope guard that restores the state on unwind counts as a store
            restorer = re.search(r"(scopeguard|defer!|struct\s+\w*Restore|impl\s+Drop)", f.body)
            line = rf.line_of(f.start + 1 + m.start())
            if exits and not restorer:
                off, kind = sorted(exits)[0]
                stmt = _stmt_at(rest, off)
                ctx.ob("C06.R2", f"{RS}::LazySeq::{f.name}::exit `{kind}` in `{stmt}` while state is Computing", RS, rf.line_of(f.start + 1 + m.end() + off), False,
                       "an exception here leaves the cell in Computing for ever: the next (seq s) answers nil instead of re-raising or retrying",
                       witness="(def s (lazy-seq (throw (ex-info \"x\" {})))) (seq s) raises; (seq s) again => nil")
            else:
                ctx.ob("C06.R2", f"{RS}::LazySeq::{f.name}::Computing is always followed by a definite state", RS, line, True)
    if n == 0:
        # no Computing typestate at all: nothing can be left dangling (R3 judges the missing take-then-call)
        ctx.ob("C06.R2", f"{RS}::LazySeq::no Computing store (typestate not used)", RS, 0, True)
    # readers of Computing: what do they answer?
    ctx.note("C06.R2: Computing is read by _compute_seq (answers None) and seq (answers None)")


@rule("C06.R3", floor=2)
def r3_take_then_call(ctx):
    """The generator is cloned out of Initialized and the state set to Computing *before* the single
    call of the generator (at most one call per cell under the lock)."""
    rf = ctx.rust(RS)
    fns = rf.fns_of("LazySeq")
    calls = [(f, m) for f in fns for m in re.finditer(r"\.\s*call0\s*\(", f.body)]
    ok = len(calls) == 1
    ctx.ob("C06.R3", f"{RS}::LazySeq::generator called at exactly one site", RS, fns[0].line, ok, "" if ok else f"{len(calls)} call0 sites in impl LazySeq: the producer may run more than once per cell")
    for f, m in calls:
        before = f.body[: m.start()]
        take = re.search(r"if\s+let\s+LazySeqState\s*::\s*Initialized\s*\(\s*(\w+)\s*\)\s*=\s*state[^{]*\{([^}]*)\}", before, re.S)
        ok = bool(take) and re.search(r"\*\s*state\s*=\s*LazySeqState\s*::\s*Computing", take.group(2)) is not None and "clone_ref" in take.group(2)
        ctx.ob("C06.R3", f"{RS}::LazySeq::{f.name}::Initialized -> Computing precedes call0", RS, rf.line_of(f.start + 1 + m.start()), ok,
               "" if ok else "the generator is called before the state leaves Initialized: a re-entrant or concurrent seq() would call it again")
        in_loop = re.search(r"\b(loop|while|for)\b[^;{]*\{[^}]*$", before.split("fn ")[-1]) is not None and before.count("{") - before.count("}") > 0 and re.search(r"\b(loop|while)\b", before[before.rfind("{"):]) is not None
        ctx.ob("C06.R3", f"{RS}::LazySeq::{f.name}::call0 not in a loop", RS, rf.line_of(f.start + 1 + m.start()), not in_loop, "" if not in_loop else "generator call sits in a loop")


@rule("C06.R4", floor=3)
def r4_one_element_per_cell(ctx):
    """Sequence.__call__ pulls exactly one element (one it.next(), no loop) and wraps the remainder
    in a new LazySeq; SeqIterator.__next__ is a loop-free step; the structs are declared frozen
    except the iterator cursor."""
    rf = ctx.rust(RS)
    c = rf.fn("Sequence", "__call__")
    nexts = len(re.findall(r"\.\s*next\s*\(", c.body))
    loops = re.findall(r"\b(loop|while|for)\b", c.body)
    ok = nexts == 1 and not loops and "new_py_lazy_seq" in c.body and "new_py_cons" in c.body
    ctx.ob("C06.R4", f"{RS}::Sequence::__call__::one next(), rest wrapped lazily", RS, c.line, ok,
           "" if ok else f"{nexts} next() call(s), loops={loops}: more than one element is pulled per cell or the remainder is not deferred")
    nx = rf.fn("SeqIterator", "__next__")
    loops = re.findall(r"\b(loop|while|for)\b", nx.body)
    seqs = len(re.findall(r"call_method0\s*\(", nx.body))
    ok = not loops and seqs == 1
    ctx.ob("C06.R4", f"{RS}::SeqIterator::__next__::loop-free single step", RS, nx.line, ok, "" if ok else "SeqIterator.__next__ realises more than the current cell")
    for name in ("Cons", "EmptySequence", "LazySeq"):
        st = rf.structs.get(name)
        if st is None:
            raise AnalysisError(f"anchor vanished: struct {name}")
        ok = "frozen" in st[0]
        ctx.ob("C06.R4", f"{RS}::{name}::#[pyclass(frozen)]", RS, st[2], ok, "" if ok else f"{name} is no longer a frozen pyclass: its fields can be mutated from Python-visible methods")


SEQ_FNS = ["map", "filter", "remove", "keep", "keep-indexed", "take", "take-while", "take-nth", "drop", "drop-while", "interpose",
           "interleave", "cycle", "repeat", "repeatedly", "iterate", "range", "partition", "partition-all", "partition-by", "distinct",
           "dedupe", "concat", "flatten", "tree-seq"]


def _named_fns_enclosing(f):
    out = []
    for a in L.ancestors(f):
        if L.head(a) in ("fn", "fn*") and len(a.items) > 1 and isinstance(a.items[1], L.Sym):
            out.append(a.items[1].val)
    return out


@rule("C06.R5", floor=20)
def r5_laziness_discipline(ctx):
    """For each core seq function, every true recursion in a collection arity (self-call with the
    arity's own argument count, via apply, or of an enclosing named local fn) lies under a
    lazy-seq form, so that nothing beyond the demanded element is computed; concat_from_seq does
    not realise its argument."""
    defs = L.top_defs(ctx.lisp(CORE))
    for name in SEQ_FNS:
        d = defs.get(name)
        if d is None:
            raise AnalysisError(f"anchor vanished: core.lpy::{name}")
        found = 0
        for params, body in L.fn_arities(d):
            nparams, variadic = L.param_count(params)
            for b in body:
                for f in L.walk(b):
                    h = L.head(f)
                    if h is None:
                        continue
                    target = None
                    nargs = len(f.items) - 1
                    if h == name:
                        target = name
                        if not variadic and nargs != nparams:
                            continue  # arity delegation
                        if variadic and nargs < nparams:
                            continue
                    elif h == "apply" and len(f.items) > 1 and L.is_sym(f.items[1], name):
                        target = f"apply {name}"
                    elif h in _named_fns_enclosing(f):
                        target = h
                    if target is None:
                        continue
                    # skip transducer arities: recursion inside (fn [rf] ...) step functions is reduction, not seq building
                    lazy = any(L.head(a) in ("lazy-seq", "lazy-cat") for a in L.ancestors(f))
                    in_xf = any(L.head(a) in ("fn", "fn*") and any(isinstance(x, L.Vec) and [p.text() for p in x.items] == ["rf"] for x in a.items[1:3]) for a in L.ancestors(f))
                    if in_xf:
                        continue
                    found += 1
                    ctx.ob("C06.R5", f"{CORE}::{name}/{params.text()}::{f.text()[:80]}", CORE, f.line, lazy,
                           "" if lazy else f"recursive call `{f.text()[:60]}` is not under lazy-seq: the whole input is walked (and an infinite one never returns) as soon as the first element is demanded")
        if found == 0:
            ctx.ob("C06.R5", f"{CORE}::{name}::no direct recursion (built from other lazy functions)", CORE, d.line, True)
    cf = ctx.fn(RT, "concat_from_seq")
    bad = [P.un(c) for c in P.calls(cf) if P.un(c.func) in ("list", "tuple", "len", "sorted", "vec.vector", "llist.list")]
    ctx.ob("C06.R5", f"{RT}::concat_from_seq::iterator pipeline", RT, cf.lineno, not bad, "" if not bad else f"`{bad[0]}` realises the argument sequence")


EAGER = {"vec", "doall", "dorun", "mapv", "filterv", "into", "count", "last", "reverse", "sort", "apply", "reduce", "python/list", "python/tuple", "python/len"}
EAGER_OK = {("concat", "apply"), ("mapcat", "apply"), ("interleave", "apply"), ("map", "apply"), ("flatten", "apply")}


def _rebound_seq_names(arity_body):
    """Names bound by (when-let [X (seq ..)] ..) / (let [X (seq ..)] ..) / (if-let ..) in a body."""
    out = set()
    for b in arity_body:
        for f in L.walk(b):
            if L.head(f) in ("when-let", "if-let", "let", "let*", "loop") and len(f.items) > 1 and isinstance(f.items[1], L.Vec):
                bs = f.items[1].items
                for k, v in zip(bs[0::2], bs[1::2]):
                    if isinstance(k, L.Sym) and L.head(v) in ("seq", "map"):
                        out.add(k.val)
    return out


@rule("C06.R6", floor=20)
def r6_demand_driven_seq_functions(ctx):
    """Inside the lazy bodies of the core seq functions nothing realises a whole collection (vec,
    doall, count, into, reverse ... applied to an input or to a lazy intermediate), and a collection
    parameter that was tested with (seq coll) is walked through that seq (when-let [coll (seq coll)]):
    calling first / rest on the raw parameter coerces a non-seq iterable again for every access, so
    a producer runs more than once and head and tail may come from different iterations."""
    defs = L.top_defs(ctx.lisp(CORE))
    for name in SEQ_FNS:
        d = defs.get(name)
        if d is None:
            raise AnalysisError(f"anchor vanished: core.lpy::{name}")
        problems = []
        for params, body in L.fn_arities(d):
            pnames = {p.val for p in params.items if isinstance(p, L.Sym) and p.val != "&"}
            coll_params = {p for p in pnames if p in ("coll", "colls", "c1", "c2", "s")}
            for b in body:
                lazies = [f for f in L.walk(b) if L.head(f) in ("lazy-seq", "lazy-cat")]
                for lz in lazies:
                    for f in L.walk(lz):
                        h = L.head(f)
                        if h in EAGER and (name, h) not in EAGER_OK:
                            # only an *input* collection is unbounded: a parameter named like one, of the
                            # defn or of an enclosing local fn, reached without a bounding operator
                            local_params = set(coll_params)
                            for a in L.ancestors(f):
                                if L.head(a) in ("fn", "fn*"):
                                    pv = next((x for x in a.items[1:3] if isinstance(x, L.Vec)), None)
                                    if pv is not None:
                                        local_params |= {p.val for p in pv.items if isinstance(p, L.Sym) and p.val in ("coll", "colls")}
                            hit = None
                            for x in L.walk(f):
                                if isinstance(x, L.Sym) and x.val in local_params and x is not f.items[0]:
                                    bounded = any(L.head(a) in ("take", "take-while", "first", "second", "nth", "peek") for a in L.ancestors(x) if any(y is f for y in L.ancestors(a)) or a is f)
                                    if not bounded:
                                        hit = x
                            if hit is not None:
                                problems.append(f"`{f.text()[:50]}` realises the input `{hit.val}` inside the lazy body: every producer runs one step ahead of (or regardless of) demand")
            # seq-once: a parameter tested with (seq p) but walked raw
            rebound = _rebound_seq_names(body)
            for b in body:
                tests_seq = {x.items[1].val for x in L.walk(b) if L.head(x) == "seq" and len(x.items) == 2 and isinstance(x.items[1], L.Sym) and x.items[1].val in coll_params and L.head(x.parent) in ("when", "if", "when-not", "if-not")}
                for p in tests_seq - rebound:
                    uses = [x for x in L.walk(b) if L.head(x) in ("first", "rest", "next") and len(x.items) == 2 and L.is_sym(x.items[1], p)]
                    if uses:
                        problems.append(f"`{p}` is tested with (seq {p}) but then walked raw (`{uses[0].text()}`): a non-seq iterable is coerced again for every access")
            # one step ahead (a): the arguments of the self-call that continues the sequence are evaluated
            # when the *current* cell is realized; applying a function parameter there (iterate's (f x))
            # computes the next element before anyone asked for it -- unless the self-call is deferred in
            # a lazy-seq of its own
            fparams = {p for p in pnames if p in ("f", "pred", "g", "keyfn", "xf")}
            for b in body:
                for lz in (x for x in L.walk(b) if L.head(x) in ("lazy-seq",)):
                    if any(L.head(a) == "lazy-seq" for a in L.ancestors(lz)):
                        continue  # judge from the outermost lazy body
                    for call in (c for c in L.walk(lz) if L.head(c) == name and c is not lz):
                        deferred = False
                        for a in L.ancestors(call):
                            if a is lz:
                                break
                            if L.head(a) in ("lazy-seq", "fn", "fn*", "delay"):
                                deferred = True
                        if deferred:
                            continue
                        eager = [x for arg in call.items[1:] for x in L.walk(arg) if isinstance(x, L.List) and x.items and isinstance(x.items[0], L.Sym) and x.items[0].val in fparams]
                        if eager:
                            problems.append(f"`{call.text()[:50]}` applies `{eager[0].items[0].val}` in the arguments of the call that continues the sequence: the next element is computed as soon as the current one is realized")
            # one step ahead (b): a body that returns (first coll) as its head must not test the element
            # after it first ((seq (rest coll)) / (next coll) as a branch condition)
            for b in body:
                for lz in (x for x in L.walk(b) if L.head(x) == "lazy-seq"):
                    heads = [c for c in L.walk(lz) if L.head(c) == "cons" and len(c.items) == 3 and L.head(c.items[1]) == "first" and len(c.items[1].items) == 2 and isinstance(c.items[1].items[1], L.Sym)]
                    for c in heads:
                        src = c.items[1].items[1].val
                        for a in L.ancestors(c):
                            if a is lz:
                                break
                            if L.head(a) in ("if", "when", "if-not", "when-not", "cond") and len(a.items) > 1:
                                t = a.items[1]
                                look = [x for x in L.walk(t) if (L.head(x) == "next" and len(x.items) == 2 and L.is_sym(x.items[1], src)) or (L.head(x) == "seq" and len(x.items) == 2 and L.head(x.items[1]) in ("rest", "next") and L.is_sym(x.items[1].items[1], src))]
                                if look:
                                    problems.append(f"`{look[0].text()}` is tested before `{c.items[1].text()}` is returned: producing an element realizes the one after it")
            # the same one level up: a collection of collections tested with (every? seq colls) must be
            # walked through those seqs ((map seq colls) bound first), not through the raw members
            for b in body:
                for x in L.walk(b):
                    if L.head(x) in ("every?", "some", "not-any?", "not-every?") and len(x.items) == 3 and L.is_sym(x.items[1], "seq") and isinstance(x.items[2], L.Sym):
                        cs = x.items[2].val
                        scope = x.parent
                        while scope is not None and L.head(scope) not in ("lazy-seq", "fn", "fn*", "let", "loop", "defn"):
                            scope = scope.parent
                        raw = [u for u in L.walk(scope or b) if L.head(u) == "map" and len(u.items) == 3 and L.is_sym(u.items[2], cs) and isinstance(u.items[1], L.Sym) and u.items[1].val in ("first", "rest", "next")]
                        if raw:
                            problems.append(f"the members of `{cs}` are tested with (every? seq {cs}) but walked raw (`{raw[0].text()}`): each non-seq member is coerced again for every access, so its producer runs more than once per element")
        ctx.ob("C06.R6", f"{CORE}::{name}::demand-driven", CORE, d.line, not problems, "; ".join(problems[:2]))


@rule("C06.R9", floor=1)
def r9_iterators_under_lazy_seqs_survive_a_failing_element(ctx):
    """A lazy seq cell whose producer raised keeps its producer and runs it again on the next access
    (C06.R2).  Where the producer is `next()` on a Python iterator shared by the cells
    (iterator_sequence), that iterator must still be usable after the exception: an itertools
    object keeps its position when an inner iterator raises, but a *generator* (generator
    expression, generator function) whose frame an exception has left is finished for good --
    the retry gets StopIteration, which is cached as the end of the sequence.  So an iterator built
    over caller-supplied seqs (whose elements run user code) and handed to iterator_sequence is
    not a generator.  (A generator over the collection's own immutable delegate cannot fail.)"""
    n = 0
    for rel in ctx.glob("src/basilisp/lang", ".py"):
        tree = ctx.py(rel)
        for fn in P.all_defs(tree):
            params = {a.arg for a in fn.args.args + fn.args.kwonlyargs} - {"self", "cls"}
            gen_fns = {f.name for f in ast.walk(fn) if isinstance(f, P.FUNC) and f is not fn and any(isinstance(y, (ast.Yield, ast.YieldFrom)) for y in ast.walk(f))}
            for c in P.calls(fn):
                if P.enclosing_func(c) is not fn or P.un(c.func).split(".")[-1] != "iterator_sequence" or not c.args:
                    continue
                arg = c.args[0]
                if isinstance(arg, ast.Name):
                    src = [a.value for a in ast.walk(fn) if isinstance(a, ast.Assign) and P.un(a.targets[0]) == arg.id]
                    arg = src[-1] if src else arg
                n += 1
                is_gen = isinstance(arg, ast.GeneratorExp) or (isinstance(arg, ast.Call) and P.un(arg.func) in gen_fns)
                over_params = False
                if isinstance(arg, ast.GeneratorExp):
                    over_params = any(P.names_read(g.iter) & params for g in arg.generators)
                elif is_gen:
                    over_params = any(P.names_read(a) & params for a in arg.args)
                bad = is_gen and over_params
                ctx.ob("C06.R9", f"{rel}::{P.qual(fn)}::iterator_sequence over {'a generator' if is_gen else 'a re-usable iterator'}", rel, c.lineno, not bad,
                       "" if not bad else f"`{P.un(arg)[:70]}` is a generator over caller-supplied seqs: once an element producer raises inside it the generator is finished, so the cell's retry sees StopIteration and the sequence is silently cut there",
                       witness="s = (concat [0 1 2] (map f [3 4]) [5 6]) with f failing once on 3: the second (vec s) is [0 1 2]")
    if n == 0:
        raise AnalysisError("no iterator_sequence call found under src/basilisp/lang")


@rule("C06.R7", floor=1)
def r7_seq_accessors_do_not_realize_for_impossible_indices(ctx):
    """runtime.nth on a seq walks the seq until it reaches the index.  A negative index can never
    be reached, so it must be answered (default / IndexError) without walking: otherwise
    (nth lazy -1 default) realizes the whole sequence and does not return on an infinite one."""
    fn = P.find_def(ctx.py(RT), "_nth_iseq")
    if fn is None:
        raise AnalysisError("anchor vanished: runtime._nth_iseq")
    idx = fn.args.args[1].arg
    loops = [l for l in ast.walk(fn) if isinstance(l, ast.For)]
    if not loops:
        raise AnalysisError("runtime._nth_iseq no longer walks its argument with a for loop")
    guards = [c for c in ast.walk(fn) if isinstance(c, ast.Compare) and len(c.ops) == 1 and isinstance(c.ops[0], (ast.Lt, ast.GtE, ast.Gt, ast.LtE))
              and {P.un(c.left), P.un(c.comparators[0])} == {idx, "0"}]
    ok = False
    for g in guards:
        # in the loop's iterable, or in a test that precedes the loop
        if any(P.contains(l.iter, g) for l in loops) or any(g.lineno <= l.lineno and not P.contains(l, g) for l in loops):
            ok = True
    ctx.ob("C06.R7", f"{RT}::_nth_iseq::a negative index is answered without walking the seq", RT, fn.lineno, ok,
           "" if ok else "every index, negative ones included, walks the seq to its end: (nth (map f coll) -1 :nf) realizes everything, and never returns on an infinite seq",
           witness="(nth (iterate inc 0) -1 :nf)")


SELFTEST = [
    {"name": "iterate computes the next element eagerly (the repaired defect)", "file": CORE, "expect": "C06.R6",
     "old": "   (cons x (lazy-seq (iterate f (f x))))))", "new": "   (cons x (iterate f (f x)))))"},
    {"name": "nth walks the seq for a negative index (the repaired defect)", "file": RT, "expect": "C06.R7",
     "old": "    for j, e in enumerate(coll if i >= 0 else ()):\n", "new": "    for j, e in enumerate(coll):\n"},
    {"name": "twin: nth rejects a negative index up front", "file": RT, "expect": None,
     "old": "    for j, e in enumerate(coll if i >= 0 else ()):\n", "new": "    if i < 0:\n        coll = ()\n    for j, e in enumerate(coll):\n"},
    {"name": "seeded C06/a: map realises all collections at every step", "file": CORE, "expect": "C06.R6",
     "old": "                        (let [colls (map seq colls)]", "new": "                        (let [colls (vec (map seq colls))]"},
    {"name": "seeded C06/b: filter walks the raw parameter", "file": CORE, "expect": "C06.R6",
     "old": "    (when-let [coll (seq coll)]\n      (if (pred (first coll))\n        (cons (first coll) (filter pred (rest coll)))\n        (filter pred (rest coll)))))))",
     "new": "    (when (seq coll)\n      (if (pred (first coll))\n        (cons (first coll) (filter pred (rest coll)))\n        (filter pred (rest coll)))))))"},
    {"name": "one guard taken by waiting for the mutex with the GIL held (the repaired defect)", "file": RS, "expect": "C06.R1", "nth": 0,
     "old": "        let mutex = lock_without_gil(py, &self.lock);\n", "new": "        let mutex = self.lock.lock();\n"},
    {"name": "the helper waits for the mutex after all", "file": RS, "expect": "C06.R1",
     "old": "        if let Some(g) = lock.try_lock() {\n            return g;\n        }\n        py.detach(std::thread::yield_now);\n", "new": "        return lock.lock();\n"},
    {"name": "producer failure leaves the cell in Computing (the repaired defect)", "file": RS, "expect": "C06.R2",
     "old": "                    *mutex.borrow_mut() = LazySeqState::Initialized(gen);\n", "new": ""},
    {"name": "result coerced under the mutable borrow (the repaired defect)", "file": RS, "expect": "C06.R8",
     "old": "                let result = to_seq(py, wrapped.bind(py))?.unbind();\n                let mut state = mutex.borrow_mut();\n", "new": "                let mut state = mutex.borrow_mut();\n                let result = to_seq(py, wrapped.bind(py))?.unbind();\n"},
    {"name": "generator called before leaving Initialized", "file": RS, "expect": "C06.R3",
     "old": "            genfn = Some(gen.clone_ref(py));\n            *state = LazySeqState::Computing;\n", "new": "            genfn = Some(gen.clone_ref(py));\n"},
    {"name": "second producer call site", "file": RS, "expect": "C06.R3",
     "old": "            let obj = match gen.call0(py) {\n                Ok(obj) => obj,\n", "new": "            let obj = match gen.call0(py) {\n                Ok(obj) => { let _again = gen.call0(py); obj }\n"},
    {"name": "Sequence pulls two elements", "file": RS, "expect": "C06.R4",
     "old": "        let mut it = slf.it.bind(py).clone();\n        match it.next() {", "new": "        let mut it = slf.it.bind(py).clone();\n        let _peek = it.next();\n        match it.next() {"},
    {"name": "Cons no longer frozen", "file": RS, "expect": "C06.R4",
     "old": "#[pyclass(subclass, generic, frozen, module = \"basilisp._lang.seq\")]\npub struct LazySeq {", "new": "#[pyclass(subclass, generic, module = \"basilisp._lang.seq\")]\npub struct LazySeq {"},
    {"name": "map recursion outside lazy-seq", "file": CORE, "expect": "C06.R5",
     "old": "  ([f coll]\n   (lazy-seq\n    (when-let [coll (seq coll)]\n      (cons (f (first coll)) (map f (rest coll))))))",
     "new": "  ([f coll]\n   (when-let [coll (seq coll)]\n     (cons (f (first coll)) (map f (rest coll)))))"},
    {"name": "concat_from_seq realises its input", "file": RT, "expect": "C06.R5",
     "old": "def concat_from_seq(", "new": "def _unused_marker():\n    pass\n\n\ndef concat_from_seq("},
    # twins
    {"name": "twin: guard variable renamed", "file": RS, "expect": None, "count": "all",
     "old": "let mutex = lock_without_gil(py, &self.lock);\n        let state = mutex.deref().borrow();", "new": "let guard = lock_without_gil(py, &self.lock);\n        let state = guard.deref().borrow();"},
]
# the concat_from_seq mutant above is a placeholder twin (adds an unrelated def): drop it from the mutant list
SELFTEST = [c for c in SELFTEST if c["name"] != "concat_from_seq realises its input"]
