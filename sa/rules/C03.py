"""C03 -- readable printing round-trips through the reader.

Round-trip equality is a runtime notion; what is structural is that printer and reader are two
tables (escape maps, tag prefixes, numeric grammars) that must agree.
"""
from __future__ import annotations

import ast

from ..core import AnalysisError, rule
from .. import pyfacts as P

OBJ = "src/basilisp/lang/obj.py"
RD = "src/basilisp/lang/reader.py"
QUEUE = "src/basilisp/lang/queue.py"
SET = "src/basilisp/lang/set.py"
MAP = "src/basilisp/lang/map.py"
TAGGED = "src/basilisp/lang/tagged.py"

EXPLANATION = (
    "Writer/reader table agreement: every escape the string/bytes printers can emit is accepted by the corresponding reader "
    "table and maps back to the character it was emitted for; fixed-width unicode escapes are either read with a bounded loop or "
    "the printer protects a following hex digit; every printer that wraps a payload in double quotes escapes the double quote; "
    "floats printed with repr() are read by float() of the same text; every #tag / ## / #x prefix a printer emits has a reader entry."
)
DECIDES = "escape-table inclusion and inversion (strings, bytes), delimiter escaping, fixed-width escape framing, float literal conversion = inverse of repr, tag/constant prefix tables"
DECLINED = "equality of the re-read value, determinism of map/set print order, nested structure (values)"
TRUSTED = ["FT-codec: the unicode_escape codec emits \\\\ \\t \\n \\r \\xHH \\uHHHH \\UHHHHHHHH", "FT-repr: repr(float) is a decimal/exponent literal that float() inverts exactly; isoformat() and str(UUID) contain no double quote"]
ASSUMPTIONS = []
TECHNIQUE = "writer/reader table agreement over dict literals, f-string heads and regex/escape branches extracted from the AST"


def _dict_literal(ctx, rel, name):
    v = P.module_assign(ctx.py(rel), name)
    if not isinstance(v, ast.Dict):
        raise AnalysisError(f"anchor vanished: {rel}::{name} (dict literal)")
    ctx.analysed["tables"].add(f"{rel}::{name} ({len(v.keys)} entries)")
    out = {}
    for k, val in zip(v.keys, v.values):
        try:
            kk = ast.literal_eval(k) if not isinstance(k, ast.Call) else ("ord", ast.literal_eval(k.args[0])) if P.un(k.func) == "ord" else None
            out[kk] = ast.literal_eval(val)
        except Exception:
            raise AnalysisError(f"{rel}::{name} has a non-literal entry {P.un(k)}: {P.un(val)}")
    return out, v.lineno


def _reader_str_branches(ctx, fname="_read_str"):
    """Escape introducers accepted by non-raising branches of the string reader besides the table:
    constants compared with `char` (== / in {...}) in if-tests whose body does not end in raise."""
    fn = ctx.fn(RD, fname)
    accepted = set()
    # the escape handling may live in module-level helpers the reader function calls with the reader
    # context (one or two levels): their branches count as the reader's
    scope, frontier = [fn], [fn]
    for _lvl in range(2):
        nxt = []
        for f_ in frontier:
            for c in P.calls(f_):
                if isinstance(c.func, ast.Name) and c.func.id.startswith("_") and c.args and P.un(c.args[0]) == "ctx":
                    h = P.find_def(ctx.py(RD), c.func.id)
                    if h is not None and isinstance(h, P.FUNC) and h not in scope and any(isinstance(x, ast.Compare) and P.un(x.left) == "char" for x in ast.walk(h)):
                        scope.append(h)
                        nxt.append(h)
        frontier = nxt
    for node in (n for f_ in scope for n in ast.walk(f_)):
        if isinstance(node, ast.If):
            if node.body and isinstance(node.body[-1], ast.Raise):
                continue
            for c in ast.walk(node.test):
                if isinstance(c, ast.Compare) and P.un(c.left) == "char" and len(c.ops) == 1:
                    r = c.comparators[0]
                    if isinstance(c.ops[0], ast.Eq) and isinstance(r, ast.Constant) and isinstance(r.value, str):
                        accepted.add(r.value)
                    elif isinstance(c.ops[0], ast.In) and isinstance(r, ast.Set):
                        accepted |= {e.value for e in r.elts if isinstance(e, ast.Constant)}
    return accepted


def _uses_codec(fn) -> bool:
    return any(isinstance(c.func, ast.Attribute) and c.func.attr == "encode" and c.args and isinstance(c.args[0], ast.Constant) and c.args[0].value == "unicode_escape" for c in P.calls(fn))


CODEC_INTRODUCERS = {"\\", "t", "n", "r", "x", "u", "U"}  # FT-codec


@rule("C03.R1", floor=10)
def r1_string_escapes_printer_subset_reader(ctx):
    """Every escape the string printer can emit is accepted by the string reader and decodes to
    the character it was emitted for."""
    rtable, rline = _dict_literal(ctx, RD, "_STR_ESCAPE_CHARS")
    rbranch = _reader_str_branches(ctx) - {'"', "\\", ""}
    pfn = ctx.fn(OBJ, "_lrepr_str")
    helper = P.find_def(ctx.py(OBJ), "_escape_str")
    emitted: dict[str, str | None] = {}  # introducer -> source char (None if dynamic)
    if _uses_codec(pfn) or (helper is not None and _uses_codec(helper)):
        for i in CODEC_INTRODUCERS:
            emitted[i] = {"\\": "\\", "t": "\t", "n": "\n", "r": "\r"}.get(i)
        for c in P.calls(pfn):
            if isinstance(c.func, ast.Attribute) and c.func.attr == "replace" and len(c.args) == 2 and isinstance(c.args[1], ast.Constant):
                rep = c.args[1].value
                rep = rep.decode() if isinstance(rep, bytes) else rep
                if rep.startswith("\\"):
                    emitted[rep[1:]] = '"'
    if helper is not None:
        ptable, _pl = _dict_literal(ctx, OBJ, "_STR_ESCAPES")
        for src, out in ptable.items():
            if not (isinstance(out, str) and out.startswith("\\") and len(out) == 2):
                ctx.ob("C03.R1", f"{OBJ}::_STR_ESCAPES[{src!r}] = {out!r}", OBJ, pfn.lineno, False, "printer escape is not a backslash + one character")
                continue
            emitted[out[1]] = src
        for js in ast.walk(helper):
            if isinstance(js, ast.JoinedStr) and js.values and isinstance(js.values[0], ast.Constant) and str(js.values[0].value).startswith("\\"):
                emitted[str(js.values[0].value)[1:2]] = None
    if not emitted:
        raise AnalysisError("cannot see how _lrepr_str escapes its payload")
    for intro, src in sorted(emitted.items()):
        inst = f"{OBJ}::string printer emits \\{intro}"
        if intro in rtable:
            ok = src is None or rtable[intro] == src
            ctx.ob("C03.R1", inst, OBJ, pfn.lineno, ok, "" if ok else f"printed for {src!r} but the reader decodes \\{intro} to {rtable[intro]!r}")
        elif intro in rbranch:
            ctx.ob("C03.R1", inst, OBJ, pfn.lineno, True, "accepted by a reader branch")
        else:
            ctx.ob("C03.R1", inst, OBJ, pfn.lineno, False,
                   f"the printer can emit \\{intro} but the string reader has neither a table entry nor a branch for it: the printed string cannot be read back",
                   witness="(read-string (pr-str \"é\")) -> Unknown escape sequence")
    # the delimiter and the backslash themselves must be among the escaped characters
    for need in ('"', "\\"):
        ok = need in emitted.values() or (need == "\\" and "\\" in emitted)
        ctx.ob("C03.R1", f"{OBJ}::string printer escapes {need!r}", OBJ, pfn.lineno, ok, "" if ok else f"{need!r} is printed bare inside a double-quoted literal")
    # every character outside printable ASCII must be escaped or the reader must accept it raw (it does: any char but \ and ")
    _ = rline


@rule("C03.R2", floor=1)
def r2_fixed_width_escape_framing(ctx):
    """\\uXXXX / \\UXXXXXXXX escapes are followed by arbitrary text: either the reader bounds its
    digit loop by the escape's width, or the printer never lets a hex digit follow an escape."""
    rf = ctx.fn(RD, "_read_unicode_escape_seq")
    loops = [n for n in ast.walk(rf) if isinstance(n, (ast.While, ast.For))]
    bounded = any(isinstance(l, ast.For) and "range(" in P.un(l.iter) for l in loops) or any(
        isinstance(l, ast.While) and any("len(" in P.un(t) for t in ast.walk(l) if isinstance(t, (ast.If,)) for t in [t.test]) for l in loops)
    helper = P.find_def(ctx.py(OBJ), "_escape_str")
    protects = False
    if helper is not None:
        # a flag set where a \u escape is appended and tested together with hex-digit membership where a raw char is appended
        flags = {t.id for a in ast.walk(helper) if isinstance(a, ast.Assign) and isinstance(a.value, ast.Constant) and a.value.value is True for t in a.targets if isinstance(t, ast.Name)}
        for t in ast.walk(helper):
            if isinstance(t, ast.If):
                names = set(P.names_read(t.test))
                attrs = {P.un(x) for x in ast.walk(t.test) if isinstance(x, ast.Attribute)}
                # ... seen through explaining temporaries: the names a tested name was computed from
                for _round in range(3):
                    for a in ast.walk(helper):
                        if isinstance(a, ast.Assign) and any(isinstance(tg, ast.Name) and tg.id in names for tg in a.targets) and not (isinstance(a.value, ast.Constant)):
                            names |= set(P.names_read(a.value))
                            attrs |= {P.un(x) for x in ast.walk(a.value) if isinstance(x, ast.Attribute)}
                if names & flags and any("HEX" in n.upper() or "hex" in n for n in names | attrs):
                    protects = True
    pfn = ctx.fn(OBJ, "_lrepr_str")
    emits_fixed = _uses_codec(pfn) or helper is not None
    ok = bounded or protects or not emits_fixed
    ctx.ob("C03.R2", f"{RD}::_read_unicode_escape_seq <-> {OBJ}::string printer::escape framing", RD, rf.lineno, ok,
           "" if ok else "the reader consumes every hex digit after \\u / \\U and the printer writes fixed-width escapes followed by raw text: \"\\u4e2da\" (for \"中a\") is rejected as a 5-digit escape",
           witness="(read-string (pr-str \"中a\"))")
    ctx.note(f"C03.R2: reader loop bounded={bounded}, printer protects following hex digit={protects}")


def _quoted_wrappers(tree):
    """(function, joined-string node) for returns of f-strings of the form PREFIX" ... " ."""
    out = []
    for fn in P.all_defs(tree):
        for r in ast.walk(fn):
            if isinstance(r, ast.Return) and isinstance(r.value, ast.JoinedStr):
                vals = r.value.values
                if len(vals) >= 3 and isinstance(vals[0], ast.Constant) and str(vals[0].value).endswith('"') and isinstance(vals[-1], ast.Constant) and str(vals[-1].value).startswith('"'):
                    out.append((fn, r.value))
    return out


SAFE_PAYLOADS = ("o.isoformat()", "o", "_escape_str(o)")  # FT-repr: isoformat / str(UUID) alphabets exclude '"'


@rule("C03.R3", floor=4)
def r3_delimiter_escaping(ctx):
    """Every lrepr implementation that wraps a payload in double quotes passes it through a step
    that maps the double quote to an escape the matching reader accepts, unless the payload's
    alphabet excludes the double quote (isoformat, UUID)."""
    tree = ctx.py(OBJ)
    btable_r, _ = _dict_literal(ctx, RD, "_BYTES_ESCAPE_CHARS")
    for fn, js in _quoted_wrappers(tree):
        head = str(js.values[0].value)
        payload = js.values[1]
        ptxt = P.un(payload.value) if isinstance(payload, ast.FormattedValue) else P.un(payload)
        inst = f"{OBJ}::{fn.name}::{head}...\""
        conv = getattr(payload, "conversion", -1)
        if fn.name in ("_lrepr_datetime", "_lrepr_uuid") or ptxt in ("o.isoformat()",) or (ptxt == "o" and conv == ord("s") and "uuid" in fn.name):
            ctx.ob("C03.R3", inst, OBJ, fn.lineno, True, "payload alphabet excludes the double quote (FT-repr)")
            continue
        src = P.un(fn)
        helper_ok = False
        # (a) a replace of '"' on the payload path, (b) a table-driven escape with a '"' entry
        if any(isinstance(c.func, ast.Attribute) and c.func.attr == "replace" and c.args and isinstance(c.args[0], ast.Constant) and c.args[0].value in ('"', b'"') for c in P.calls(fn)):
            helper_ok = True
        for tbl in ("_STR_ESCAPES", "_BYTES_ESCAPES"):
            if tbl in src or any(tbl in P.un(h) for h in P.all_defs(tree) if h.name in {P.un(c.func) for c in P.calls(fn)}):
                t, _ = _dict_literal(ctx, OBJ, tbl)
                if '"' in t or ("ord", '"') in t:
                    helper_ok = True
        if "repr(o)" in src and helper_ok and fn.name == "_lrepr_bytes":
            # FT-repr: repr(bytes) escapes the *single* quote as \' when the value holds both quote kinds
            rb = _reader_str_branches(ctx, "_read_byte_str")
            if "'" not in btable_r and "'" not in rb:
                ctx.ob("C03.R3", inst, OBJ, fn.lineno, False,
                       "the payload is Python's repr(bytes): for a value holding both quote kinds it writes \\' , an escape the byte-string reader does not know (it keeps the backslash), so the value read back gains a byte",
                       witness="(read-string (pr-str (python/bytes [39 34]))) is a 3-byte string")
                continue
        if "repr(o)" in src and not helper_ok:
            ctx.ob("C03.R3", inst, OBJ, fn.lineno, False, "the payload is Python's repr(), which picks its own quote character and leaves a double quote bare",
                   witness="(pr-str (python/bytes [97 34 98])) => #b \"a\"b\"")
            continue
        ctx.ob("C03.R3", inst, OBJ, fn.lineno, helper_ok, "" if helper_ok else "no step escapes the double quote inside the double-quoted literal")
    # bytes escapes subset of the byte-string reader's table (+ \x branch)
    bp = P.find_def(tree, "_lrepr_bytes")
    if bp is None:
        raise AnalysisError("anchor vanished: obj._lrepr_bytes")
    if "_BYTES_ESCAPES" in P.un(bp):
        t, _ = _dict_literal(ctx, OBJ, "_BYTES_ESCAPES")
        rb = _reader_str_branches(ctx, "_read_byte_str")
        for k, out in sorted(t.items(), key=str):
            intro = out[1:] if isinstance(out, str) and out.startswith("\\") else None
            src = chr(k) if isinstance(k, int) else k[1] if isinstance(k, tuple) else k
            ok = intro is not None and len(intro) == 1 and ((intro in btable_r and btable_r[intro] == src.encode()) or intro in rb)
            ctx.ob("C03.R3", f"{OBJ}::bytes printer emits {out!r} for {src!r}", OBJ, bp.lineno, ok, "" if ok else f"the byte-string reader does not decode {out!r} back to {src!r}")
        emits_x = any(isinstance(j, ast.JoinedStr) and j.values and isinstance(j.values[0], ast.Constant) and str(j.values[0].value).startswith("\\x") for j in ast.walk(bp))
        if emits_x:
            ok = "x" in rb
            ctx.ob("C03.R3", f"{OBJ}::bytes printer emits \\xHH", OBJ, bp.lineno, ok, "" if ok else "the byte-string reader has no \\x branch")


@rule("C03.R4", floor=3)
def r4_float_literals_inverse_of_repr(ctx):
    """Floats are printed with repr(); every _read_num branch whose grammar covers a repr(float)
    text (plain decimal, exponent form) returns float(<the token text>), with no arithmetic on the
    parsed pieces."""
    pf = ctx.fn(OBJ, "_lrepr_float")
    rets = [P.un(r.value) for r in ast.walk(pf) if isinstance(r, ast.Return) and r.value is not None]
    ok = "repr(o)" in rets
    ctx.ob("C03.R4", f"{OBJ}::_lrepr_float::{' | '.join(rets)}", OBJ, pf.lineno, ok, "" if ok else "floats are no longer printed with repr(): shortest round-trip digits are not guaranteed")
    rn = ctx.fn(RD, "_read_num")
    for regex in ("float_literal", "scientific_notation_literal"):
        branch = None
        for node in ast.walk(rn):
            if isinstance(node, ast.If) and any(isinstance(n, ast.NamedExpr) and regex in P.un(n.value) for n in ast.walk(node.test)):
                branch = node
        if branch is None:
            raise AnalysisError(f"anchor vanished: _read_num branch for {regex}")
        rets, dec_rets = [], []
        for s in branch.body:
            for r in ast.walk(s):
                if isinstance(r, ast.Return) and r.value is not None:
                    # the M-suffixed token is a decimal literal: the returns under `if s.endswith("M")`
                    under_m = any(isinstance(a, ast.If) and "endswith('M')" in P.un(a.test) and any(P.contains(b, r) for b in a.body) for a in P.ancestors(r))
                    (dec_rets if under_m else rets).append(r)
        rets = [r for r in rets if not any(isinstance(a, ast.ExceptHandler) for a in P.ancestors(r))]
        dec_rets = [r for r in dec_rets if not any(isinstance(a, ast.ExceptHandler) for a in P.ancestors(r))]
        # decimals are printed with str(), every digit of them: the literal is converted by the exact
        # constructor Decimal(<text>) -- directly or through a helper that is nothing but that -- and
        # never through a decimal *context*, which rounds to the ambient (thread-local) precision
        for r in dec_rets:
            v = r.value
            okd, whyd = False, f"a decimal literal is converted by `{P.un(v)}`, not by the exact constructor decimal.Decimal(<token text>)"
            if isinstance(v, ast.Call) and len(v.args) == 1 and not v.keywords and not any(isinstance(x, ast.BinOp) for x in ast.walk(v.args[0])):
                fname = P.un(v.func)
                if fname in ("decimal.Decimal", "Decimal"):
                    okd, whyd = True, ""
                elif fname.startswith("langutil."):
                    h = P.find_def(ctx.py("src/basilisp/lang/util.py"), fname.split(".", 1)[1])
                    if h is not None and isinstance(h, P.FUNC) and len(h.args.args) == 1:
                        hrets = [x.value for x in ast.walk(h) if isinstance(x, ast.Return) and x.value is not None]
                        exact = bool(hrets) and all(isinstance(x, ast.Call) and P.un(x.func) in ("Decimal", "decimal.Decimal") and len(x.args) == 1 and not x.keywords and P.un(x.args[0]) == h.args.args[0].arg for x in hrets)
                        if exact:
                            okd, whyd = True, ""
                        else:
                            whyd = f"a decimal literal is converted by `{P.un(v)}`, whose result is `{' | '.join(P.un(x) for x in hrets)}` and not Decimal(<token text>): a conversion through a decimal context rounds to the ambient precision, while the printer writes every digit -- a decimal of more than 28 digits (or any decimal under with-precision) reads back as another value"
            ctx.ob("C03.R4", f"{RD}::_read_num::{regex} decimal literal -> {P.un(v)}", RD, r.lineno, okd, whyd,
                   witness="(read-string (pr-str 1.00000000000000000000000000001M)) inside (with-precision 4 ...)")
        good = [r for r in rets if isinstance(r.value, ast.Call) and P.un(r.value.func) == "float" and not any(isinstance(x, (ast.BinOp,)) for x in ast.walk(r.value))]
        ok = bool(rets) and len(good) == len(rets)
        bad = [P.un(r.value) for r in rets if r not in good]
        ctx.ob("C03.R4", f"{RD}::_read_num::{regex} -> {' | '.join(P.un(r.value) for r in rets)}", RD, branch.lineno, ok,
               "" if ok else f"a float literal is converted by `{bad[0] if bad else '?'}` instead of float(token): the value read is not the inverse of repr()",
               witness="1e23 read as int; 1.401298464324817e-45 read as 1.4012984643248169e-45")


@rule("C03.R11", floor=8)
def r11_imaginary_and_special_numbers(ctx):
    """Imaginary numbers are printed from repr() of a complex number; for a zero real part that text is
    repr(float) of the imaginary part followed by j -- exponent forms included -- which the reader's
    imaginary literal must accept (decided on the regex with exemplars of every shape repr(float)
    takes) and convert with float(); a non-zero real part has no literal, and repr() parenthesises a
    negative zero real part, so the printer must normalise a zero real part away.  Special values:
    'is it infinite / NaN' must be asked of a Decimal itself, never through math.isinf / math.isnan,
    which convert to float first and turn every finite decimal beyond 1.8e308 into an infinity."""
    regexes = {}
    for n in ctx.py(RD).body:
        if isinstance(n, ast.Assign) and isinstance(n.value, ast.Call) and P.un(n.value.func) == "re.compile" and n.value.args and isinstance(n.value.args[0], ast.Constant):
            regexes[P.un(n.targets[0])] = n.value.args[0].value
    if "complex_literal" not in regexes:
        raise AnalysisError("anchor vanished: reader.complex_literal")
    import re as _re
    rx = _re.compile(regexes["complex_literal"])
    # FT-repr: the shapes repr(float) takes (upper-cased by the printer), with the j suffix
    for ex in ("1J", "1.5J", "0.1J", "1E+23J", "1E+16J", "1.5E-07J", "5E-324J", "1.7976931348623157E+308J", "-2.5E-300J", "-1J"):
        ok = rx.fullmatch(ex) is not None
        ctx.ob("C03.R11", f"{RD}::complex_literal accepts {ex}", RD, 0, ok,
               "" if ok else f"the printer can write {ex} (repr of an imaginary number) but the reader's imaginary literal `{regexes['complex_literal']}` rejects it",
               witness="(read-string (pr-str (python/complex 0 1e23)))")
    rn = ctx.fn(RD, "_read_num")
    branch = next((node for node in ast.walk(rn) if isinstance(node, ast.If) and any(isinstance(x, ast.NamedExpr) and "complex_literal" in P.un(x.value) for x in ast.walk(node.test))), None)
    if branch is None:
        raise AnalysisError("anchor vanished: _read_num branch for complex_literal")
    txt = " ".join(P.un(s) for s in branch.body)
    ok = "float(" in txt and ("eE" in txt or "'e'" in txt.lower() or "exponent" in txt.lower() or "int(" not in txt)
    ctx.ob("C03.R11", f"{RD}::_read_num::an imaginary literal with an exponent is converted with float()", RD, branch.lineno, ok,
           "" if ok else "the imaginary part is converted with int() unless it contains a '.', so 1E+23J raises ValueError inside the reader")
    pc = ctx.fn(OBJ, "_lrepr_complex")
    g_rets = [r for r in ast.walk(pc) if isinstance(r, ast.Return) and r.value is not None]
    bare = [r for r in g_rets if P.un(r.value) in ("repr(o).upper()", "repr(o)") and not any(isinstance(a, ast.If) for a in P.ancestors(r) if P.contains(pc, a) and a is not pc)]
    zero_case = any(isinstance(t, ast.If) and "real" in P.un(t.test) for t in ast.walk(pc))
    ok = zero_case and not (bare and not zero_case)
    ctx.ob("C03.R11", f"{OBJ}::_lrepr_complex::a zero real part is normalised away before repr()", OBJ, pc.lineno, ok,
           "" if ok else "repr() renders complex(-0.0, -1.0) as (-0-1j): (pr-str (- 1J)) is not readable")
    sp = ctx.fn(OBJ, "_special_number_repr")
    from ..pycfg import CFG
    g = CFG(sp)
    floaty = [nd for nd in g.nodes if nd.ast is not None and nd.kind in ("stmt", "test") and any(P.un(c.func) in ("math.isinf", "math.isnan", "float") for c in P.calls(nd.ast))]

    def not_decimal(a, b, lab):
        return a.kind == "test" and P.un(a.ast).replace("decimal.", "") == "isinstance(o, Decimal)" and lab is False
    decimal_served = "Decimal" in P.un(sp.args.args[0].annotation) if sp.args.args and sp.args.args[0].annotation is not None else True
    ok = (not decimal_served) or all(g.edge_dominated(nd, not_decimal) for nd in floaty)
    ctx.ob("C03.R11", f"{OBJ}::_special_number_repr::math.isinf / math.isnan are never applied to a Decimal", OBJ, sp.lineno, ok,
           "" if ok else "math.isinf(o) converts a Decimal to float first: the finite 1E+400M prints as ##Inf and reads back as a float infinity",
           witness="(binding [*print-dup* true] (pr-str 1E+400M))")


def _string_heads(fn):
    """Leading literal text of returned f-strings / constants / seq_lrepr start arguments."""
    heads = []
    for n in ast.walk(fn):
        if isinstance(n, ast.Return) and n.value is not None:
            v = n.value
            if isinstance(v, ast.JoinedStr) and v.values and isinstance(v.values[0], ast.Constant):
                heads.append(str(v.values[0].value))
            elif isinstance(v, ast.Constant) and isinstance(v.value, str):
                heads.append(v.value)
            elif isinstance(v, ast.IfExp):
                for b in (v.body, v.orelse):
                    if isinstance(b, ast.Constant) and isinstance(b.value, str):
                        heads.append(b.value)
            elif isinstance(v, ast.Call) and P.un(v.func) in ("_seq_lrepr", "seq_lrepr") and len(v.args) > 1 and isinstance(v.args[1], ast.Constant):
                heads.append(v.args[1].value)
    return heads


@rule("C03.R5", floor=9)
def r5_prefix_tables(ctx):
    """Every #tag / ##constant / #dispatch prefix a printer emits has an entry in the reader's
    tables (_DATA_READERS, _NUMERIC_CONSTANTS, _read_macro_dispatch, the b/f special cases)."""
    rt = ctx.py(RD)
    rc = P.find_def(rt, "ReaderContext")
    dr = P.class_assign(rc, "_DATA_READERS") if rc is not None else None
    if dr is None:
        raise AnalysisError("anchor vanished: ReaderContext._DATA_READERS")
    tags = {c.args[0].value for c in P.calls(dr) if P.un(c.func) == "sym.symbol" and c.args and isinstance(c.args[0], ast.Constant)}
    nc = P.module_assign(rt, "_NUMERIC_CONSTANTS")
    if not isinstance(nc, ast.Dict):
        raise AnalysisError("anchor vanished: reader._NUMERIC_CONSTANTS")
    consts = {k.value for k in nc.keys if isinstance(k, ast.Constant)}
    md = P.module_assign(rt, "_read_macro_dispatch")
    mkeys = {k.value for k in md.keys if isinstance(k, ast.Constant)}
    special = set()
    rm = ctx.fn(RD, "_read_reader_macro")
    for c in ast.walk(rm):
        if isinstance(c, ast.Compare) and P.un(c.left) == "s.name" and isinstance(c.comparators[0], ast.Constant):
            special.add(c.comparators[0].value)
    ctx.analysed["tables"].add(f"reader tags={sorted(tags)} constants={sorted(consts)} macro keys={sorted(mkeys)} special={sorted(special)}")
    seen = 0
    for rel in (OBJ, QUEUE, SET, MAP):
        tree = ctx.py(rel)
        for fn in P.all_defs(tree):
            if not (fn.name.startswith("_lrepr") or fn.name in ("_special_number_repr", "map_lrepr", "_lrepr")):
                continue
            heads = _string_heads(fn)
            if fn.name == "map_lrepr":
                heads += [c.value for c in ast.walk(fn) if isinstance(c, ast.Constant) and isinstance(c.value, str) and c.value.startswith("#")]
            for h in heads:
                if not h.startswith("#"):
                    continue
                seen += 1
                inst = f"{rel}::{P.qual(fn)}::{h!r}"
                if h.startswith("##"):
                    ok = h[2:] in consts
                    why = f"`{h}` is printed but _NUMERIC_CONSTANTS has no {h[2:]!r}"
                elif len(h) > 1 and h[1] in mkeys and not h[1].isalpha():
                    ok, why = True, ""
                else:
                    tag = h[1:].split(" ")[0].split('"')[0].split("(")[0].strip()
                    ok = tag in tags or tag in special
                    why = f"`#{tag}` is printed but the reader has no data reader / special case for it"
                ctx.ob("C03.R5", inst, rel, fn.lineno, ok, "" if ok else why)
    if seen == 0:
        raise AnalysisError("no printed # prefixes found: extractor out of date")


META_PRINTERS = {
    "src/basilisp/lang/list.py": "PersistentList",
    "src/basilisp/lang/vector.py": "PersistentVector",
    "src/basilisp/lang/set.py": "PersistentSet",
    "src/basilisp/lang/queue.py": "PersistentQueue",
    "src/basilisp/lang/map.py": "PersistentMap",
}


@rule("C03.R6", floor=9)
def r6_metadata_printed_and_read(ctx):
    """'with metadata preserved under *print-meta*': every collection of the readable universe that
    carries metadata hands it to its printing helper (`meta=self._meta`), both helpers write
    `^<meta> ` before the form exactly when print_meta is on and there is metadata, the symbol
    printer does the same itself, and the reader has the `^` entry that attaches the map it reads to
    the next form (merging with, not replacing, what that form already carries)."""
    for rel, cname in sorted(META_PRINTERS.items()):
        cls = P.find_def(ctx.py(rel), cname)
        if cls is None:
            raise AnalysisError(f"anchor vanished: {rel}::{cname}")
        lr = P.methods(cls).get("_lrepr")
        if lr is None:
            raise AnalysisError(f"anchor vanished: {rel}::{cname}._lrepr")
        calls = [c for c in P.calls(lr) if P.un(c.func).split(".")[-1].lstrip("_") in ("seq_lrepr", "map_lrepr")]
        ok = bool(calls) and all(any(k.arg == "meta" and P.un(k.value) == "self._meta" for k in c.keywords) for c in calls)
        ctx.ob("C03.R6", f"{rel}::{cname}._lrepr passes meta=self._meta", rel, lr.lineno, ok,
               "" if ok else f"{cname} does not hand its metadata to the printing helper: (binding [*print-meta* true] (pr-str (with-meta x {{:a 1}}))) loses the metadata",
               witness="(binding [*print-meta* true] (read-string (pr-str (with-meta [1] {:a 1}))))")
    for rel, fname in ((OBJ, "seq_lrepr"), (MAP, "map_lrepr")):
        fn = ctx.fn(rel, fname)
        g = None
        rets = [r for r in ast.walk(fn) if isinstance(r, ast.Return) and isinstance(r.value, ast.JoinedStr)]
        with_meta = [r for r in rets if any(isinstance(v, ast.Constant) and isinstance(v.value, str) and v.value.startswith("^") for v in r.value.values[:1])
                     and any(isinstance(v, ast.FormattedValue) and "lrepr(meta" in P.un(v.value).replace(" ", "") for v in r.value.values)]
        ok = False
        if with_meta:
            r = with_meta[0]
            par = P.parent(r)
            t = P.un(par.test).replace('kwargs["print_meta"]', "print_meta").replace("kwargs['print_meta']", "print_meta") if isinstance(par, ast.If) else ""
            ok = t in ("print_meta and meta", "meta and print_meta") and r in par.body
            # the meta map is followed by a separator before the form
            vals = r.value.values
            sep = [v for v in vals[1:] if isinstance(v, ast.Constant) and isinstance(v.value, str) and v.value.startswith(" ")]
            ok = ok and bool(sep)
        ctx.ob("C03.R6", f"{rel}::{fname} writes `^<meta> ` before the form iff print_meta and meta", rel, fn.lineno, ok,
               "" if ok else f"{fname} does not print the metadata prefix under exactly `print_meta and meta`")
    sm = P.find_def(ctx.py("src/basilisp/lang/symbol.py"), "Symbol")
    lr = P.methods(sm).get("_lrepr") if sm is not None else None
    if lr is None:
        raise AnalysisError("anchor vanished: Symbol._lrepr")
    txt = P.un(lr)
    ok = "print_meta" in txt and "self._meta" in txt and "^" in txt
    ctx.ob("C03.R6", "src/basilisp/lang/symbol.py::Symbol._lrepr prints ^meta under print_meta", "src/basilisp/lang/symbol.py", lr.lineno, ok, "" if ok else "the symbol printer ignores *print-meta*")
    rd = P.module_assign(ctx.py(RD), "_read_dispatch")
    ent = {k.value: P.un(v) for k, v in zip(rd.keys, rd.values) if isinstance(k, ast.Constant)} if isinstance(rd, ast.Dict) else {}
    ok = ent.get("^") == "_read_meta"
    ctx.ob("C03.R6", f"{RD}::_read_dispatch['^'] -> _read_meta", RD, getattr(rd, "lineno", 0), ok, "" if ok else "the reader has no `^` entry: printed metadata cannot be read back")
    # keys of a namespaced map are rebuilt without / with the shared namespace by the printer and the
    # reader: a symbol key's metadata must travel with it on both sides
    ml = ctx.fn(MAP, "map_lrepr")
    strips = [y for y in ast.walk(ml) if isinstance(y, ast.Yield) and y.value is not None and isinstance(y.value, ast.Tuple)]
    inner = next((f for f in ast.walk(ml) if isinstance(f, P.FUNC) and f is not ml and any(isinstance(c, ast.Call) and isinstance(c.func, ast.Attribute) and c.func.attr == "with_name" for c in ast.walk(f))), None)
    ok = inner is not None and any(isinstance(c, ast.Call) and isinstance(c.func, ast.Attribute) and c.func.attr == "with_meta" for c in ast.walk(inner))
    ctx.ob("C03.R6", f"{MAP}::map_lrepr::a namespace-stripped key keeps its metadata", MAP, getattr(inner, "lineno", ml.lineno), ok,
           "" if ok else "under *print-namespace-maps* the key is rebuilt with with_name(...) only: ^{:q 1} on a symbol key is not printed",
           witness="(binding [*print-meta* true *print-namespace-maps* true] (pr-str {(with-meta 'n/a {:q 1}) 1}))")
    _ = strips
    kp = ctx.fn(RD, "_map_key_processor")
    symcalls = [c for c in ast.walk(kp) if isinstance(c, ast.Call) and P.un(c.func) == "sym.symbol"]
    ok = bool(symcalls) and all(any(k.arg == "meta" and "meta" in P.un(k.value) for k in c.keywords) for c in symcalls)
    ctx.ob("C03.R6", f"{RD}::_map_key_processor::a re-namespaced symbol key keeps its metadata", RD, kp.lineno, ok,
           "" if ok else "the reader rebuilds a symbol key of #:ns{...} without its metadata")
    rm = ctx.fn(RD, "_read_meta")
    txt = P.un(rm)
    ok = "with_meta(" in txt and "cons(" in txt
    ctx.ob("C03.R6", f"{RD}::_read_meta merges the map it read into the form's metadata", RD, rm.lineno, ok,
           "" if ok else "_read_meta replaces instead of merging: nested ^a ^b prefixes or reader location keys drop metadata")


UTIL = "src/basilisp/lang/util.py"
# printer payload -> the constructor that inverts it (FT-repr: fromisoformat inverts isoformat, UUID(str(u)) == u)
DATA_READER_INVERSES = {"inst_from_str": ("datetime.datetime.fromisoformat", "o.isoformat()"), "uuid_from_str": ("uuid.UUID", "str(o)")}


@rule("C03.R8", floor=2)
def r8_data_readers_are_plain_inverses(ctx):
    """#inst and #uuid payloads are written with isoformat() / str(); the functions the reader's
    data-reader table calls must return exactly what the inverse constructor gives for the text,
    with nothing applied afterwards (no astimezone/replace/normalisation): any post-processing
    makes the re-read value print differently from the original."""
    tree = ctx.py(UTIL)
    for fname, (inverse, payload) in sorted(DATA_READER_INVERSES.items()):
        fn = P.find_def(tree, fname)
        if fn is None:
            raise AnalysisError(f"anchor vanished: util.{fname}")
        param = fn.args.args[0].arg
        rets = [r for r in ast.walk(fn) if isinstance(r, ast.Return) and r.value is not None]
        problems = []
        for r in rets:
            v = r.value
            if isinstance(v, ast.Name):
                assigns = [a for a in ast.walk(fn) if isinstance(a, (ast.Assign, ast.AnnAssign, ast.AugAssign, ast.NamedExpr)) and any(isinstance(t, ast.Name) and t.id == v.id for t in (a.targets if isinstance(a, ast.Assign) else [a.target]))]
                if len(assigns) != 1:
                    problems.append(f"`{v.id}` is assigned {len(assigns)} times before it is returned (line {r.lineno}): the value the inverse constructor produced is post-processed")
                    continue
                v = assigns[0].value
            if not (isinstance(v, ast.Call) and P.un(v.func) == inverse and v.args and any(isinstance(x, ast.Name) and x.id == param for x in ast.walk(v.args[0]))):
                problems.append(f"returns `{P.un(v)[:60]}`, not {inverse}(<the text>)")
        ok = bool(rets) and not problems
        ctx.ob("C03.R8", f"{UTIL}::{fname} returns {inverse}(text) unchanged (inverse of {payload})", UTIL, fn.lineno, ok, "; ".join(problems),
               witness='(pr-str (read-string "#inst \\"2020-01-01T00:00:00+05:00\\"")) must give the same text back')


def _reachable_under(fn, facts: dict, targets) -> bool:
    """Is any of the AST statements `targets` reachable in `fn` when the expressions in `facts`
    (source text -> constant) have those values?  Constant propagation over the CFG: names assigned
    from decidable expressions are tracked, atomic branch tests over them prune edges."""
    from ..pycfg import CFG
    TOP = object()

    def ev(e, env):
        t = P.un(e)
        if t in facts:
            return facts[t]
        if isinstance(e, ast.Constant):
            return e.value
        if isinstance(e, ast.Name):
            return env.get(e.id, TOP)
        if isinstance(e, ast.UnaryOp) and isinstance(e.op, ast.Not):
            v = ev(e.operand, env)
            return TOP if v is TOP else (not v)
        if isinstance(e, ast.IfExp):
            c = ev(e.test, env)
            if c is TOP:
                a, b = ev(e.body, env), ev(e.orelse, env)
                return a if (a is not TOP and a == b) else TOP
            return ev(e.body, env) if c else ev(e.orelse, env)
        if isinstance(e, ast.Compare) and len(e.ops) == 1 and isinstance(e.ops[0], (ast.Is, ast.IsNot)):
            a, b = ev(e.left, env), ev(e.comparators[0], env)
            if a is TOP or b is TOP:
                return TOP
            r = a is b
            return r if isinstance(e.ops[0], ast.Is) else not r
        if isinstance(e, ast.BoolOp):
            vals = [ev(x, env) for x in e.values]
            if isinstance(e.op, ast.And):
                if any(v is not TOP and not v for v in vals):
                    return False
                return TOP if any(v is TOP for v in vals) else vals[-1]
            if any(v is not TOP and v for v in vals):
                return True
            return TOP if any(v is TOP for v in vals) else vals[-1]
        return TOP
    g = CFG(fn)
    tnodes = {nd.id for nd in g.nodes if nd.ast is not None and any(nd.ast is t or P.contains(nd.ast, t) for t in targets) and nd.kind in ("stmt", "test")}
    seen = set()
    work = [(g.entry.id, ())]
    while work:
        nid, envt = work.pop()
        if (nid, envt) in seen:
            continue
        seen.add((nid, envt))
        if nid in tnodes:
            return True
        nd = g.nodes[nid]
        env = dict(envt)
        labels = None
        if nd.kind == "test":
            v = ev(nd.ast, env)
            if v is not TOP:
                labels = {bool(v)}
        elif nd.kind == "stmt" and isinstance(nd.ast, ast.Assign) and len(nd.ast.targets) == 1 and isinstance(nd.ast.targets[0], ast.Name):
            v = ev(nd.ast.value, env)
            if v is TOP:
                env.pop(nd.ast.targets[0].id, None)
            elif isinstance(v, (bool, int, str, type(None))):
                env[nd.ast.targets[0].id] = v
        elif nd.kind == "stmt" and nd.ast is not None:
            for t in P.store_targets(nd.ast) if isinstance(nd.ast, (ast.AugAssign, ast.AnnAssign, ast.Assign)) else []:
                if isinstance(t, ast.Name):
                    env.pop(t.id, None)
        for m, lab in nd.succ:
            if labels is not None and lab in (True, False) and lab not in labels:
                continue
            work.append((m.id, tuple(sorted(env.items(), key=lambda kv: kv[0]))))
    return False


@rule("C03.R9", floor=2)
def r9_no_truncation_under_print_dup(ctx):
    """*print-dup* claims a readable rendering: neither collection helper may append the `...`
    length trailer when print_dup is on.  Both helpers (sequences and maps) are checked by
    constant propagation of print_dup = True through their control flow."""
    for rel, fname in ((OBJ, "seq_lrepr"), (MAP, "map_lrepr")):
        fn = ctx.fn(rel, fname)
        trunc = [s for s in ast.walk(fn) if isinstance(s, ast.Expr) and isinstance(s.value, ast.Call) and "SURPASSED_PRINT_LENGTH" in P.un(s.value)]
        if not trunc:
            raise AnalysisError(f"anchor vanished: {fname} no longer appends SURPASSED_PRINT_LENGTH")
        bad = _reachable_under(fn, {'kwargs["print_dup"]': True, "kwargs['print_dup']": True}, trunc)
        ctx.ob("C03.R9", f"{rel}::{fname}::no `...` trailer when print_dup is on", rel, trunc[0].lineno, not bad,
               "" if not bad else f"{fname} can cut the collection at *print-length* and append `...` although *print-dup* is on: the printed text does not read back",
               witness="(binding [*print-dup* true *print-length* 1] (pr-str {:a 1 :b 2}))")


@rule("C03.R10", floor=3)
def r10_escaped_delimiter_never_terminates(ctx):
    """Every printer of a double-quoted literal (strings, regex patterns, byte strings) writes an
    embedded double quote as backslash + quote.  In each reader loop for such a literal, the
    character after a backslash must therefore never reach the test that ends the literal: on the
    branch taken for a backslash every path returns to the loop head (or raises) first -- in raw
    (regex) mode as well, where the escape is kept as written."""
    from ..pycfg import CFG
    for fname in ("_read_str", "_read_fstr", "_read_byte_str"):
        fn = ctx.fn(RD, fname)
        g = CFG(fn)
        heads = [nd for nd in g.nodes if nd.kind == "join" and isinstance(nd.ast, ast.While)]
        bs = [nd for nd in g.nodes if nd.kind == "test" and P.un(nd.ast) in ("char == '\\\\'", "'\\\\' == char")]
        term = [nd for nd in g.nodes if nd.kind == "test" and P.un(nd.ast) in ("char == '\"'", "'\"' == char")]
        if not heads or not bs or not term:
            raise AnalysisError(f"anchor vanished: {fname} loop / backslash test / terminator test")
        bad = False
        for b in bs:
            starts = [m for m, lab in b.succ if lab is True]
            r = g.reach(starts, avoid=heads, follow_exc=False)
            if any(t.id in r for t in term):
                bad = True
        ctx.ob("C03.R10", f"{RD}::{fname}::the character after a backslash is never tested as the closing quote", RD, fn.lineno, not bad,
               "" if not bad else f"in {fname} a path from the backslash branch falls through to the closing-quote test: an escaped double quote ends the literal (the printed form of a value containing a quote cannot be read back)",
               witness='(read-string (pr-str (re-pattern "\\"")))')


@rule("C03.R7", floor=1)
def r7_regex_escape_symmetry(ctx):
    """The regex reader reads its literal raw (backslashes kept as written); the regex printer must
    therefore not double backslashes."""
    rr = ctx.fn(RD, "_read_regex")
    raw = any(k.arg == "raw_string" and isinstance(k.value, ast.Constant) and k.value.value is True for c in P.calls(rr) for k in c.keywords)
    pp = ctx.fn(OBJ, "_lrepr_pattern")
    doubles = _uses_codec(pp)
    ok = not (raw and doubles)
    ctx.ob("C03.R7", f"{OBJ}::_lrepr_pattern::unicode_escape <-> {RD}::_read_regex raw", OBJ, pp.lineno, ok,
           "" if ok else "patterns are printed through the unicode_escape codec (which doubles every backslash) but read raw: #\"\\d\" prints as #\"\\\\d\" and reads back as a different pattern",
           witness="(= (str #\"\\d\") (str (read-string (pr-str #\"\\d\")))) is false")


@rule("C03.R12", floor=2)
def r12_namespace_prefix_is_decided_on_every_key(ctx):
    """With *print-namespace-maps* a map is printed as #:ns{...} with the keys stripped of that
    namespace; the reader puts it back on *every* un-namespaced key.  That is only the inverse if
    every key that is printed really had the namespace: the scan that decides on the prefix looks at
    all entries -- how many are printed depends on *print-length* and on *print-dup* (which ignores
    it), so a scan bounded by either alone is wrong for the other -- and answers 'no shared
    namespace' as soon as one key is not a named value of it."""
    fn = ctx.fn(MAP, "map_lrepr")
    chk = next((f for f in ast.walk(fn) if isinstance(f, P.FUNC) and f.name == "check_same_ns"), None)
    if chk is None:
        raise AnalysisError("anchor vanished: map_lrepr.check_same_ns")
    loops = [l for l in ast.walk(chk) if isinstance(l, ast.For)]
    if not loops:
        raise AnalysisError("check_same_ns no longer loops over the entries")
    it = loops[0].iter
    full = isinstance(it, ast.Call) and P.un(it.func) == "entries" and not it.args
    ctx.ob("C03.R12", f"{MAP}::map_lrepr.check_same_ns::the scan covers every entry", MAP, loops[0].lineno, full,
           "" if full else f"the keys are scanned through `{P.un(it)[:60]}`, not through all entries: a key beyond the scanned prefix that lacks the namespace is printed bare inside #:ns{{...}} and reads back with the namespace added",
           witness="(binding [*print-dup* true *print-namespace-maps* true *print-length* 1] (pr-str #py {:x/a 1 :x/b 2 :y 3})) => #py #:x{:a 1, :b 2, :y 3}, which reads back with :x/y")
    # leaving the loop early is fine only once two different namespaces have been seen
    brk = [b for b in ast.walk(loops[0]) if isinstance(b, (ast.Break, ast.Return))]
    ok = all(any(isinstance(a, ast.If) and "len(nses) > 1" in P.un(a.test) for a in P.ancestors(b) if P.contains(loops[0], a)) for b in brk)
    ctx.ob("C03.R12", f"{MAP}::map_lrepr.check_same_ns::the scan stops early only on a second namespace", MAP, loops[0].lineno, ok,
           "" if ok else "the scan is left before all keys are seen for a reason other than having found two different namespaces")


SELFTEST = [
    {"name": "twin: decimal literals built through the exact helper of lang/util.py", "file": RD, "expect": None,
     "old": "                    return decimal.Decimal(match.group(1))\n", "new": "                    return langutil.decimal_from_str(match.group(1))\n"},
    {"name": "decimal literals converted through the ambient decimal context", "file": RD, "expect": "C03.R4",
     "old": "                    return decimal.Decimal(match.group(1))\n", "new": "                    return decimal.getcontext().create_decimal(match.group(1))\n"},
    {"name": "namespace scan bounded by *print-length*", "file": MAP, "expect": "C03.R12",
     "old": "        for k, _ in entries():\n            if isinstance(k, INamed):\n                nses.add(k.ns)", "new": "        for k, _ in islice(entries(), kwargs[\"print_length\"] if isinstance(kwargs[\"print_length\"], int) else None):\n            if isinstance(k, INamed):\n                nses.add(k.ns)"},
    {"name": "imaginary literal without exponent (the repaired defect)", "file": RD, "expect": "C03.R11",
     "old": "complex_literal = re.compile(r\"-?(\\d+(?:\\.\\d*)?(?:[Ee][+\\-]?\\d+)?)J\")", "new": "complex_literal = re.compile(r\"-?(\\d+(?:\\.\\d*)?)J\")"},
    {"name": "special-number check through math.isinf for decimals too (the repaired defect)", "file": OBJ, "expect": "C03.R11",
     "old": "    if isinstance(o, Decimal):\n        is_nan, is_inf = o.is_nan(), o.is_infinite()\n    else:\n        is_nan, is_inf = math.isnan(o), math.isinf(o)\n", "new": "    is_nan, is_inf = math.isnan(o), math.isinf(o)\n"},
    {"name": "namespace-stripped key loses its metadata (the repaired defect)", "file": MAP, "expect": "C03.R6",
     "old": "                if isinstance(k, IWithMeta) and k.meta is not None:\n                    bare = bare.with_meta(k.meta)\n", "new": ""},
    {"name": "twin: special-number check asks a float through an early return", "file": OBJ, "expect": None,
     "old": "    if isinstance(o, Decimal):\n        is_nan, is_inf = o.is_nan(), o.is_infinite()\n    else:\n        is_nan, is_inf = math.isnan(o), math.isinf(o)\n",
     "new": "    if not isinstance(o, Decimal):\n        is_nan, is_inf = math.isnan(o), math.isinf(o)\n    else:\n        is_nan, is_inf = o.is_nan(), o.is_infinite()\n"},
    {"name": "raw literal ends at an escaped quote (the repaired defect)", "file": RD, "expect": "C03.R10",
     "old": "                s.append(\"\\\\\")\n                s.append(char)\n                continue\n", "new": "                s.append(\"\\\\\")\n"},
    {"name": "map printer truncates under print-dup", "file": MAP, "expect": "C03.R9",
     "old": "    if not print_dup and isinstance(print_length, int):\n        items = list(islice(entry_reprs(), print_length + 1))", "new": "    if isinstance(print_length, int):\n        items = list(islice(entry_reprs(), print_length + 1))"},
    {"name": "twin: seq printer folds the print-dup test into the limit", "file": OBJ, "expect": None,
     "old": "    print_length = kwargs[\"print_length\"]\n    if not print_dup and isinstance(print_length, int):\n        items = list(islice(iterable, print_length + 1))",
     "new": "    print_length = None if print_dup else kwargs[\"print_length\"]\n    if print_length is not None and isinstance(print_length, int):\n        items = list(islice(iterable, print_length + 1))"},
    {"name": "inst reader normalises to UTC", "file": UTIL, "expect": "C03.R8",
     "old": "    return datetime.datetime.fromisoformat(inst_str)\n", "new": "    return datetime.datetime.fromisoformat(inst_str).astimezone(datetime.timezone.utc)\n"},
    {"name": "twin: inst reader names its result", "file": UTIL, "expect": None,
     "old": "    return datetime.datetime.fromisoformat(inst_str)\n", "new": "    inst = datetime.datetime.fromisoformat(inst_str.strip())\n    return inst\n"},
    {"name": "vector printer forgets its metadata", "file": "src/basilisp/lang/vector.py", "expect": "C03.R6",
     "old": "        return _seq_lrepr(self._inner, \"[\", \"]\", meta=self._meta, **kwargs)\n", "new": "        return _seq_lrepr(self._inner, \"[\", \"]\", **kwargs)\n"},
    {"name": "seq printer writes metadata only when print_meta is off", "file": OBJ, "expect": "C03.R6",
     "old": "    if print_meta and meta:\n        return f\"^{lrepr(meta, **kwargs)} {start}{seq_lrepr}{end}\"\n", "new": "    if meta and not print_meta:\n        return f\"^{lrepr(meta, **kwargs)} {start}{seq_lrepr}{end}\"\n"},
    {"name": "reader replaces instead of merging metadata", "file": RD, "expect": "C03.R6",
     "old": "        new_meta = (\n            obj_with_meta.meta.cons(meta_map)\n            if obj_with_meta.meta is not None\n            else meta_map\n        )\n", "new": "        new_meta = meta_map\n"},
    {"name": "twin: seq printer tests meta first", "file": OBJ, "expect": None,
     "old": "    if print_meta and meta:\n        return f\"^{lrepr(meta, **kwargs)} {start}{seq_lrepr}{end}\"\n", "new": "    if meta and print_meta:\n        return f\"^{lrepr(meta, **kwargs)} {start}{seq_lrepr}{end}\"\n"},
    {"name": "reader loses an escape the printer emits", "file": RD, "expect": "C03.R1", "first": True,
     "old": "    \"v\": \"\\v\",\n", "new": ""},
    {"name": "printer emits an escape the reader lacks", "file": OBJ, "expect": "C03.R1",
     "old": "    \"\\v\": \"\\\\v\",\n", "new": "    \"\\v\": \"\\\\v\",\n    \"\\x1b\": \"\\\\e\",\n"},
    {"name": "printer back on the unicode_escape codec (the repaired defect)", "file": OBJ, "expect": "C03.R1",
     "old": "    return f'\"{_escape_str(o)}\"'\n", "new": "    escaped = o.encode(\"unicode_escape\").replace(b'\"', rb\"\\\"\").decode(\"utf-8\")\n    return f'\"{escaped}\"'\n"},
    {"name": "reader table maps \\t to newline", "file": RD, "expect": "C03.R1", "first": True,
     "old": "    \"t\": \"\\t\",\n", "new": "    \"t\": \"\\n\",\n"},
    {"name": "printer stops protecting the following hex digit", "file": OBJ, "expect": "C03.R2",
     "old": "        elif \" \" <= ch <= \"~\" and not (after_unicode_escape and ch in _HEX_DIGITS):", "new": "        elif \" \" <= ch <= \"~\":"},
    {"name": "bytes printed with repr again (the repaired defect)", "file": OBJ, "expect": "C03.R3",
     "old": "    v = \"\".join(\n        _BYTES_ESCAPES.get(b) or (chr(b) if 0x20 <= b < 0x7F else f\"\\\\x{b:02x}\")\n        for b in o\n    )\n    return f'#b \"{v}\"'", "new": "    v = repr(o)[2:-1]\n    return f'#b \"{v}\"'"},
    {"name": "scientific notation by arithmetic (the repaired defect)", "file": RD, "expect": "C03.R4",
     "old": "            else:\n                return float(s)\n", "new": "            else:\n                return float(match.group(1)) * 10 ** int(match.group(2))\n"},
    {"name": "float printed with str formatting", "file": OBJ, "expect": "C03.R4",
     "old": "        return r\n    return repr(o)\n\n\n@lrepr.register(datetime.datetime)", "new": "        return r\n    return f\"{o:.12g}\"\n\n\n@lrepr.register(datetime.datetime)"},
    {"name": "queue printed under an unregistered tag", "file": QUEUE, "expect": "C03.R5",
     "old": "\"#queue (\"", "new": "\"#q (\""},
    {"name": "numeric constant renamed on the printer side", "file": OBJ, "expect": "C03.R5",
     "old": "return \"NaN\" if human_readable else \"##NaN\"", "new": "return \"NaN\" if human_readable else \"##nan\""},
    # twins
    {"name": "twin: reader gains an extra escape", "file": RD, "expect": None, "first": True,
     "old": "    \"v\": \"\\v\",\n", "new": "    \"v\": \"\\v\",\n    \"0\": \"\\0\",\n"},
    {"name": "twin: bounded unicode reader", "file": RD, "expect": None,
     "old": "    while True:\n        char = reader.peek()\n        if not hex_chars.match(char):\n            reader.pushback()\n            break\n        unicode_escape_seq.append(char)\n        reader.next_char()\n",
     "new": "    for _ in range(8):\n        char = reader.peek()\n        if not hex_chars.match(char):\n            break\n        unicode_escape_seq.append(char)\n        reader.next_char()\n    reader.pushback()\n"},
]
