"""C17 -- compare is a consistent total order; sort returns the ordered permutation.

Keyword / Symbol / PersistentVector ordering and runtime.compare touch their operands only
through comparisons, so they are *interpreted* (sa/minipy.py, our own evaluator over the parsed
AST -- nothing of the repository is imported) over a universe that contains a representative
of every ordering class: 4 namespaces (None, a, b, c) x 3 names for keywords/symbols, all
vectors of length <= 3 over {0,1,2}.  All pairs and all triples are enumerated.
"""
from __future__ import annotations

import ast
import itertools

from ..core import AnalysisError, rule
from .. import lispread as L
from .. import pyfacts as P
from ..minipy import ClassModel, Interp, Obj, PyRaise, Unsupported

KW = "src/basilisp/lang/keyword.py"
SYM = "src/basilisp/lang/symbol.py"
VEC = "src/basilisp/lang/vector.py"
RT = "src/basilisp/lang/runtime.py"
CORE = "src/basilisp/core.lpy"

EXPLANATION = (
    "Exhaustive abstract evaluation: __lt__/__eq__ of Keyword, Symbol and PersistentVector and runtime.compare's arms are "
    "evaluated by our own AST interpreter over a universe with one representative per ordering class (the functions observe "
    "their fields only through <, ==, is None, so finitely many classes exist); every pair and triple is checked for "
    "antisymmetry, transitivity, zero-iff-equal and agreement with the documented (namespace, name) / (length, elementwise) order. "
    "sort/sort-by and the comparator adapter are checked structurally plus by evaluating the adapter on a boolean and a 3-way comparator."
)
DECIDES = "total-order laws of compare on keywords, symbols, vectors incl. nil and NaN elements (exhaustive over ordering classes, through the registered singledispatch arms), nil arms, sort = stable sorted() by the comparator"
DECLINED = "numbers and strings (Python's own ordering), behaviour of user comparators"
TRUSTED = ["functools.total_ordering derivations", "sorted() is a stable permutation", "str/int comparison is a total order", "PersistentVector.__eq__ is elementwise equality (checked under C05)"]
ASSUMPTIONS = ["the interpreted fragment of Python (if/return/compare/bool ops/isinstance/for-zip) is evaluated as CPython does"]
EXHAUSTIVE = True
TECHNIQUE = "abstract interpretation of comparison-only methods over a finite ordering-class universe (own AST interpreter), exhaustive pairs/triples; structural rules for sort"

NS = [None, "a", "b", "c"]
NAMES = ["a", "b", "c"]


def _class(ctx, rel, name) -> ClassModel:
    node = P.find_def(ctx.py(rel), name)
    if node is None:
        raise AnalysisError(f"anchor vanished: {rel}::{name}")
    return ClassModel(node)


def _compare_fn(ctx):
    reg = P.singledispatch_registry(ctx.py(RT), "compare")
    if "default" not in reg:
        raise AnalysisError("anchor vanished: runtime.compare (singledispatch base)")
    ctx.analysed["tables"].add("runtime.compare singledispatch registry: " + ", ".join(sorted(reg)))
    return reg


def _cmp_matrix(interp, cmpfn, universe):
    n = len(universe)
    m = [[None] * n for _ in range(n)]
    for i, x in enumerate(universe):
        for j, y in enumerate(universe):
            try:
                m[i][j] = cmpfn(x, y) if callable(cmpfn) else interp.call_function(cmpfn, [x, y], {})
            except PyRaise as e:
                m[i][j] = f"raises {e.name}"
            except Unsupported as e:
                raise AnalysisError(f"compare falls outside the interpretable fragment: {e}")
    return m


def _sign(v):
    return (v > 0) - (v < 0)


def _check_total_order(ctx, rid, rel, line, label, universe, m, key, show):
    """key(x) -> python-comparable key giving the specified order (or None to skip spec agreement)."""
    n = len(universe)
    bad = {"type": [], "antisym": [], "zero": [], "trans": [], "spec": []}
    for i in range(n):
        for j in range(n):
            v = m[i][j]
            if not isinstance(v, int) or isinstance(v, bool) or v not in (-1, 0, 1):
                bad["type"].append((i, j))
                continue
            w = m[j][i]
            if isinstance(w, int) and v != -w:
                bad["antisym"].append((i, j))
            if (v == 0) != (key(universe[i]) == key(universe[j])):
                bad["zero"].append((i, j))
            ki, kj = key(universe[i]), key(universe[j])
            exp = (ki > kj) - (ki < kj)
            # the statement fixes namespace-then-name; where un-namespaced names sort relative to
            # namespaced ones is a convention, so mixed pairs are held only to the order laws
            if v != exp and (not isinstance(ki, tuple) or len(ki) != 3 or ki[0] == kj[0]):
                bad["spec"].append((i, j))
    ints = all(isinstance(m[i][j], int) for i in range(n) for j in range(n))
    if ints:
        for i, j, k in itertools.product(range(n), repeat=3):
            if m[i][j] < 0 and m[j][k] < 0 and not m[i][k] < 0:
                bad["trans"].append((i, j, k))
                if len(bad["trans"]) > 3:
                    break
    descr = {
        "type": "compare returns something other than -1/0/1 (or raises)",
        "antisym": "compare(x,y) != -compare(y,x)",
        "zero": "compare is zero for unequal values or non-zero for equal ones",
        "trans": "not transitive",
        "spec": "disagrees with the documented order",
    }
    for kind, lst in bad.items():
        ok = not lst
        detail = ""
        if lst:
            idx = lst[0]
            ex = ", ".join(show(universe[t]) for t in idx)
            vals = m[idx[0]][idx[1]]
            detail = f"{descr[kind]}: e.g. ({ex}) -> compare={vals}" + (f", reverse={m[idx[1]][idx[0]]}" if len(idx) == 2 else "") + f"; {len(lst)} case(s)"
        ctx.ob(rid, f"{rel}::{label}::{kind}", rel, line, ok, detail)
    return n * n, n ** 3


def _named_universe(cls: ClassModel):
    return [Obj(cls, _ns=ns, _name=nm, _meta=None, _hash=0) for ns in NS for nm in NAMES]


def _show_named(o):
    return (o.f["_ns"] + "/" if o.f["_ns"] is not None else "") + o.f["_name"]


def _named_key(o):
    # documented: un-namespaced first (the tree's convention), then namespace, then name
    return (0, "", o.f["_name"]) if o.f["_ns"] is None else (1, o.f["_ns"], o.f["_name"])


@rule("C17.R1", floor=10)
def r1_keyword_symbol_order(ctx):
    """compare restricted to keywords and to symbols is a strict total order agreeing with
    (namespace, name): all 144 pairs and 1728 triples of a universe containing every
    namespace/name ordering combination."""
    reg = _compare_fn(ctx)
    for rel, cname in ((KW, "Keyword"), (SYM, "Symbol")):
        cls = _class(ctx, rel, cname)
        lt = cls.find("__lt__")
        if lt is None:
            raise AnalysisError(f"anchor vanished: {cname}.__lt__")
        ctx.analysed["functions"].add(f"{rel}::{cname}.__lt__")
        ctx.analysed["functions"].add(f"{rel}::{cname}.__eq__")
        uni = _named_universe(cls)
        interp = Interp(fuel=2_000_000)
        m = _cmp_matrix(interp, reg["default"], uni)
        pairs, triples = _check_total_order(ctx, "C17.R1", rel, lt.lineno, f"{cname}.__lt__/__eq__ via runtime.compare", uni, m, _named_key, _show_named)
        ctx.note(f"C17.R1 {cname}: {pairs} pairs, {triples} triples enumerated")


def _vec_universe(cls: ClassModel):
    out = []
    for n in range(0, 4):
        for t in itertools.product((0, 1, 2), repeat=n):
            out.append(Obj(cls, _inner=t, _meta=None))
    return out


@rule("C17.R2", floor=5)
def r2_vector_order(ctx):
    """compare on vectors orders by length, then by the first unequal element: all pairs and
    triples of the 40 vectors of length <= 3 over {0,1,2}."""
    reg = _compare_fn(ctx)
    cls = _class(ctx, VEC, "PersistentVector")
    lt = cls.find("__lt__")
    if lt is None:
        raise AnalysisError("anchor vanished: PersistentVector.__lt__")
    # modelled fact: vector equality is elementwise (C05 decides that clause)
    cls.overrides["__eq__"] = lambda _i, a, b: isinstance(b, Obj) and a.f["_inner"] == b.f["_inner"]
    uni = _vec_universe(cls)
    interp = Interp(fuel=20_000_000)

    # runtime.compare as functools.singledispatch runs it: the arm registered for the class of x
    def dispatch(x, y):
        if x is None:
            arm = reg.get("type(None)")
        elif isinstance(x, float):
            arm = reg.get("float")
        elif isinstance(x, Obj):
            arm = next((reg[k] for k in reg if k != "default" and x.cls.isa(k.split(".")[-1])), None)
        else:
            arm = None
        return interp.call_function(arm or reg["default"], [x, y], {})

    interp.globals["compare"] = dispatch
    interp.globals["math.isnan"] = lambda v: v != v
    m = _cmp_matrix(interp, dispatch, uni)
    _check_total_order(ctx, "C17.R2", VEC, lt.lineno, "PersistentVector.__lt__ via runtime.compare", uni, m, lambda o: (len(o.f["_inner"]), o.f["_inner"]), lambda o: str(list(o.f["_inner"])))
    # Python's own < / > on vectors (a user comparator, sorted() without a key) still go through
    # PersistentVector.__lt__: the same laws for the three-way value derived from it
    if any(k != "default" and cls.isa(k.split(".")[-1]) for k in reg):
        m = _cmp_matrix(interp, reg["default"], uni)
        _check_total_order(ctx, "C17.R2", VEC, lt.lineno, "PersistentVector.__lt__ via (x > y) - (x < y)", uni, m, lambda o: (len(o.f["_inner"]), o.f["_inner"]), lambda o: str(list(o.f["_inner"])))
    # vectors of comparables *with nil below everything*: the same laws with nil among the elements
    nil_uni = [Obj(cls, _inner=t, _meta=None) for n in range(0, 3) for t in itertools.product((None, 0, 1), repeat=n)]
    key = lambda o: (len(o.f["_inner"]), tuple((0, 0) if e is None else (1, e) for e in o.f["_inner"]))
    show = lambda o: "[" + " ".join("nil" if e is None else str(e) for e in o.f["_inner"]) + "]"
    m = _cmp_matrix(interp, dispatch, nil_uni)
    _check_total_order(ctx, "C17.R2", VEC, lt.lineno, "vectors with nil elements via runtime.compare", nil_uni, m, key, show)
    # a NaN element: compare stays antisymmetric (what a NaN ties with is the scalar rule's business)
    nan = float("nan")
    nan_uni = [Obj(cls, _inner=t, _meta=None) for t in ((nan,), (1,), (0, nan), (0, 1), (nan, 0), (1, 2))]
    m = _cmp_matrix(interp, dispatch, nan_uni)
    bad = [(i, j) for i in range(len(nan_uni)) for j in range(len(nan_uni))
           if not (isinstance(m[i][j], int) and isinstance(m[j][i], int) and m[i][j] == -m[j][i])]
    shown = lambda o: "[" + " ".join("##NaN" if e != e else str(e) for e in o.f["_inner"]) + "]"
    ctx.ob("C17.R2", f"{VEC}::vectors with a NaN element via runtime.compare::antisym", VEC, lt.lineno, not bad,
           "" if not bad else f"compare(x,y) != -compare(y,x): e.g. ({shown(nan_uni[bad[0][0]])}, {shown(nan_uni[bad[0][1]])}) -> compare={m[bad[0][0]][bad[0][1]]}, reverse={m[bad[0][1]][bad[0][0]]}; {len(bad)} case(s)")


@rule("C17.R3", floor=6)
def r3_sort_is_stable_sorted_by_comparator(ctx):
    """sort / sort_by return sequence(sorted(coll, key=K)) with K.__lt__ = comparator(a, b) < 0 on
    (keyfn of) the two objects in order; _fn_to_comparator maps a boolean comparator to -1 / 1 / 0
    and passes 3-way results through; core sort/sort-by forward their arguments."""
    tree = ctx.py(RT)
    for fname in ("sort", "sort_by"):
        fn = P.find_def(tree, fname)
        if fn is None:
            raise AnalysisError(f"anchor vanished: runtime.{fname}")
        rets = [r for r in P.walk_local(fn) if isinstance(r, ast.Return) and r.value is not None]
        sorted_rets = [r for r in rets if "sorted(" in P.un(r.value)]
        ok = bool(sorted_rets)
        why = "" if ok else "no `return ...sorted(...)`"
        for r in sorted_rets:
            calls = [c for c in P.calls(r.value) if P.un(c.func) == "sorted"]
            c = calls[0]
            kws = {k.arg: P.un(k.value) for k in c.keywords}
            if not (len(c.args) == 1 and P.un(c.args[0]) == "coll" and kws == {"key": "key"}):
                ok, why = False, f"`{P.un(c)}` is not sorted(coll, key=key): elements could be dropped, reversed or compared otherwise"
            outer = P.un(r.value)
            if not (outer.startswith("lseq.sequence(sorted(") or outer.startswith("sequence(sorted(")):
                ok, why = False, f"`{outer}` post-processes the sorted list"
        ctx.ob("C17.R3", f"{RT}::{fname}::returns-sorted", RT, fn.lineno, ok, why)
        # the key class
        kcls = next((n for n in ast.walk(fn) if isinstance(n, ast.ClassDef) and n.name == "key"), None)
        if kcls is None:
            raise AnalysisError(f"anchor vanished: runtime.{fname}.key")
        lt = P.methods(kcls).get("__lt__")
        want = "comparator(self.obj, other.obj) < 0" if fname == "sort" else "comparator(keyfn(self.obj), keyfn(other.obj)) < 0"
        got = [P.un(r.value) for r in ast.walk(lt) if isinstance(r, ast.Return) and r.value is not None] if lt else []
        ok = got == [want]
        ctx.ob("C17.R3", f"{RT}::{fname}.key.__lt__::{' ; '.join(got)}", RT, lt.lineno if lt else fn.lineno, ok, "" if ok else f"key.__lt__ is not `{want}`")
        # comparator comes from _fn_to_comparator of the caller's function
        assigns = [P.un(a.value) for a in ast.walk(fn) if isinstance(a, ast.Assign) and any(P.un(t) == "comparator" for t in a.targets)]
        param = "f" if fname == "sort" else "cmp"
        ok = assigns == [f"_fn_to_comparator({param})"]
        ctx.ob("C17.R3", f"{RT}::{fname}::comparator={' ; '.join(assigns)}", RT, fn.lineno, ok, "" if ok else "comparator is not _fn_to_comparator(<the caller's comparator>)")
    # evaluate the adapter
    f2c = P.find_def(tree, "_fn_to_comparator")
    if f2c is None:
        raise AnalysisError("anchor vanished: runtime._fn_to_comparator")
    problems = []
    try:
        interp = Interp(globals_={"compare": "COMPARE-SENTINEL"})
        lt_fn = lambda x, y: x < y  # noqa: E731  (boolean comparator model)
        three = lambda x, y: (x > y) - (x < y)  # noqa: E731
        three10 = lambda x, y: 10 * ((x > y) - (x < y))  # noqa: E731
        frac = lambda x, y: (x - y) / 4  # noqa: E731  (a difference comparator over values less than 1 apart)
        # (- a b) over ratios and decimals answers with a Fraction / a Decimal: numbers, not host ints or floats
        import decimal
        import fractions
        ratio = lambda x, y: fractions.Fraction(x - y, 3)  # noqa: E731
        dec = lambda x, y: decimal.Decimal(x - y) / decimal.Decimal(4)  # noqa: E731
        for f, label, expect in ((lt_fn, "boolean <", lambda a, b: (a > b) - (a < b)), (three, "3-way", lambda a, b: (a > b) - (a < b)), (three10, "3-way scaled", lambda a, b: 10 * ((a > b) - (a < b))),
                                 (frac, "3-way fractional (difference of close values)", lambda a, b: (a > b) - (a < b)),
                                 (ratio, "3-way answering with a ratio", lambda a, b: (a > b) - (a < b)),
                                 (dec, "3-way answering with a decimal", lambda a, b: (a > b) - (a < b))):
            c = interp.call_function(f2c, [f], {})
            for a, b in itertools.product((1, 2, 3), repeat=2):
                got = c(a, b)
                if _sign(got) != _sign(expect(a, b)):
                    problems.append(f"{label}: cmp({a},{b}) = {got}, expected sign {_sign(expect(a, b))}")
        same = interp.call_function(f2c, ["COMPARE-SENTINEL"], {})
        if same != "COMPARE-SENTINEL":
            problems.append("compare itself is not passed through")
    except Unsupported as e:
        raise AnalysisError(f"_fn_to_comparator outside the interpretable fragment: {e}")
    except PyRaise as e:
        problems.append(f"adapter raises {e.name}")
    ctx.ob("C17.R3", f"{RT}::_fn_to_comparator::boolean->-1/1/0, 3-way passthrough", RT, f2c.lineno, not problems, "; ".join(problems[:3]))
    # Lisp side forwards
    defs = L.top_defs(ctx.lisp(CORE))
    want = {
        ("sort", 1): "(basilisp.lang.runtime/sort coll)", ("sort", 2): "(basilisp.lang.runtime/sort coll cmp)",
        ("sort-by", 2): "(basilisp.lang.runtime/sort-by keyfn coll)", ("sort-by", 3): "(basilisp.lang.runtime/sort-by keyfn coll cmp)",
        ("compare", 2): "(basilisp.lang.runtime/compare x y)",
    }
    for name in ("sort", "sort-by", "compare"):
        d = defs.get(name)
        if d is None:
            raise AnalysisError(f"anchor vanished: core.lpy::{name}")
        for params, body in L.fn_arities(d):
            k = (name, len(params.items))
            if k not in want:
                continue
            # positional renaming: compare the call with parameters substituted by position
            pn = [p.val for p in params.items]
            canon = {"sort": {1: ["coll"], 2: ["cmp", "coll"]}, "sort-by": {2: ["keyfn", "coll"], 3: ["keyfn", "cmp", "coll"]}, "compare": {2: ["x", "y"]}}[name][len(pn)]
            ren = dict(zip(pn, canon))
            f = body[-1]
            txt = "(" + " ".join(ren.get(x.text(), x.text()) for x in f.items) + ")" if isinstance(f, L.List) else f.text()
            ok = txt == want[k]
            ctx.ob("C17.R3", f"{CORE}::{name}/{len(pn)}::{want[k]}", CORE, f.line, ok, "" if ok else f"`{f.text()}` does not forward its arguments as {want[k]}")


@rule("C17.R4", floor=3)
def r4_nil_below_everything(ctx):
    """Every arm of runtime.compare that can receive a non-nil x answers 1 for y = nil before any
    comparison, and the nil arm answers 0 / -1."""
    reg = _compare_fn(ctx)
    interp = Interp(fuel=100000, globals_={"math.isnan": lambda v: v != v, "compare": None})
    probes = {"default": "a-string", "float": 1.5, "decimal.Decimal": "DECIMAL"}
    for key, fn in sorted(reg.items()):
        inst = f"{RT}::compare[{key}]::y-is-nil"
        if key == "type(None)":
            try:
                r0 = interp.call_function(fn, [None, None], {})
                r1 = interp.call_function(fn, [None, "x"], {})
            except (Unsupported, PyRaise) as e:
                raise AnalysisError(f"nil arm of compare not interpretable: {e}")
            ok = (r0, r1) == (0, -1)
            ctx.ob("C17.R4", f"{RT}::compare[nil]::(nil,nil)=0,(nil,x)=-1", RT, fn.lineno, ok, "" if ok else f"nil arm answers {(r0, r1)}")
            continue
        if all(isinstance(s, ast.Raise) or (isinstance(s, ast.Expr) and isinstance(s.value, ast.Constant)) for s in fn.body):
            ctx.ob("C17.R4", inst, RT, fn.lineno, True, "arm always raises (incomparable family)")
            continue
        x = probes.get(key)
        if x is None:
            x = "opaque"
        if x == "DECIMAL":
            # a Decimal stand-in: an object whose comparisons with None raise TypeError, as decimal.Decimal does
            class _D:
                def __gt__(self, o):
                    raise TypeError
                __lt__ = __gt__
            x = _D()
            interp.type_names["float"] = float
        try:
            r = interp.call_function(fn, [x, None], {})
            ok, why = r == 1, "" if r == 1 else f"answers {r!r} for (x, nil)"
        except PyRaise as e:
            ok, why = False, f"(compare x nil) raises {e.name} in this arm: nil is not below every value"
        except TypeError:
            ok, why = False, "(compare x nil) compares x with None (TypeError) in this arm: nil is not below every value"
        except Unsupported as e:
            raise AnalysisError(f"compare arm {key} not interpretable: {e}")
        ctx.ob("C17.R4", inst, RT, fn.lineno, ok, why, witness="(compare 1.5M nil) raises TypeError")


@rule("C17.R5", floor=4)
def r5_no_lossy_conversion_no_rewrapped_keys(ctx):
    """compare never converts an operand before comparing it (float(x) / int(x) of a Decimal or
    ratio rounds, so compare could answer 0 for unequal values and lose antisymmetry): mixed
    Decimal/float pairs are answered by negating the float arm with the operands swapped. sort /
    sort_by use the caller's key function and comparator as given (no memoising wrapper keyed by
    element equality: equal elements may carry different keys)."""
    reg = _compare_fn(ctx)
    for key, fn in sorted(reg.items()):
        params = {a.arg for a in fn.args.args}
        conv = [c for c in P.calls(fn) if P.un(c.func) in ("float", "int", "round", "decimal.Decimal", "Fraction", "str") and c.args and P.names_read(c.args[0]) & params]
        ctx.ob("C17.R5", f"{RT}::compare[{key}]::operands compared unconverted", RT, fn.lineno, not conv,
               "" if not conv else f"`{P.un(conv[0])}` converts an operand before comparing: (compare 0.1M 0.1) can be 0 although the values differ, and compare(x, y) is no longer -compare(y, x)")
    dec = reg.get("decimal.Decimal")
    if dec is not None:
        ok = any(P.un(r.value) == "-compare(y, x)" for r in ast.walk(dec) if isinstance(r, ast.Return) and r.value is not None)
        ctx.ob("C17.R5", f"{RT}::compare[decimal.Decimal]::float operand answered by -compare(y, x)", RT, dec.lineno, ok, "" if ok else "the Decimal/float case is not the negation of the float/Decimal case: antisymmetry is not by construction")
    tree = ctx.py(RT)
    for fname in ("sort", "sort_by"):
        fn = P.find_def(tree, fname)
        params = {a.arg for a in fn.args.args}
        re_as = [a for a in P.walk_local(fn) if isinstance(a, (ast.Assign, ast.AugAssign)) for t in P.store_targets(a) if isinstance(t, ast.Name) and t.id in params and t.id != "coll"]
        ctx.ob("C17.R5", f"{RT}::{fname}::key function and comparator used as given", RT, fn.lineno, not re_as,
               "" if not re_as else f"`{P.un(re_as[0])}` replaces a caller-supplied function: a cache keyed by element equality gives equal elements with different keys the same key")


_LT_GOOD ="        return self._ns < other._ns or self._name < other._name"

SELFTEST = [
    {"name": "vectors compared by raw < on the elements (the repaired defect)", "file": RT, "expect": "C17.R2",
     "old": "@compare.register(IPersistentVector)\n", "new": ""},
    {"name": "vector arm: element ties end the walk", "file": RT, "expect": "C17.R2",
     "old": "        c = compare(a, b)\n        if c != 0:\n            return c\n    return 0\n", "new": "        c = compare(a, b)\n        return c\n    return 0\n"},
    {"name": "vector arm: nil on the right not answered", "file": RT, "expect": "C17.R4",
     "old": "def _compare_vector(x: IPersistentVector, y) -> int:\n    if y is None:\n        return 1\n", "new": "def _compare_vector(x: IPersistentVector, y) -> int:\n"},
    {"name": "keyword: or-chain (the repaired defect)", "file": KW, "expect": "C17.R1",
     "old": "        return (self._ns, self._name) < (other._ns, other._name)", "new": _LT_GOOD},
    {"name": "symbol: name-major order", "file": SYM, "expect": "C17.R1",
     "old": "        return (self._ns, self._name) < (other._ns, other._name)", "new": "        return (self._name, self._ns) < (other._name, other._ns)"},
    {"name": "keyword: <= instead of <", "file": KW, "expect": "C17.R1",
     "old": "        return (self._ns, self._name) < (other._ns, other._name)", "new": "        return (self._ns, self._name) <= (other._ns, other._name)"},
    {"name": "keyword: nil-ns arm swapped on one side only", "file": KW, "expect": "C17.R1",
     "old": "        if self._ns is None:\n            return True\n", "new": "        if self._ns is None:\n            return False\n"},
    {"name": "keyword: tuple compare without None guard", "file": KW, "expect": "C17.R1",
     "old": "        if self._ns is None and other._ns is None:\n            return self._name < other._name\n        if self._ns is None:\n            return True\n        if other._ns is None:\n            return False\n", "new": ""},
    {"name": "vector: lexicographic before length", "file": VEC, "expect": "C17.R2",
     "old": "        if len(self) != len(other):\n            return len(self) < len(other)\n\n        for x, y in zip(self, other):\n            if x < y:\n                return True\n            elif y < x:\n                return False\n        return False\n",
     "new": "        for x, y in zip(self, other):\n            if x < y:\n                return True\n            elif y < x:\n                return False\n        return len(self) < len(other)\n"},
    {"name": "vector: missing reverse test", "file": VEC, "expect": "C17.R2",
     "old": "            if x < y:\n                return True\n            elif y < x:\n                return False\n", "new": "            if x < y:\n                return True\n"},
    {"name": "vector: equal vectors are less", "file": VEC, "expect": "C17.R2",
     "old": "            elif y < x:\n                return False\n        return False\n", "new": "            elif y < x:\n                return False\n        return True\n"},
    {"name": "sort: reversed comparator args", "file": RT, "expect": "C17.R3",
     "old": "                return comparator(self.obj, other.obj) < 0", "new": "                return comparator(other.obj, self.obj) > 0 or comparator(self.obj, other.obj) < 0"},
    {"name": "sort: dedupes", "file": RT, "expect": "C17.R3", "first": True,
     "old": "        return lseq.sequence(sorted(coll, key=key))", "new": "        return lseq.sequence(sorted(set(coll), key=key))"},
    {"name": "adapter: boolean false means greater", "file": RT, "expect": "C17.R3",
     "old": "        elif f(y, x):\n            return 1\n        else:\n            return 0\n", "new": "        else:\n            return 1\n"},
    {"name": "core sort swaps args", "file": CORE, "expect": "C17.R3",
     "old": "   (basilisp.lang.runtime/sort coll cmp)))", "new": "   (basilisp.lang.runtime/sort cmp coll)))"},
    {"name": "compare: default arm loses the nil test", "file": RT, "expect": "C17.R4",
     "old": "    if y is None:\n        assert x is not None, \"x cannot be nil\"\n        return 1\n    return (x > y) - (x < y)\n", "new": "    return (x > y) - (x < y)\n"},
    {"name": "compare: nil arm answers 1", "file": RT, "expect": "C17.R4",
     "old": "    return 0 if y is None else -1", "new": "    return 0 if y is None else 1"},
    # twins
    {"name": "twin: explicit three-branch lexicographic", "file": KW, "expect": None,
     "old": "        return (self._ns, self._name) < (other._ns, other._name)",
     "new": "        if self._ns != other._ns:\n            return self._ns < other._ns\n        return self._name < other._name"},
    {"name": "twin: un-namespaced names sort last (consistent convention change)", "file": KW, "expect": None,
     "old": "        if self._ns is None:\n            return True\n        if other._ns is None:\n            return False\n",
     "new": "        if self._ns is None:\n            return False\n        if other._ns is None:\n            return True\n"},
    {"name": "twin: or-and form", "file": SYM, "expect": None,
     "old": "        return (self._ns, self._name) < (other._ns, other._name)",
     "new": "        return self._ns < other._ns or (self._ns == other._ns and self._name < other._name)"},
    {"name": "twin: vector early-exit reorder", "file": VEC, "expect": None,
     "old": "            if x < y:\n                return True\n            elif y < x:\n                return False\n", "new": "            if y < x:\n                return False\n            if x < y:\n                return True\n"},
]
