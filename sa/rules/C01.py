"""C01 -- compiled programs compute the values their source denotes."""
from __future__ import annotations

import ast

from ..core import AnalysisError, rule
from .. import pyfacts as P

GEN = "src/basilisp/lang/compiler/generator.py"
ANA = "src/basilisp/lang/compiler/analyzer.py"

EXPLANATION = (
    "Necessary structural conditions of the code generator (not semantic equivalence of compilation): the truthiness test of "
    "`if` is `None is t or False is t` over one name with the branches swapped accordingly; every let/loop/letfn/catch local is "
    "registered under a fresh genname(munge(name)) that is assigned in the same step, inside a new symbol table; try assigns its "
    "result temp in the body and in every handler, loop assigns its result and breaks, recur rebinds all loop locals in one "
    "tuple assignment and continues; loop locals rebound by re-assignment in one Python frame are captured late by closures "
    "(recorded finding); recur must be in tail position (analyzer check present)."
)
DECIDES = "truthiness template, fresh binder names, result-temp discipline of try/loop, simultaneous recur rebinding, closure capture of loop locals, tail-position check, context-dependent work inside its context, hoisted global declarations, needed children analyzed as expressions, catch local outliving its handler, a value for every top-level form"
DECLINED = "result values of compositions, exception classes, position independence (run-both-and-compare, another family)"
TRUSTED = ["genname() returns a name not used before in the process", "Python closures capture variables, not values"]
ASSUMPTIONS = []
TECHNIQUE = "template extraction from the generator's constructor expressions + dataflow from genname() to symbol-table registration"


def _fn(ctx, name):
    return ctx.fn(GEN, name)


@rule("C01.R1", floor=4)
def r1_truthiness_template(ctx):
    """_if_to_py_ast builds `if None is t or False is t:` with body = the else branch and orelse =
    the then branch (only nil and false are falsey; 0, "" and empty collections are truthy)."""
    f = _fn(ctx, "_if_to_py_ast")
    ifc = [c for c in P.calls(f) if P.un(c.func) == "ast.If"]
    if len(ifc) != 1:
        raise AnalysisError("_if_to_py_ast does not build exactly one ast.If")
    # a data-flow view: temporaries that merely name a piece of the If are replaced by their definitions
    kws = {k.arg: P.expand_locals(f, k.value, keep=("then_ast", "else_ast")) for k in ifc[0].keywords}
    t = kws.get("test")
    ok = isinstance(t, ast.Call) and P.un(t.func) == "ast.BoolOp" and "op=ast.Or()" in P.un(t)
    ctx.ob("C01.R1", f"{GEN}::_if_to_py_ast::test is a disjunction", GEN, f.lineno, ok, "" if ok else "the falsiness test is no longer `... or ...`")
    comps = [c for c in ast.walk(t) if isinstance(c, ast.Call) and P.un(c.func) == "ast.Compare"] if t is not None else []
    lefts = sorted(P.un(next(k.value for k in c.keywords if k.arg == "left")) for c in comps)
    ops = {P.un(next(k.value for k in c.keywords if k.arg == "ops")) for c in comps}
    ok = lefts == ["ast.Constant(False)", "ast.Constant(None)"] and ops == {"[ast.Is()]"}
    ctx.ob("C01.R1", f"{GEN}::_if_to_py_ast::compares with None and False by identity", GEN, f.lineno, ok,
           "" if ok else f"falsiness is tested as {lefts} with {sorted(ops)}: with == instead of `is`, 0 and 0.0 become falsey; with a missing disjunct nil or false becomes truthy")
    ok = "else_ast" in P.un(kws.get("body")) and "then_ast" not in P.un(kws.get("body")) and "then_ast" in P.un(kws.get("orelse")) and "else_ast" not in P.un(kws.get("orelse"))
    ctx.ob("C01.R1", f"{GEN}::_if_to_py_ast::falsey -> else branch, otherwise then branch", GEN, f.lineno, ok, "" if ok else "the branches are not swapped to match the inverted test")
    ib = _fn(ctx, "__if_body_to_py_ast")
    ok = "targets=[ast.Name(id=result_name, ctx=ast.Store())]" in P.un(ib) and "value=py_ast.node" in P.un(ib)
    ctx.ob("C01.R1", f"{GEN}::__if_body_to_py_ast::branch value assigned to the shared result temp", GEN, ib.lineno, ok, "" if ok else "a branch no longer assigns its value to the if's result temp")


LOCAL_KINDS = ("LocalType.LET", "LocalType.LOOP", "LocalType.CATCH", "LocalType.LETFN")


@rule("C01.R2", floor=4)
def r2_fresh_binder_names(ctx):
    """Every ctx.symbol_table.new_symbol(sym, NAME, LocalType.LET|LOOP|CATCH) registers a NAME that
    comes from genname(munge(...)) in the same function, the registration happens inside `with
    ctx.new_symbol_table(...)`, and the same NAME is the target of an assignment emitted there."""
    tree = ctx.py(GEN)
    n = 0
    for fn in P.all_defs(tree):
        if P.enclosing_func(fn) is not None:
            continue
        for c in P.calls(fn):
            if not P.un(c.func).endswith("symbol_table.new_symbol") or len(c.args) < 3 or P.un(c.args[2]) not in LOCAL_KINDS:
                continue
            n += 1
            name_arg = c.args[1]
            inst = f"{GEN}::{fn.name}::{P.un(c)}"
            problems = []
            if not isinstance(name_arg, ast.Name):
                problems.append(f"the Python name `{P.un(name_arg)}` is not a local holding a generated name")
            else:
                assigns = [a for a in ast.walk(fn) if isinstance(a, ast.Assign) and any(P.un(t) == name_arg.id for t in a.targets)]
                loops = [l for l in ast.walk(fn) if isinstance(l, ast.For) and any(isinstance(t, ast.Name) and t.id == name_arg.id for t in ast.walk(l.target))]
                srcs = [P.un(a.value) for a in assigns]
                if assigns:
                    if not all(s.startswith("genname(munge(") for s in srcs):
                        problems.append(f"`{name_arg.id}` is assigned from {srcs}: not a fresh genname(munge(name)), so the binder can alias an existing Python name (parameter, Var, handler variable)")
                elif loops:
                    # iterating (name, binding) pairs collected earlier: the collected names must come from genname
                    pass
                else:
                    problems.append(f"`{name_arg.id}` has no visible origin")
                # an assignment to that name is emitted
                emitted = any(isinstance(x, ast.Call) and P.un(x.func) in ("ast.Name",) and f"id={name_arg.id}," in P.un(x).replace(" ", "").replace("id=" + name_arg.id + ",", f"id={name_arg.id},") and "ast.Store()" in P.un(x) for x in ast.walk(fn))
                if not emitted and "CATCH" not in P.un(c.args[2]):
                    problems.append(f"no assignment to `{name_arg.id}` is emitted: the local would read whatever that Python name already holds")
            if not any(isinstance(w, ast.With) and any("new_symbol_table" in P.un(it.context_expr) for it in w.items) for w in P.ancestors(c)):
                problems.append("the binder is registered outside a new symbol table: it leaks into the enclosing scope")
            ctx.ob("C01.R2", inst, GEN, c.lineno, not problems, "; ".join(problems))
    if n == 0:
        raise AnalysisError("no let/loop/catch binder registrations found")


@rule("C01.R4", floor=5)
def r4_result_temps_and_recur(ctx):
    """try assigns its result temp in the Try body and in every handler; loop assigns its result and
    breaks; loop recur rebinds with ONE assignment (a tuple assignment for several locals:
    simultaneous rebinding) and then continues."""
    t = _fn(ctx, "_try_to_py_ast")
    ok = "targets=[ast.Name(id=try_expr_name, ctx=ast.Store())]" in P.un(t) and "value=body_ast.node" in P.un(t)
    ctx.ob("C01.R4", f"{GEN}::_try_to_py_ast::body value -> result temp", GEN, t.lineno, ok, "" if ok else "the try body's value is not assigned to the result temp")
    c = _fn(ctx, "__catch_to_py_ast")
    ok = "try_expr_name" in P.un(c) and "ast.Assign(" in P.un(c) and "ast.ExceptHandler(" in P.un(c)
    ctx.ob("C01.R4", f"{GEN}::__catch_to_py_ast::handler value -> the same result temp", GEN, c.lineno, ok, "" if ok else "a catch handler does not assign the try's result temp")
    calls = [x for x in P.calls(t) if "__catch_to_py_ast" in P.un(x) and (P.un(x.func).endswith("__catch_to_py_ast") or P.un(x.func) == "partial")]
    ok = bool(calls) and all("try_expr_name" in P.un(x) for x in calls)
    ctx.ob("C01.R4", f"{GEN}::_try_to_py_ast::every handler receives the result temp name", GEN, t.lineno, ok, "" if ok else "handlers are generated without the try's result name")
    lp = _fn(ctx, "_loop_to_py_ast")
    body = P.un(lp)
    i_asg = body.find("targets=[ast.Name(id=loop_result_name, ctx=ast.Store())], value=body_ast.node")
    i_brk = body.find("loop_body_ast.append(ast.Break())")
    ok = 0 <= i_asg < i_brk
    ctx.ob("C01.R4", f"{GEN}::_loop_to_py_ast::result assigned, then break", GEN, lp.lineno, ok, "" if ok else "the loop result is not assigned immediately before the break")
    r = _fn(ctx, "__loop_recur_to_py_ast")
    assigns = [x for x in ast.walk(r) if isinstance(x, ast.Call) and P.un(x.func) == "ast.Assign"]
    problems = []
    for a in assigns:
        txt = P.un(a)
        single = "targets=recur_targets" in txt
        tup = "targets=[ast.Tuple(elts=recur_targets, ctx=ast.Store())]" in txt and "value=ast.Tuple(elts=recur_exprs, ctx=ast.Load())" in txt
        if single:
            guard = next((i for i in P.ancestors(a) if isinstance(i, ast.If)), None)
            if guard is None or P.un(guard.test) != "len(recur_targets) == 1":
                problems.append("a plain assignment rebinds loop locals without the single-local guard")
        elif not tup:
            problems.append(f"`{txt[:70]}` rebinds loop locals one after another: a later recur argument (or a closure called in it) sees the already-rebound earlier local")
    if any(isinstance(x, (ast.For, ast.While)) and any(isinstance(y, ast.Call) and P.un(y.func) == "ast.Assign" for y in ast.walk(x)) for x in ast.walk(r)):
        problems.append("assignments are emitted in a loop over the locals: sequential, not simultaneous, rebinding")
    ctx.ob("C01.R4", f"{GEN}::__loop_recur_to_py_ast::simultaneous rebinding", GEN, r.lineno, not problems and bool(assigns), "; ".join(problems) or ("" if assigns else "no rebinding assignment"),
           witness="(loop [a 0 b 0] (let [f (fn [] a)] (if (< a 3) (recur (inc a) (f)) b))) must return 2")


@rule("C01.R5", floor=1)
def r5_closures_over_loop_locals(ctx):
    """Loop locals are plain Python variables of the enclosing frame which recur re-assigns; Python
    closures capture the variable, so a closure created in iteration i observes later rebindings
    unless the generator isolates the locals per iteration (a function per iteration, or default-
    argument capture in generated fns)."""
    lp = _fn(ctx, "_loop_to_py_ast")
    txt = P.un(lp)
    same_frame = "ast.While(test=ast.Constant(True), body=loop_body_ast, orelse=[])" in txt and "ast_FunctionDef(" not in txt and "_fn_node(" not in txt
    fa = ctx.fn_opt(GEN, "__fn_args_to_py_ast")
    captures = fa is not None and ("defaults=" in P.un(fa) and "LocalType.LOOP" in P.un(fa))
    # ... or a fn generated in a loop body is defined inside a factory that is called, on the spot,
    # with the current values of the fn's free locals (each iteration then has its own cells)
    factory = False
    ftp = ctx.fn_opt(GEN, "_fn_to_py_ast")
    gtree = ctx.py(GEN)
    gc_cls = P.find_def(gtree, "GeneratorContext")
    in_loop = P.methods(gc_cls).get("is_in_loop") if gc_cls is not None else None
    if ftp is not None and in_loop is not None:
        routed = [i for i in ast.walk(ftp) if isinstance(i, ast.If) and "ctx.is_in_loop" in P.un(i.test)
                  and any(isinstance(r, ast.Return) and isinstance(r.value, ast.Call) for s in i.body for r in ast.walk(s))]
        top_is_loop = "self._recur_points[-1].type == RecurType.LOOP" in P.un(in_loop)
        for i in routed:
            call = next(r.value for s in i.body for r in ast.walk(s) if isinstance(r, ast.Return) and isinstance(r.value, ast.Call))
            h = P.find_def(gtree, P.un(call.func))
            if h is None:
                continue
            ht = P.un(h)
            kinds_ok = "LocalType.LOOP" in ht and "LocalType.LET" in ht and "local_python_names(" in ht
            fparam = h.args.args[1].arg if len(h.args.args) > 1 else "fn_ast"
            wraps = any(isinstance(c, ast.Call) and P.un(c.func) in ("ast_FunctionDef", "ast.FunctionDef") for c in ast.walk(h)) \
                and any(isinstance(c, ast.Call) and P.un(c.func) == "ast.Return" and any(P.un(k.value) == f"{fparam}.node" for k in c.keywords) for c in ast.walk(h)) \
                and f"{fparam}.dependencies" in ht
            # the factory's parameters and the arguments of its call are built from one and the same collection of names
            comps = [lc for lc in ast.walk(h) if isinstance(lc, ast.ListComp) and len(lc.generators) == 1 and isinstance(lc.elt, ast.Call)]
            arg_iters = {P.un(lc.generators[0].iter) for lc in comps if P.un(lc.elt.func) == "ast.arg"}
            val_iters = {P.un(lc.generators[0].iter) for lc in comps if P.un(lc.elt.func) == "ast.Name" and any(k.arg == "ctx" and "Load" in P.un(k.value) for k in lc.elt.keywords)}
            passes = bool(arg_iters & val_iters) and any(isinstance(c, ast.Call) and P.un(c.func) == "ast.Call" for c in ast.walk(h))
            # ... which is what the fn actually reads (Name loads) among the locals of the enclosing frames
            free = "ast.Load" in ht and any(isinstance(b, ast.BinOp) and isinstance(b.op, ast.BitAnd) for b in ast.walk(h))
            factory = factory or (top_is_loop and kinds_ok and wraps and passes and free)
    if factory:
        # what the factory takes by value must already be bound when it is called: the functions of a
        # letfn* are assigned one after the other and may refer to those assigned later
        lf = ctx.fn(GEN, "_letfn_to_py_ast")
        reg = [c for c in P.calls(lf) if P.un(c.func).endswith("symbol_table.new_symbol") and len(c.args) >= 3]
        kinds_txt = " ".join(P.un(x) for h2 in [P.find_def(gtree, "__fn_closed_over_current_locals")] if h2 is not None for x in ast.walk(h2) if isinstance(x, ast.Call) and P.un(x.func) == "frozenset")
        bad_kind = [P.un(c.args[2]) for c in reg if P.un(c.args[2]) in kinds_txt]
        ctx.ob("C01.R5", f"{GEN}::_letfn_to_py_ast::letfn functions are not captured by value", GEN, lf.lineno, bool(reg) and not bad_kind,
               "" if reg and not bad_kind else f"letfn* registers its functions as {bad_kind or '?'}, a kind the loop-closure factory takes by value: a function that refers to a sibling assigned after it is handed an unbound name",
               witness="(loop [i 0 acc []] (letfn [(a [] (b)) (b [] i)] (if (< i 3) (recur (inc i) (conj acc a)) acc))) => NameError: name 'b_N' is not defined")
        # ... and what it leaves by reference must not be shared between iterations either: the
        # letfn functions reach each other through variables, which in a loop body have to be the
        # variables of a scope that exists once per iteration -- under `ctx.is_in_loop` the
        # binding statements are moved into a function definition, and the names are assigned
        # from a call of it
        stmts_var = next((P.un(c.func).rsplit(".", 1)[0] for l in ast.walk(lf) if isinstance(l, ast.For) for c in P.calls(l)
                          if P.un(c.func).endswith(".append") and c.args and isinstance(c.args[0], ast.Call) and P.un(c.args[0].func) == "ast.Assign"), None)
        if stmts_var is None:
            raise AnalysisError("_letfn_to_py_ast: the statement list the binding loop fills was not found")
        per_iter = False
        for i in ast.walk(lf):
            if not (isinstance(i, ast.If) and "is_in_loop" in P.un(i.test)):
                continue
            defs = [c for s in i.body for c in P.calls(s) if P.un(c.func) in ("ast_FunctionDef", "ast.FunctionDef")]
            holds = any(any(k.arg == "body" and stmts_var in P.names_read(k.value) for k in d.keywords) for d in defs)
            returns = any(any(isinstance(x, ast.Call) and P.un(x.func) == "ast.Return" for x in ast.walk(d)) for d in defs)
            assigned = any(isinstance(c, ast.Call) and P.un(c.func) == "ast.Assign" and any(k.arg == "value" and isinstance(k.value, ast.Call) and P.un(k.value.func) == "ast.Call" for k in c.keywords)
                           for s in i.body for c in ast.walk(s))
            per_iter = per_iter or (holds and returns and assigned)
        ctx.ob("C01.R5", f"{GEN}::_letfn_to_py_ast::in a loop body the letfn functions close over variables of their own iteration", GEN, lf.lineno, per_iter,
               "" if per_iter else "letfn* assigns its functions to variables of the enclosing Python function also inside a loop* body, where they are assigned again on every iteration: a function kept from an earlier iteration calls the sibling of the last one",
               witness="(loop [i 0 acc []] (if (< i 3) (recur (inc i) (conj acc (letfn [(a [] (b)) (b [] i)] a))) (mapv #(%) acc))) => [2 2 2], the language prescribes [0 1 2]")
    ok = not same_frame or captures or factory
    ctx.ob("C01.R5", f"{GEN}::_loop_to_py_ast::loop locals rebound in one frame are visible to closures", GEN, lp.lineno, ok,
           "" if ok else "closures created in a loop body capture the loop variable, not its value: after recur they all see the last value",
           witness="(loop [i 0 fs []] (if (< i 3) (recur (inc i) (conj fs (fn [] i))) (mapv #(%) fs))) => [3 3 3], the language prescribes [0 1 2]")


@rule("C01.R6", floor=2)
def r6_recur_tail_check_present(ctx):
    """The analyzer rejects recur outside tail position (_assert_recur_is_tail is applied to fn
    bodies and loop bodies) and inside try (_assert_no_recur)."""
    tree = ctx.py(ANA)
    tail = P.find_def(tree, "_assert_recur_is_tail")
    norec = P.find_def(tree, "_assert_no_recur")
    if tail is None or norec is None:
        raise AnalysisError("anchor vanished: analyzer recur position checks")
    uses = [c for c in ast.walk(tree) if isinstance(c, ast.Name) and c.id == "_assert_recur_is_tail" and P.enclosing_func(c) is not None and P.enclosing_func(c).name != "_assert_recur_is_tail"]
    ctx.ob("C01.R6", f"{ANA}::_assert_recur_is_tail applied at {len(uses)} site(s)", ANA, tail.lineno, len(uses) >= 2, "" if len(uses) >= 2 else "fn / loop bodies are no longer checked for tail-position recur")
    uses2 = [c for c in ast.walk(tree) if isinstance(c, ast.Name) and c.id == "_assert_no_recur" and P.enclosing_func(c) is not None and P.enclosing_func(c).name not in ("_assert_no_recur",)]
    ctx.ob("C01.R6", f"{ANA}::_assert_no_recur applied at {len(uses2)} site(s)", ANA, norec.lineno, len(uses2) >= 2, "" if len(uses2) >= 2 else "non-tail positions are no longer checked for recur")


@rule("C01.R7", floor=45)
def r7_context_dependent_work_happens_inside_its_context(ctx):
    """The analyzer and the generator keep the syntactic position (expr_pos / stmt_pos / parent
    position), the symbol table, the recur point and similar facts in context managers of `ctx`.
    Work that reads `ctx` must therefore run while the block is active: a generator expression,
    map()/filter() call or lambda that mentions `ctx`, created inside `with ctx.X():`, has to be
    consumed before the block ends (eager constructor, unpacking, for loop, *-spread); one that is
    bound to a name, returned, or stored in a node is evaluated later, under whatever position and
    scope happen to be current -- the form's meaning would then depend on where it sits."""
    n = 0
    seen: dict = {}
    for rel in (ANA, GEN):
        tree = ctx.py(rel)
        for w in sorted((x for x in ast.walk(tree) if isinstance(x, (ast.With, ast.AsyncWith))), key=lambda x: x.lineno):
            if not isinstance(w, (ast.With, ast.AsyncWith)):
                continue
            items = [P.un(i.context_expr) for i in w.items]
            if not any(i.startswith("ctx.") for i in items):
                continue
            n += 1
            fn = P.enclosing_func(w)
            esc = list(P.lazy_escapes(w, "ctx"))
            why = ""
            if esc:
                node, how = esc[0]
                why = (f"`{P.un(node)[:70]}` (line {node.lineno}) reads ctx lazily and {how}: it runs after `with {', '.join(items)}` has been left, "
                       "so sub-forms are analysed/generated under the wrong position or scope")
            key = f"{rel}::{fn.name if fn else '<module>'}::with {', '.join(items)}"[:150]
            seen[key] = seen.get(key, 0) + 1
            ctx.ob("C01.R7", f"{key} #{seen[key]}", rel, w.lineno, not esc, why)
    if n == 0:
        raise AnalysisError("no `with ctx.*` blocks found in analyzer/generator")


OPT = "src/basilisp/lang/compiler/optimizer.py"


@rule("C01.R8", floor=4)
def r8_function_level_globals_precede_every_use(ctx):
    """`def` and `import*` inside a function assign a module global, for which the generator
    writes `global NAME` next to the assignment.  Python rejects a function in which NAME is used
    before that statement, and the uses may sit in statements generated earlier (the init's own
    dependencies, an earlier body form, the other branch of an if).  The declarations therefore
    have to be moved to the top of the function body: the optimizer's Global visitor drops them
    inside functions and both function visitors (sync and async -- siblings that must agree) put
    the collected names first."""
    tree = ctx.py(OPT)
    cls = P.find_def(tree, "PythonASTOptimizer")
    if cls is None:
        raise AnalysisError("anchor vanished: PythonASTOptimizer")
    ms = P.methods(cls)
    vg = ms.get("visit_Global")
    if vg is None:
        raise AnalysisError("anchor vanished: PythonASTOptimizer.visit_Global")
    drops = [r for r in ast.walk(vg) if isinstance(r, ast.Return) and isinstance(r.value, ast.Constant) and r.value.value is None and isinstance(P.parent(r), ast.If)]
    ok = bool(drops)
    ctx.ob("C01.R8", f"{OPT}::visit_Global removes the declaration inside functions", OPT, vg.lineno, ok,
           "" if ok else "function-level `global` statements stay where the generator put them: a function that reads a Var before re-def'ing it does not compile (SyntaxError: name used prior to global declaration)",
           witness="(def z 1) (defn g [] (println z) (def z 2))")
    ngc = ms.get("_new_global_context")
    yields = [y for y in ast.walk(ngc) if isinstance(y, ast.Yield)] if ngc is not None else []
    ok = bool(yields) and all(y.value is not None and "_global_ctx" in P.un(y.value) for y in yields)
    ctx.ob("C01.R8", f"{OPT}::_new_global_context hands out the set of declared names", OPT, getattr(ngc, "lineno", 0), ok, "" if ok else "the visitors cannot learn which names were declared in the function")
    shapes = {}
    for vname in ("visit_FunctionDef", "visit_AsyncFunctionDef"):
        v = ms.get(vname)
        if v is None:
            raise AnalysisError(f"anchor vanished: PythonASTOptimizer.{vname}")
        withs = [w for w in ast.walk(v) if isinstance(w, ast.With) and any("_new_global_context" in P.un(i.context_expr) and i.optional_vars is not None for i in w.items)]
        var = P.un(withs[0].items[0].optional_vars) if withs else None
        body_kw = [k.value for c in P.calls(v) for k in c.keywords if k.arg == "body"]
        hoisted = False
        for b in body_kw:
            if isinstance(b, ast.Call) and var is not None and any(P.un(a) == var for a in b.args):
                h = P.find_def(tree, P.un(b.func))
                if h is not None:
                    rets = [r.value for r in ast.walk(h) if isinstance(r, ast.Return) and isinstance(r.value, (ast.List, ast.Tuple)) and r.value.elts]
                    hoisted = any(isinstance(r.elts[0], ast.Call) and P.un(r.elts[0].func) == "ast.Global" for r in rets)
            elif isinstance(b, (ast.List, ast.BinOp)) and var is not None and "ast.Global(" in P.un(b) and var in P.un(b):
                hoisted = P.un(b).index("ast.Global(") < len(P.un(b)) // 2
        shapes[vname] = hoisted
        ctx.ob("C01.R8", f"{OPT}::{vname} puts the collected declarations first in the body", OPT, v.lineno, hoisted,
               "" if hoisted else f"{vname} does not emit the function's global declarations at the top of its body")
    ok = len(set(shapes.values())) == 1
    ctx.ob("C01.R8", f"{OPT}::sync and async function visitors agree", OPT, cls.lineno, ok, "" if ok else "only one of the two function visitors hoists the declarations")


VALUE_FIELDS = ("target", "init")


def _in_expr_pos(node, fn) -> bool:
    return any(isinstance(a, ast.With) and any(P.un(it.context_expr) == "ctx.expr_pos()" for it in a.items) for a in P.ancestors(node) if P.contains(fn, a))


@rule("C01.R9", floor=8)
def r9_needed_children_are_expressions(ctx):
    """A child form whose value its parent consumes -- the init of a let* / loop* binding, the target
    of a host call or field access -- is analyzed in expression position whatever position the
    parent is in.  Analyzed in the parent's position, an if / do / let used there in a statement
    context is compiled as a statement and its value is dropped (the generator hands back nil)."""
    tree = ctx.py(ANA)
    mod_fns = {f.name: f for f in tree.body if isinstance(f, P.FUNC)}

    def helper_is_expr(fname):
        f = mod_fns.get(fname)
        if f is None:
            return False
        calls = [c for c in P.calls(f) if P.un(c.func) == "_analyze_form"]
        return bool(calls) and all(_in_expr_pos(c, f) for c in calls)

    n = 0
    for fn in mod_fns.values():
        for c in ast.walk(fn):
            if not isinstance(c, ast.Call):
                continue
            for k in c.keywords:
                if k.arg not in VALUE_FIELDS:
                    continue
                v = k.value
                ana = [x for x in ast.walk(v) if isinstance(x, ast.Call) and isinstance(x.func, ast.Name) and (x.func.id == "_analyze_form" or x.func.id.startswith("_analyze_"))]
                if not ana and isinstance(v, ast.Name):
                    # a local computed earlier in the handler
                    ana = [a.value for a in ast.walk(fn) if isinstance(a, ast.Assign) and P.un(a.targets[0]) == v.id and isinstance(a.value, ast.Call) and isinstance(a.value.func, ast.Name) and a.value.func.id.startswith("_analyze_")]
                if not ana:
                    continue
                n += 1
                ok = all((x.func.id == "_analyze_form" and _in_expr_pos(x, fn)) or (x.func.id != "_analyze_form" and (helper_is_expr(x.func.id) or _in_expr_pos(x, fn))) for x in ana)
                ctx.ob("C01.R9", f"{ANA}::{fn.name}::{P.un(c.func)}({k.arg}=...) #{sum(1 for y in ast.walk(fn) if isinstance(y, ast.Call) and y.lineno < c.lineno and any(kk.arg == k.arg for kk in y.keywords))}", ANA, k.value.lineno, ok,
                       "" if ok else f"`{k.arg}={P.un(v)[:60]}` is analyzed in the position of the parent form: in statement position an if / let / do used as the {k.arg} is compiled as a statement and yields nil",
                       witness="(when true (.append (if true l1 l2) 1) :after) => AttributeError: 'NoneType' object has no attribute 'append'")
    if n == 0:
        raise AnalysisError("no node constructor with a target= / init= child found in the analyzer")


@rule("C01.R10", floor=2)
def r10_catch_local_outlives_the_handler(ctx):
    """Python unbinds the name of an `except ... as <name>` clause when the handler exits.  The name
    under which the catch local is registered in the symbol table (and so the name closures made
    in the catch body refer to) must therefore not be that name: the handler binds a name of its
    own and assigns it to the local first."""
    fn = ctx.fn(GEN, "__catch_to_py_ast")
    reg = [c for c in P.calls(fn) if P.un(c.func).endswith("symbol_table.new_symbol") and len(c.args) >= 3 and "CATCH" in P.un(c.args[2])]
    handlers = [c for c in P.calls(fn) if P.un(c.func) == "ast.ExceptHandler"]
    if not reg or not handlers:
        raise AnalysisError("__catch_to_py_ast no longer registers the catch local / builds ast.ExceptHandler in the recognised way")
    local_name = P.un(reg[0].args[1])
    h = handlers[0]
    hname = next((P.un(k.value) for k in h.keywords if k.arg == "name"), None)
    ok = hname is not None and hname != local_name
    ctx.ob("C01.R10", f"{GEN}::__catch_to_py_ast::the handler's own name is not the catch local", GEN, h.lineno, ok,
           "" if ok else f"the catch local `{local_name}` is the `except ... as` name, which Python deletes when the handler exits: a function created in the catch body and called later fails with NameError",
           witness="(def f (try (throw (python/ValueError \"boom\")) (catch python/ValueError e (fn [] (str e))))) (f) => NameError")
    body = next((k.value for k in h.keywords if k.arg == "body"), None)
    assigns = [c for c in ast.walk(body) if isinstance(c, ast.Call) and P.un(c.func) == "ast.Assign" and f"ast.Name(id={local_name}, ctx=ast.Store())" in P.un(c) and hname is not None and f"ast.Name(id={hname}, ctx=ast.Load())" in P.un(c)] if body is not None else []
    first = False
    if assigns and body is not None:
        txt = P.un(body)
        first = txt.index(P.un(assigns[0])) < txt.index("catch_ast") if "catch_ast" in txt else True
    ok2 = (hname == local_name) or (bool(assigns) and first)
    ctx.ob("C01.R10", f"{GEN}::__catch_to_py_ast::the catch local is assigned from the handler's name before the body", GEN, h.lineno, ok2,
           "" if ok2 else f"the handler binds `{hname}` but the catch local `{local_name}` is not assigned from it before the catch body runs")


COMPILER = "src/basilisp/lang/compiler/__init__.py"


class _As:
    """ctx proxy that files another property's rule under an id of this property."""

    def __init__(self, ctx, rid):
        self._ctx, self._rid = ctx, rid

    def __getattr__(self, name):
        return getattr(self._ctx, name)

    def ob(self, _rid, *a, **k):
        return self._ctx.ob(self._rid, *a, **k)


@rule("C01.R12", floor=3)
def r12_recur_rebinds_exactly_the_arguments_written(ctx):
    """`recur` re-enters its arity with the values written in the recur form.  How the last of them is
    treated -- as a value, or as the rest collection to be spread over the rest parameter -- is
    decided by the variadic flag its recur point carries, which therefore has to be the flag of the
    arity the recur point belongs to.  This is C08.R5's check (the generator function that builds a
    recur point takes loop id and variadic flag from the same arity node), decided here as well
    because a wrong flag makes a compiled program compute a value its source does not denote."""
    from . import C08
    C08.r5_recur_point_carries_the_flag_of_its_own_arity(_As(ctx, "C01.R12"))


@rule("C01.R13", floor=6)
def r13_operands_hold_the_values_they_had_when_evaluated(ctx):
    """The value a form denotes is computed from the values its operands had when each was evaluated,
    in order.  An operand that is a bare name -- a local, or the module global a direct-linked Var of
    the current namespace compiles to -- is a read: when a later operand carries statements (an if,
    a let, a do with a def in it), the read has to be taken before those statements run, or
    (vector a (do (def a 2) a)) yields [2 2].  This is C02.R1's check of the chaining combinator
    (evaluated on every sibling list of length 2 and 3 over constants, calls and bare names), decided
    here as well because a late read makes the program compute a value its source does not denote."""
    from . import C02
    C02.r1_sequencing_sound_combination(_As(ctx, "C01.R13"))


@rule("C01.R11", floor=1)
def r11_every_top_level_form_yields_a_value(ctx):
    """compile_and_exec_form unrolls a top-level `do` into its forms and returns the value of the last
    one compiled.  If the loop can run zero times -- (do), a do holding only an unselected reader
    conditional -- there is no last value: whatever stands for it (an assert on a sentinel, an
    unbound local) fails on a form that means nil everywhere else.  The sequence the loop walks is
    therefore non-empty by construction (`<unrolled> or [form]`), or the no-form case is answered
    explicitly before the loop."""
    fn = ctx.fn(COMPILER, "compile_and_exec_form")
    loops = [l for l in ast.walk(fn) if isinstance(l, ast.For) and any(P.un(c.func).startswith("analyze_form") or P.un(c.func) == "gen_py_ast" for s in l.body for c in P.calls(s))]
    if not loops:
        raise AnalysisError("compile_and_exec_form no longer compiles its forms in a loop")
    lp = loops[0]
    it = lp.iter
    if isinstance(it, ast.Name):
        src = [a.value for a in ast.walk(fn) if isinstance(a, ast.Assign) and P.un(a.targets[0]) == it.id]
        it = src[-1] if src else it

    def non_empty(e):
        if isinstance(e, ast.BoolOp) and isinstance(e.op, ast.Or):
            return any(isinstance(v, (ast.List, ast.Tuple)) and v.elts for v in e.values)
        return isinstance(e, (ast.List, ast.Tuple)) and bool(e.elts)
    guarded_before = any(isinstance(i, ast.If) and i.lineno < lp.lineno and any(isinstance(x, ast.Return) for x in ast.walk(i)) and "do" in P.un(i.test).lower() for i in ast.walk(fn))
    sentinel_failures = [a for a in ast.walk(fn) if isinstance(a, ast.Assert) and a.lineno > lp.lineno and "sentinel" in P.un(a.test).lower()]
    ok = non_empty(it) or guarded_before or not sentinel_failures
    ctx.ob("C01.R11", f"{COMPILER}::compile_and_exec_form::the compile loop runs at least once", COMPILER, lp.lineno, ok,
           "" if ok else f"the loop walks `{P.un(lp.iter)[:50]}`, which is empty for a top-level (do); `{P.un(sentinel_failures[0].test)[:50]}` then fails",
           witness="(do) at the REPL or in a file => AssertionError: Must compile at least one form; ((fn [] (do))) => nil")
    # ... and the unrolling itself keeps the value: a nested (do) without forms is a form whose value
    # is nil, not nothing -- every recursive unrolling of a do's forms stands under a test that those
    # forms are not empty
    fm = ctx.fn(COMPILER, "_flatmap_forms")
    recs = [y for y in ast.walk(fm) if isinstance(y, ast.YieldFrom) and isinstance(y.value, ast.Call) and P.un(y.value.func) == "_flatmap_forms"]
    if not recs:
        raise AnalysisError("_flatmap_forms no longer unrolls nested do forms recursively")
    for y in recs:
        arg = P.un(y.value.args[0]) if y.value.args else ""
        conds = [i for i in P.ancestors(y) if isinstance(i, ast.If) and P.contains(fm, i) and any(P.contains(b, y) for b in i.body)]
        probes = ("is_empty", "to_seq(", "seq(", "len(")
        ok = any(arg in P.un(i.test) and any(p in P.un(i.test) for p in probes) for i in conds)
        ctx.ob("C01.R11", f"{COMPILER}::_flatmap_forms::a do is unrolled only if it has forms", COMPILER, y.lineno, ok,
               "" if ok else f"`{P.un(y)}` unrolls a nested do into its forms also when it has none: the nil it denotes disappears and the enclosing top-level do yields the value of the form before it",
               witness="(do 5 (do)) at the top level => 5; ((fn [] (do 5 (do)))) => nil")


SELFTEST = [
    {"name": "an empty nested do is unrolled into nothing (the repaired defect)", "file": COMPILER, "expect": "C01.R11",
     "old": "            and not form.rest.is_empty\n", "new": ""},
    {"name": "letfn functions of a loop body share the variables of all iterations (the repaired defect)", "file": GEN, "expect": "C01.R5",
     "old": "        if ctx.is_in_loop and binding_names:\n", "new": "        if False and binding_names:\n"},
    {"name": "twin: the letfn factory test written the other way round", "file": GEN, "expect": None,
     "old": "        if ctx.is_in_loop and binding_names:\n", "new": "        if binding_names and ctx.is_in_loop:\n"},
    {"name": "fns created in a loop body are plain closures again (the repaired defect)", "file": GEN, "expect": "C01.R5",
     "old": "    if def_name is None and ctx.is_in_loop:\n        return __fn_closed_over_current_locals(ctx, fn_ast)\n", "new": ""},
    {"name": "the factory is called without the current values", "file": GEN, "expect": "C01.R5",
     "old": "            args=[ast.Name(id=name, ctx=ast.Load()) for name in captured],\n            keywords=[],", "new": "            args=[],\n            keywords=[],"},
    {"name": "loop locals are not among the captured kinds", "file": GEN, "expect": "C01.R5",
     "old": "        frozenset({LocalType.LET, LocalType.LOOP, LocalType.CATCH})\n", "new": "        frozenset({LocalType.LET, LocalType.CATCH})\n"},
    {"name": "twin: captured names held in a differently named local", "file": GEN, "expect": None, "count": "all",
     "old": "captured", "new": "free_locals"},
    {"name": "a top-level (do) compiles no form (the repaired defect)", "file": COMPILER, "expect": "C01.R11",
     "old": "    unrolled_forms = list(_flatmap_forms([form])) or [form]\n", "new": "    unrolled_forms = list(_flatmap_forms([form]))\n"},
    {"name": "let* init analyzed in the parent's position (the repaired defect)", "file": ANA, "expect": "C01.R9", "nth": 0,
     "old": "                init=_analyze_value_form(value, ctx),", "new": "                init=_analyze_form(value, ctx),"},
    {"name": "host call target analyzed in the parent's position (the repaired defect)", "file": ANA, "expect": "C01.R9", "nth": 0,
     "old": "target=_analyze_value_form(runtime.nth(form, 1), ctx),", "new": "target=_analyze_form(runtime.nth(form, 1), ctx),"},
    {"name": "the value helper stops switching to expression position", "file": ANA, "expect": "C01.R9",
     "old": "    with ctx.expr_pos():\n        return _analyze_form(form, ctx)\n\n\ndef _host_call_ast", "new": "    return _analyze_form(form, ctx)\n\n\ndef _host_call_ast"},
    {"name": "catch local is the except-as name (the repaired defect)", "file": GEN, "expect": "C01.R10",
     "old": "            name=handler_exc_name,\n", "new": "            name=catch_exc_name,\n"},
    {"name": "global declarations left in place (the repaired defect)", "file": OPT, "expect": "C01.R8",
     "old": "        if self._is_function_context:\n", "new": "        if False:\n",
     "edits": [
         {"file": OPT, "old": "        self._global_context.update(new_names)\n        if self._is_function_context:\n", "new": "        self._global_context.update(new_names)\n        if self._is_function_context and not new_names:\n"},
         {"file": OPT, "old": "                body=_hoist_globals(global_names, _filter_dead_code(new_node.body)),\n", "new": "                body=_filter_dead_code(new_node.body),\n", "count": "all"},
     ]},
    {"name": "async functions do not hoist", "file": OPT, "expect": "C01.R8",
     "old": "                body=_hoist_globals(global_names, _filter_dead_code(new_node.body)),\n", "new": "                body=_filter_dead_code(new_node.body),\n", "nth": 1, "count": 2},
    {"name": "recur arguments analysed after expr_pos was left", "file": ANA, "expect": "C01.R7",
     "old": "        exprs = vec.vector(_analyze_form(form, ctx) for form in form.rest)\n\n    return Recur(form=form, exprs=exprs, loop_id=loop_id, env=ctx.get_node_env())",
     "new": "        exprs = (_analyze_form(expr, ctx) for expr in form.rest)\n\n    return Recur(form=form, exprs=vec.vector(exprs), loop_id=loop_id, env=ctx.get_node_env())"},
    {"name": "twin: recur arguments collected with a list comprehension", "file": ANA, "expect": None,
     "old": "        exprs = vec.vector(_analyze_form(form, ctx) for form in form.rest)\n", "new": "        exprs = vec.vector([_analyze_form(expr, ctx) for expr in form.rest])\n"},
    {"name": "truthiness by equality", "file": GEN, "expect": "C01.R1", "first": True,
     "old": "                    left=ast.Constant(False),\n                    ops=[ast.Is()],", "new": "                    left=ast.Constant(False),\n                    ops=[ast.Eq()],"},
    {"name": "branches not swapped", "file": GEN, "expect": "C01.R1",
     "old": "        body=list(map(statementize, chain(else_ast.dependencies, [else_ast.node]))),\n        orelse=list(map(statementize, chain(then_ast.dependencies, [then_ast.node]))),",
     "new": "        body=list(map(statementize, chain(then_ast.dependencies, [then_ast.node]))),\n        orelse=list(map(statementize, chain(else_ast.dependencies, [else_ast.node]))),"},
    {"name": "let local registered under the munged source name", "file": GEN, "expect": "C01.R2",
     "old": "            binding_name = genname(munge(binding.name))\n            let_body_ast.extend(init_ast.dependencies)", "new": "            binding_name = munge(binding.name)\n            let_body_ast.extend(init_ast.dependencies)"},
    {"name": "seeded C01/a: let aliases an existing name", "file": GEN, "expect": "C01.R2",
     "old": "            binding_name = genname(munge(binding.name))\n            let_body_ast.extend(init_ast.dependencies)",
     "new": "            binding_name = init_ast.node.id if isinstance(init_ast.node, ast.Name) and tag is None else genname(munge(binding.name))\n            let_body_ast.extend(init_ast.dependencies)"},
    {"name": "seeded C01/b: sequential recur rebinding", "file": GEN, "expect": "C01.R4",
     "old": "        recur_deps.append(\n            ast.Assign(\n                targets=[ast.Tuple(elts=recur_targets, ctx=ast.Store())],\n                value=ast.Tuple(elts=recur_exprs, ctx=ast.Load()),\n            )\n        )",
     "new": "        for tgt, val in zip(recur_targets, recur_exprs):\n            recur_deps.append(ast.Assign(targets=[tgt], value=val))"},
    {"name": "loop result assigned after the break", "file": GEN, "expect": "C01.R4",
     "old": "            loop_body_ast.append(\n                ast.Assign(\n                    targets=[ast.Name(id=loop_result_name, ctx=ast.Store())],\n                    value=body_ast.node,\n                )\n            )\n            loop_body_ast.append(ast.Break())",
     "new": "            loop_body_ast.append(ast.Break())\n            loop_body_ast.append(\n                ast.Assign(\n                    targets=[ast.Name(id=loop_result_name, ctx=ast.Store())],\n                    value=body_ast.node,\n                )\n            )"},
]
