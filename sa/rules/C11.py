"""C11 -- dynamic bindings are scoped, thread-local and conveyed to futures."""
from __future__ import annotations

import ast

from ..core import AnalysisError, rule
from .. import lispread as L
from .. import pyfacts as P
from ..pycfg import CFG

RT = "src/basilisp/lang/runtime.py"
CORE = "src/basilisp/core.lpy"

EXPLANATION = (
    "Pairing / all-or-nothing / thread-locality rules: every push-thread-bindings call site in the .lpy sources is immediately "
    "followed by try/finally pop with the push outside the try; push_thread_bindings has no raising construct after its first "
    "mutation unless a handler undoes the pushes; pop undoes exactly one frame; binding storage subclasses threading.local with "
    "per-thread containers; every thread-submission site wraps the callable in bound-fn*, which snapshots outside the returned fn."
)
DECIDES = "push/pop pairing on all paths (Lisp and Python callers), atomic establishment of a multi-Var frame, frame-exact pop, thread-local storage shape, conveyance at submission sites and in pmap, a failing pop not abandoning its frame"
DECLINED = "values seen under concrete interleavings; user code that calls push/pop directly"
TRUSTED = ["threading.local gives each thread its own attribute namespace", "try/finally runs the finally on every exit"]
ASSUMPTIONS = []


def _fn(ctx, name):
    f = P.find_def(ctx.py(RT), name)
    if f is None:
        raise AnalysisError(f"anchor vanished: runtime.{name}")
    ctx.analysed["functions"].add(f"{RT}::{name}")
    return f


# ---------------------------------------------------------------------------------------------
# R1 pairing


def _is_pop_finally(f) -> bool:
    """(try BODY... (finally (pop-thread-bindings)))"""
    if L.head(f) != "try" or len(f.items) < 3:
        return False
    fin = f.items[-1]
    if L.head(fin) != "finally":
        return False
    return any(L.head(x) in ("pop-thread-bindings", "basilisp.lang.runtime/pop-thread-bindings") for x in fin.items[1:])


def _contains_push(f) -> bool:
    return any(L.head(x) in ("push-thread-bindings", "basilisp.lang.runtime/push-thread-bindings") for x in L.walk(f))


@rule("C11.R1", floor=2)
def r1_push_pop_pairing(ctx):
    """Every call of push-thread-bindings in src/**/*.lpy is immediately followed, in the same
    body, by (try ... (finally (pop-thread-bindings))), the push itself outside the try; Python
    callers of push_thread_bindings are paired in the same function or carry a reviewed exemption."""
    files = ctx.glob("src/basilisp", ".lpy")
    for rel in files:
        forms = ctx.lisp(rel)
        for top in forms:
            for f in L.walk(top):
                if L.head(f) not in ("push-thread-bindings", "basilisp.lang.runtime/push-thread-bindings"):
                    continue
                par = f.parent
                # the definition of push-thread-bindings itself forwards to the runtime
                d = next((a for a in L.ancestors(f) if L.head(a) in ("defn", "defmacro") and len(a.items) > 1), None)
                dname = d.items[1].val if d is not None and isinstance(d.items[1], L.Sym) else "<top>"
                if dname == "push-thread-bindings":
                    continue
                inst = f"{rel}::{dname}::{f.text()}"
                if not isinstance(par, (L.List,)) and not isinstance(par, L.Vec):
                    ctx.ob("C11.R1", inst, rel, f.line, False, "push-thread-bindings in an unexpected position")
                    continue
                sibs = par.items
                i = next(k for k, x in enumerate(sibs) if x is f)
                nxt = sibs[i + 1] if i + 1 < len(sibs) else None
                in_try = any(L.head(a) == "try" for a in L.ancestors(f) if a is not None and (d is None or any(x is d for x in L.ancestors(a)) or a is d))
                # `in_try`: the push is lexically inside a try of the same definition whose finally pops
                bad_inside = any(L.head(a) == "try" and _is_pop_finally(a) for a in L.ancestors(f))
                ok = nxt is not None and _is_pop_finally(nxt) and not bad_inside and not _contains_push_in_finally(nxt)
                why = ""
                if bad_inside:
                    why = "the push is inside the try whose finally pops: if establishing the frame fails, a frame that was never pushed (someone else's) is popped"
                elif nxt is None or not _is_pop_finally(nxt):
                    why = "the push is not immediately followed by (try ... (finally (pop-thread-bindings))): an exception between push and try, or a missing finally, leaves the frame installed"
                ctx.ob("C11.R1", inst, rel, f.line, ok, why)
                _ = in_try
    # Python callers
    exempt = {
        ("src/basilisp/contrib/pytest/testrunner.py", "pytest_configure"): "session-scoped by design: pushed in pytest_configure, popped in pytest_unconfigure",
    }
    for rel in ctx.glob("src/basilisp", ".py"):
        if "push_thread_bindings" not in ctx.src(rel):
            continue  # cheap prefilter; the decision below is on the AST
        tree = ctx.py(rel)
        for fn in P.all_defs(tree):
            pushes = [c for c in P.calls(fn) if (P.call_name(c) or "").split(".")[-1] == "push_thread_bindings"]
            if not pushes or fn.name == "push_thread_bindings":
                continue
            for c in pushes:
                inst = f"{rel}::{P.qual(fn)}::{P.un(c)}"
                if (rel, fn.name) in exempt:
                    # the exemption holds only while the matching pop exists in the sibling hook
                    sib = P.find_def(tree, "pytest_unconfigure")
                    ok = sib is not None and any((P.call_name(x) or "").endswith("pop_thread_bindings") for x in P.calls(sib))
                    ctx.ob("C11.R1", inst, rel, c.lineno, ok, exempt[(rel, fn.name)] if ok else "exempted push lost its matching pop in pytest_unconfigure")
                    continue
                st = P.stmt_of(c)
                # accepted: push; try: ... finally: pop      or      try: push ... finally: pop  (noted)
                blk = P.block_of(st)
                nxt = blk[blk.index(st) + 1] if blk and blk.index(st) + 1 < len(blk) else None
                def pops(t):
                    return isinstance(t, ast.Try) and any((P.call_name(x) or "").endswith("pop_thread_bindings") for s in t.finalbody for x in P.calls(s))
                par = P.parent(st)
                if pops(nxt):
                    ctx.ob("C11.R1", inst, rel, c.lineno, True, "push; try/finally pop")
                elif isinstance(par, ast.Try) and st in par.body and pops(par):
                    # the same mistake as in Lisp code: a failed push leaves no frame of its own, so the
                    # finally pops the caller's (runtime.bindings serves ns_bindings, the importer, the CLI)
                    ctx.ob("C11.R1", inst, rel, c.lineno, False,
                           "the push is inside the try whose finally pops: if establishing the frame fails (a non-dynamic Var, a value the validator rejects), the enclosing frame is popped instead -- its bindings vanish while their block is still running, and leaving that block raises",
                           witness="with runtime.bindings({a: 'outer'}): with runtime.bindings({b: 1, non_dynamic: 2}) raises, and a.value is back at its root inside the outer block")
                else:
                    ctx.ob("C11.R1", inst, rel, c.lineno, False, "Python caller pushes a binding frame without a finally that pops it")


def _contains_push_in_finally(tryf) -> bool:
    fin = tryf.items[-1]
    return _contains_push(fin)


# ---------------------------------------------------------------------------------------------
# R2 all-or-nothing


@rule("C11.R2", floor=1)
def r2_push_is_all_or_nothing(ctx):
    """In push_thread_bindings no raising construct is reachable after the first per-Var push
    unless a handler undoes the pushes made so far (pop_bindings on the Vars collected) --
    otherwise a failure half way leaves some Vars bound with no frame recording them."""
    fn = _fn(ctx, "push_thread_bindings")
    # mutation = call of <var>.push_bindings ; raising = explicit raise, or a call known to validate
    muts = [c for c in P.calls(fn) if isinstance(c.func, ast.Attribute) and c.func.attr == "push_bindings" and P.un(c.func.value) != "_THREAD_BINDINGS"]
    if not muts:
        raise AnalysisError("push_thread_bindings no longer pushes per-Var bindings")
    loops = [n for n in P.walk_local(fn) if isinstance(n, (ast.For, ast.While))]
    for m in muts:
        inst = f"{RT}::push_thread_bindings::{P.un(m)}"
        loop = next((l for l in loops if P.contains(l, m)), None)
        if loop is None:
            ctx.ob("C11.R2", inst, RT, m.lineno, True, "single push (no loop)")
            continue
        # raising constructs inside the same loop (a later iteration can fail after this one mutated)
        raisers = [n for n in ast.walk(loop) if isinstance(n, ast.Raise)]
        raisers += [m]  # push_bindings validates and raises for non-dynamic Vars / rejected values
        # compensation: the loop is inside a try whose handler pops the pushed Vars and re-raises
        comp = False
        for a in P.ancestors(loop):
            if a is fn:
                break
            if isinstance(a, ast.Try) and any(P.contains(s, loop) or s is loop for s in a.body):
                for h in a.handlers:
                    pops = [c for c in P.calls(h) if isinstance(c.func, ast.Attribute) and c.func.attr == "pop_bindings"]
                    # ... or the handler hands the Vars pushed so far to a module-level helper that pops them
                    for c in P.calls(h):
                        if isinstance(c.func, ast.Name) and c.args:
                            hh = P.find_def(ctx.py(RT), c.func.id)
                            if hh is not None and isinstance(hh, P.FUNC) and hh.args.args:
                                p0 = hh.args.args[0].arg
                                for lp in ast.walk(hh):
                                    if isinstance(lp, ast.For) and p0 in P.names_read(lp.iter):
                                        pops += [c2 for c2 in P.calls(lp) if isinstance(c2.func, ast.Attribute) and c2.func.attr == "pop_bindings"]
                    rer = any(isinstance(s, ast.Raise) for s in ast.walk(h))
                    if pops and rer and (h.type is None or P.un(h.type) in ("Exception", "BaseException")):
                        comp = True
        ok = comp or not raisers
        ctx.ob("C11.R2", inst, RT, m.lineno, ok,
               "" if ok else "the loop can raise (non-dynamic Var, validator rejection) after earlier Vars were already pushed, and nothing pops them: the failed binding form leaves those Vars bound",
               witness="(binding [*d* 1 not-dynamic 2] ...) leaves *d* bound when *d* is visited first")
    # the frame is recorded only after every push succeeded
    frame_pushes = [c for c in P.calls(fn) if P.un(c.func) == "_THREAD_BINDINGS.push_bindings"]
    g = CFG(fn)
    for c in frame_pushes:
        nodes = [nd for nd in g.nodes if nd.kind == "stmt" and P.contains(nd.ast, c)]
        loop_nodes = [nd for nd in g.nodes if nd.kind == "iter"]
        ok = all(g.dominated(nd, loop_nodes) for nd in nodes) and bool(nodes)
        ctx.ob("C11.R2", f"{RT}::push_thread_bindings::{P.un(c)}", RT, c.lineno, ok, "" if ok else "the frame is recorded before the per-Var pushes")


@rule("C11.R3", floor=4)
def r3_pop_undoes_exactly_the_frame(ctx):
    """pop_thread_bindings pops one frame and calls pop_bindings once per Var in it;
    _ThreadBindings.push/pop and Var.push_bindings/pop_bindings are inverse stack operations."""
    fn = _fn(ctx, "pop_thread_bindings")
    frame_pops = [c for c in P.calls(fn) if P.un(c.func) == "_THREAD_BINDINGS.pop_bindings"]
    ok = len(frame_pops) == 1 and not any(isinstance(a, (ast.For, ast.While)) for a in P.ancestors(frame_pops[0]) if a is not fn) if frame_pops else False
    ctx.ob("C11.R3", f"{RT}::pop_thread_bindings::one-frame", RT, fn.lineno, ok, "" if ok else "pop_thread_bindings does not pop exactly one frame")
    fors = [n for n in P.walk_local(fn) if isinstance(n, ast.For)]
    ok = False
    why = "no loop popping each Var of the frame"
    for f in fors:
        body_calls = [c for s in f.body for c in P.calls(s)]
        tgt = P.un(f.target)
        src_names = P.names_read(f.iter)
        frame_var = {P.un(t) for a in P.walk_local(fn) if isinstance(a, ast.Assign) and any(x in frame_pops for x in P.calls(a.value)) for t in a.targets}
        pops = [c for c in body_calls if P.un(c.func) == f"{tgt}.pop_bindings"]
        if len(pops) == 1 and (src_names & frame_var) and not any(isinstance(a, (ast.For, ast.While)) for a in P.ancestors(pops[0]) if a is not f and P.contains(f, a)):
            ok, why = True, ""
            # one Var that cannot be popped (re-defined as non-dynamic inside the form) must not keep
            # the rest of the frame bound: the pop sits in a try whose handler lets the loop go on
            handlers = [h for a in P.ancestors(pops[0]) if isinstance(a, ast.Try) and P.contains(f, a) and any(P.contains(s, pops[0]) or s is P.stmt_of(pops[0]) for s in a.body) for h in a.handlers]
            goes_on = bool(handlers) and all(not any(isinstance(x, (ast.Raise, ast.Break, ast.Return)) for s in h.body for x in ast.walk(s)) for h in handlers)
            ctx.ob("C11.R3", f"{RT}::pop_thread_bindings::a Var that cannot be popped does not keep the others bound", RT, f.lineno, goes_on,
                   "" if goes_on else "the loop over the frame's Vars is abandoned at the first pop that raises: the Vars after it stay thread-bound after the binding form has been left",
                   witness="(binding [*x* 1 *y* 2 *z* 3] (eval '(def *y* :redefined))) leaves *x* or *z* thread-bound for good")
    ctx.ob("C11.R3", f"{RT}::pop_thread_bindings::pop-each-var-once", RT, fn.lineno, ok, why)
    tree = ctx.py(RT)
    tb = P.find_def(tree, "_ThreadBindings")
    if tb is None:
        raise AnalysisError("anchor vanished: _ThreadBindings")
    ms = P.methods(tb)
    push, pop = ms.get("push_bindings"), ms.get("pop_bindings")
    ptxt = [P.un(s) for s in push.body] if push else []
    ok = ptxt.count("self._bindings = self._bindings.cons(frame)") == 1 and not any(t.startswith("self._bindings =") and t != "self._bindings = self._bindings.cons(frame)" for t in ptxt)
    ctx.ob("C11.R3", f"{RT}::_ThreadBindings.push_bindings::{' ; '.join(ptxt)}", RT, push.lineno if push else tb.lineno, ok, "" if ok else "frame push is not a cons onto the frame stack")
    qtxt = [P.un(s) for s in pop.body] if pop else []
    ok = "frame = self._bindings.peek()" in qtxt and "self._bindings = self._bindings.pop()" in qtxt and qtxt.index("frame = self._bindings.peek()") < qtxt.index("self._bindings = self._bindings.pop()") and qtxt[-1] == "return frame"
    ctx.ob("C11.R3", f"{RT}::_ThreadBindings.pop_bindings::{' ; '.join(qtxt)}", RT, pop.lineno if pop else tb.lineno, ok, "" if ok else "frame pop is not peek-then-pop of the same stack")
    var = P.find_def(tree, "Var")
    vm = P.methods(var)
    a = [P.un(s) for s in vm["push_bindings"].body if not isinstance(s, ast.If)]
    b = [P.un(s) for s in vm["pop_bindings"].body if not isinstance(s, ast.If)]
    ok = a[-1] == "self._tl.bindings.append(val)" and b[-1] == "return self._tl.bindings.pop()"
    ctx.ob("C11.R3", f"{RT}::Var.push_bindings/pop_bindings::append/pop", RT, vm["push_bindings"].lineno, ok, "" if ok else "Var.push_bindings / pop_bindings are not append / pop of the same thread-local stack")
    # validation precedes the append (a rejected value is never visible)
    pb = vm["push_bindings"]
    g = CFG(pb)
    app = [nd for nd in g.nodes if nd.kind == "stmt" and "bindings.append" in P.un(nd.ast)]
    val = [nd for nd in g.nodes if nd.kind == "stmt" and "self._validate(" in P.un(nd.ast)]
    ok = bool(app) and all(g.dominated(x, val) for x in app)
    ctx.ob("C11.R3", f"{RT}::Var.push_bindings::validate-before-append", RT, pb.lineno, ok, "" if ok else "a value can be pushed without validation")


@rule("C11.R4", floor=5)
def r4_storage_is_thread_local(ctx):
    """_VarBindings and _ThreadBindings subclass threading.local and create their containers in
    __init__ (no class-level mutable default); Var.value and set_value consult the thread-local
    stack before the root."""
    tree = ctx.py(RT)
    for cname, field in (("_VarBindings", "bindings"), ("_ThreadBindings", "_bindings")):
        cls = P.find_def(tree, cname)
        if cls is None:
            raise AnalysisError(f"anchor vanished: {cname}")
        ok = any(P.un(b) in ("threading.local", "local") for b in cls.bases)
        ctx.ob("C11.R4", f"{RT}::{cname}::subclasses threading.local", RT, cls.lineno, ok, "" if ok else f"{cname} is no longer a threading.local: bindings become visible to every thread")
        class_level = [n for n in cls.body if isinstance(n, (ast.Assign, ast.AnnAssign)) and getattr(n, "value", None) is not None]
        init = P.methods(cls).get("__init__")
        in_init = init is not None and any(a == field for _s, a in P.self_attr_stores(init))
        ok = in_init and not class_level
        ctx.ob("C11.R4", f"{RT}::{cname}::container created per thread in __init__", RT, cls.lineno, ok,
               "" if ok else f"{cname}.{field} is not created in __init__ (class-level attribute is shared by all threads)")
    var = P.find_def(tree, "Var")
    vm = P.methods(var)
    for s, a in P.self_attr_stores(vm["__init__"]):
        if a == "_tl":
            pass
    tl_ok = any(a == "_tl" and "_VarBindings()" in P.un(s) for m in P.all_methods(var) for s, a in P.self_attr_stores(m))
    ctx.ob("C11.R4", f"{RT}::Var::_tl is a _VarBindings per Var", RT, var.lineno, tl_ok, "" if tl_ok else "Var._tl is not a fresh _VarBindings()")
    # value getter: thread-local binding first
    getter = next((m for m in P.all_methods(var) if m.name == "value" and "property" in P.decorators(m)), None)
    if getter is None:
        raise AnalysisError("anchor vanished: Var.value")
    g = CFG(getter)
    root_ret = [nd for nd in g.nodes if nd.kind == "stmt" and isinstance(nd.ast, ast.Return) and "self._root" in P.un(nd.ast)]
    tl_ret = [nd for nd in g.nodes if nd.kind == "stmt" and isinstance(nd.ast, ast.Return) and "_tl.bindings[-1]" in P.un(nd.ast)]
    def dyn_and_bound_false(a, b, lab):
        return a.kind == "test" and lab is False and ("self._dynamic" in P.un(a.ast) or "_tl.bindings" in P.un(a.ast))
    ok = bool(tl_ret) and bool(root_ret) and all(g.edge_dominated(r, dyn_and_bound_false) for r in root_ret)
    ctx.ob("C11.R4", f"{RT}::Var.value::thread binding shadows root", RT, getter.lineno, ok, "" if ok else "Var.value can return the root although a thread binding exists (or never returns the binding)")
    sv = vm.get("set_value")
    stores_tl = [s for s in ast.walk(sv) if isinstance(s, ast.Assign) and "_tl.bindings[-1]" in P.un(s.targets[0])]
    g = CFG(sv)
    root_set = [nd for nd in g.nodes if nd.kind == "stmt" and "_set_root(" in P.un(nd.ast)]
    def not_dyn(a, b, lab):
        return a.kind == "test" and lab is False and "self._dynamic" in P.un(a.ast)
    ok = bool(stores_tl) and bool(root_set) and all(g.edge_dominated(r, not_dyn) for r in root_set)
    ctx.ob("C11.R4", f"{RT}::Var.set_value::set! changes the innermost thread binding only", RT, sv.lineno, ok, "" if ok else "set_value can change the root of a dynamic Var or no longer assigns bindings[-1]")


@rule("C11.R5", floor=3)
def r5_conveyance(ctx):
    """Every thread-submission site in core.lpy (.submit / threading/Thread) passes a callable
    wrapped in bound-fn* (or is the tap thread, which runs no user binding scope); bound-fn*
    snapshots get-thread-bindings outside the function it returns and re-installs it via
    with-bindings*."""
    forms = ctx.lisp(CORE)
    for top in forms:
        for f in L.walk(top):
            h = L.head(f)
            if h == ".submit":
                arg = f.items[2] if len(f.items) > 2 else None
                ok = arg is not None and L.head(arg) == "bound-fn*"
                d = next((a for a in L.ancestors(f) if L.head(a) in ("defn", "defmacro")), None)
                ctx.ob("C11.R5", f"{CORE}::{d.items[1].val if d else '<top>'}::{f.text()}", CORE, f.line, ok,
                       "" if ok else "work is submitted to the pool without bound-fn*: the worker does not see the submitter's bindings")
            elif h == "threading/Thread":
                d = next((a for a in L.ancestors(f) if L.head(a) in ("defn", "defmacro", "defonce", "def")), None)
                dn = d.items[1].val if d is not None and isinstance(d.items[1], L.Sym) else "<top>"
                tgt = None
                for i, x in enumerate(f.items):
                    if isinstance(x, L.Kw) and x.val == "target":
                        tgt = f.items[i + 1]
                ok = (tgt is not None and L.head(tgt) == "bound-fn*") or dn == "tap-thread"
                ctx.ob("C11.R5", f"{CORE}::{dn}::threading/Thread", CORE, f.line, ok,
                       ("exempt: the tap thread delivers values to taps and runs no user binding scope" if dn == "tap-thread" else "") if ok else "thread target is not wrapped in bound-fn*")
    defs = L.top_defs(forms)
    bf = defs.get("bound-fn*")
    # the real definition is the later (defn bound-fn* ...) ; top_defs keeps the last
    if bf is None or L.head(bf) != "defn":
        raise AnalysisError("anchor vanished: core.lpy::bound-fn*")
    params, body = L.fn_arities(bf)[0]
    letf = body[-1]
    ok = False
    why = "bound-fn* is not (let [b (get-thread-bindings)] (fn [& args] (apply with-bindings* b f args)))"
    if L.head(letf) in ("let", "let*"):
        b = letf.items[1].items
        snap = [k.val for k, v in zip(b[0::2], b[1::2]) if L.head(v) == "get-thread-bindings"]
        inner = letf.items[-1]
        if snap and L.head(inner) in ("fn", "fn*"):
            inner_txt = inner.text()
            no_resnap = not any(L.head(x) == "get-thread-bindings" for x in L.walk(inner))
            uses = any(L.head(x) == "apply" and len(x.items) >= 4 and L.is_sym(x.items[1], "with-bindings*") and L.is_sym(x.items[2], snap[0]) and L.is_sym(x.items[3], params.items[0].val) for x in L.walk(inner))
            ok = no_resnap and uses
            if not no_resnap:
                why = "bound-fn* takes the snapshot inside the returned fn: it would capture the worker thread's bindings"
            _ = inner_txt
    ctx.ob("C11.R5", f"{CORE}::bound-fn*::snapshot outside, reinstall inside", CORE, bf.line, ok, "" if ok else why)
    # future-call / pmap route through future
    for name in ("future-call", "pmap"):
        d = defs.get(name)
        if d is None:
            raise AnalysisError(f"anchor vanished: core.lpy::{name}")
    # `future` captures the bindings of the thread that evaluates it.  Inside a lazy-seq that is
    # whichever thread realizes the seq, whenever it does -- so in a function that returns a lazy seq
    # (pmap, and pcalls / pvalues through it) every future form and every read of a dynamic Var
    # sits outside the lazy-seq, or inside a function wrapped by bound-fn* outside of it
    pm = defs["pmap"]
    sites = []
    for f in L.walk(pm):
        is_future = L.head(f) in ("future", "future-call") or (isinstance(f, L.FnLit) and bool(f.items) and (L.is_sym(f.items[0], "future") or L.is_sym(f.items[0], "future-call")))
        is_dyn =isinstance(f, L.Sym) and f.val == "*pmap-cpu-count*"
        if not (is_future or is_dyn):
            continue
        anc = list(L.ancestors(f))
        lazy = next((a for a in anc if L.head(a) == "lazy-seq"), None)
        if lazy is None:
            # a local helper function is where its *callers* are: (let [spawn (fn ...)] ... (lazy-seq ... (spawn ...)))
            helper = next((a for a in anc if L.head(a) in ("fn", "fn*") and isinstance(a.parent, L.Vec) and L.head(a.parent.parent) in ("let", "let*", "letfn")), None)
            called_lazily = False
            if helper is not None:
                vec = helper.parent
                k = next(i for i, x in enumerate(vec.items) if x is helper)
                nm = vec.items[k - 1].val if k % 2 == 1 and isinstance(vec.items[k - 1], L.Sym) else None
                if nm is not None:
                    called_lazily = any(isinstance(u, L.Sym) and u.val == nm and u is not vec.items[k - 1] and any(L.head(a) == "lazy-seq" for a in L.ancestors(u)) for u in L.walk(vec.parent))
            if not called_lazily:
                sites.append((f, True, ""))
                continue
            what = "a future is created" if is_future else "*pmap-cpu-count* is read"
            sites.append((f, False, f"{what} in a local function that is called from inside the lazy-seq and is not wrapped in bound-fn*: it runs in whichever thread first realizes the seq, with that thread's bindings, not where pmap was called"))
            continue
        # conveyed: an enclosing fn that is the argument of bound-fn*, the bound-fn* call itself outside any lazy-seq
        conveyed = False
        for a in anc:
            if L.head(a) == "bound-fn*" and not any(L.head(x) == "lazy-seq" for x in L.ancestors(a)):
                conveyed = True
                break
            if L.head(a) == "bound-fn" and not any(L.head(x) == "lazy-seq" for x in L.ancestors(a)):
                conveyed = True
                break
        what = "a future is created" if is_future else "*pmap-cpu-count* is read"
        sites.append((f, conveyed, "" if conveyed else f"{what} inside the lazy-seq: it happens in whichever thread first realizes the seq, with that thread's bindings, not where pmap was called"))
    if not any(L.head(f) in ("future", "future-call") for f, _ok, _w in sites):
        raise AnalysisError("pmap no longer creates futures in a recognised way")
    for i, (f, ok, why) in enumerate(sites):
        ar = next((k for k, (p, b) in enumerate(L.fn_arities(pm)) if any(x is f for bb in b for x in L.walk(bb))), 0)
        ctx.ob("C11.R5", f"{CORE}::pmap[arity {ar}]::{f.text()[:40]} #{sum(1 for g, _o, _w in sites[:i] if g.text() == f.text())}", CORE, f.line, ok, why,
               witness="(let [s (binding [*d* :bound] (pmap (fn [x] [x *d*]) [1 2 3]))] (vec s)) => [[1 :root] ...]")
    # get_thread_bindings reads every frame
    gtb = _fn(ctx, "get_thread_bindings")
    ok = any(isinstance(n, ast.For) and "_THREAD_BINDINGS.get_bindings()" in P.un(n.iter) for n in ast.walk(gtb)) and "var.value" in P.un(gtb)
    ctx.ob("C11.R5", f"{RT}::get_thread_bindings::all frames, current values", RT, gtb.lineno, ok, "" if ok else "get_thread_bindings does not collect the current value of every Var of every frame")
    # every answer is computed from the live values: no return bypasses the frame loop (a cached
    # snapshot would not see a set! made after it was taken, since set! does not touch the frame stack)
    g = CFG(gtb)
    loops = [nd for nd in g.nodes if nd.kind == "iter" and "_THREAD_BINDINGS.get_bindings()" in P.un(nd.ast.iter)]
    rets = [nd for nd in g.nodes if nd.kind == "stmt" and isinstance(nd.ast, ast.Return)]
    ok = bool(loops) and bool(rets) and all(g.dominated(r, loops) for r in rets)
    ctx.ob("C11.R5", f"{RT}::get_thread_bindings::no answer bypasses the live frame walk", RT, gtb.lineno, ok,
           "" if ok else "a return of get_thread_bindings is reachable without walking the frames: a stored snapshot is handed out, which misses a set! performed after it was taken, so work conveyed later runs with stale bindings")


@rule("C11.R6", floor=2)
def r6_binding_storage_outlives_redeclaration(ctx):
    """A Var's thread-local storage (`_tl`) holds the binding stacks of *every* thread.  It is created
    when the Var becomes dynamic and may be replaced only when the dynamic flag actually changes:
    re-evaluating (def ^:dynamic v ...) on one thread while another is inside (binding [v ...])
    must not throw that thread's stack away (its reads would fall back to the root and leaving its
    binding form would fail, stranding the other Vars of the frame).  No test of 'is this Var
    bound' can justify a replacement: such a test only sees the calling thread."""
    var = P.find_def(ctx.py(RT), "Var")
    if var is None:
        raise AnalysisError("anchor vanished: runtime.Var")
    n = 0
    for m in P.all_methods(var):
        stores = [(s, a) for s, a in P.self_attr_stores(m) if a == "_tl"]
        if not stores:
            continue
        if m.name == "__init__":
            n += 1
            ctx.ob("C11.R6", f"{RT}::Var.__init__::creates the binding storage", RT, m.lineno, True)
            continue
        g = CFG(m)
        for s, _a in stores:
            n += 1
            nodes = [nd for nd in g.nodes if nd.ast is s]

            def flag_changes(a, b, lab):
                if a.kind != "test" or not isinstance(a.ast, ast.Compare) or len(a.ast.ops) != 1:
                    return False
                sides = {P.un(a.ast.left), P.un(a.ast.comparators[0])}
                if sides != {"dynamic", "self._dynamic"}:
                    return False
                return (isinstance(a.ast.ops[0], (ast.Eq, ast.Is)) and lab is False) or (isinstance(a.ast.ops[0], (ast.NotEq, ast.IsNot)) and lab is True)
            ok = bool(nodes) and all(g.edge_dominated(nd, flag_changes) for nd in nodes)
            if not ok and isinstance(s.value, ast.Constant) and s.value.value is None:
                # dropping the storage of a Var that is being made non-dynamic loses nothing it could still use
                def not_dynamic(a, b, lab):
                    return a.kind == "test" and ((P.un(a.ast) == "dynamic" and lab is False) or (P.un(a.ast) == "not dynamic" and lab is True))
                ok = bool(nodes) and all(g.edge_dominated(nd, not_dynamic) for nd in nodes)
            ctx.ob("C11.R6", f"{RT}::Var.{m.name}::{P.un(s)} only when the dynamic flag changes", RT, s.lineno, ok,
                   "" if ok else f"Var.{m.name} can replace the thread-local binding storage although the Var stays dynamic: bindings other threads hold at that moment are lost",
                   witness="thread A inside (binding [*d* 1 *e* 2] ...), thread B re-evaluates (def ^:dynamic *d* 0): A reads the root, and leaving A's form raises IndexError with *e* still bound")
    if n == 0:
        raise AnalysisError("no store to Var._tl found")


_PUSH_FIXED = '''    pushed: list[Var] = []
    try:
        for var, val in m.items():
            if not var.dynamic:
                raise RuntimeException(
                    "cannot set thread-local bindings for non-dynamic Var"
                )
            var.push_bindings(val)
            pushed.append(var)
    except BaseException:
        for var in reversed(pushed):
            var.pop_bindings()
        raise
'''

SELFTEST = [
    {"name": "pop loop abandoned at the first failing Var (the repaired defect)", "file": RT, "expect": "C11.R3",
     "old": "        try:\n            var.pop_bindings()\n        except Exception as e:  # pylint: disable=broad-except\n            failure = failure or e\n", "new": "        var.pop_bindings()\n"},
    {"name": "runtime.bindings pushes inside the try whose finally pops (the repaired defect)", "file": RT, "expect": "C11.R1",
     "old": "    push_thread_bindings(m)\n    try:\n        yield\n", "new": "    try:\n        push_thread_bindings(m)\n        yield\n"},
    {"name": "pmap spawns its futures unconveyed inside the lazy-seq (the repaired defect)", "file": CORE, "expect": "C11.R5",
     "old": "         spawn      (bound-fn* (fn [chunk]\n                                 (mapv #(future (f %)) chunk)))", "new": "         spawn      (fn [chunk]\n                                 (mapv #(future (f %)) chunk))"},
    {"name": "pmap reads *pmap-cpu-count* where the seq is realized (the repaired defect)", "file": CORE, "expect": "C11.R5",
     "old": "                         (concat (map deref (spawn (take chunk-size coll)))\n                                 (step (drop chunk-size coll))))))]",
     "new": "                         (concat (map deref (spawn (take *pmap-cpu-count* coll)))\n                                 (step (drop *pmap-cpu-count* coll))))))]"},
    {"name": "binding: push moved inside the try", "file": CORE, "expect": "C11.R1",
     "old": "       (push-thread-bindings (hash-map ~@var-bindings))\n       (try\n         ~@body\n", "new": "       (try\n         (push-thread-bindings (hash-map ~@var-bindings))\n         ~@body\n"},
    {"name": "with-bindings*: finally dropped", "file": CORE, "expect": "C11.R1",
     "old": "  (push-thread-bindings bindings-map)\n  (try\n    (apply f args)\n    (finally\n      (pop-thread-bindings))))", "new": "  (push-thread-bindings bindings-map)\n  (let [r (apply f args)]\n    (pop-thread-bindings)\n    r))"},
    {"name": "binding: statement between push and try", "file": CORE, "expect": "C11.R1",
     "old": "       (push-thread-bindings (hash-map ~@var-bindings))\n       (try\n         ~@body\n", "new": "       (push-thread-bindings (hash-map ~@var-bindings))\n       (get-thread-bindings)\n       (try\n         ~@body\n"},
    {"name": "push: compensation removed (the repaired defect)", "file": RT, "expect": "C11.R2",
     "old": "    except BaseException:\n        for var in reversed(pushed):\n            var.pop_bindings()\n        raise\n", "new": "    except BaseException:\n        raise\n"},
    {"name": "pop: only first var popped", "file": RT, "expect": "C11.R3",
     "old": "        except Exception as e:  # pylint: disable=broad-except\n            failure = failure or e\n", "new": "        except Exception as e:  # pylint: disable=broad-except\n            failure = failure or e\n            break\n"},
    {"name": "frame pop does not shrink the stack", "file": RT, "expect": "C11.R3",
     "old": "        frame = self._bindings.peek()\n        self._bindings = self._bindings.pop()\n", "new": "        frame = self._bindings.peek()\n"},
    {"name": "_VarBindings shared across threads", "file": RT, "expect": "C11.R4",
     "old": "class _VarBindings(threading.local):\n    def __init__(self):\n        self.bindings: list = []\n", "new": "class _VarBindings(threading.local):\n    bindings: list = []\n"},
    {"name": "_ThreadBindings not thread-local", "file": RT, "expect": "C11.R4",
     "old": "class _ThreadBindings(threading.local):", "new": "class _ThreadBindings:"},
    {"name": "future-call without conveyance", "file": CORE, "expect": "C11.R5",
     "old": "   (.submit pool (bound-fn* f))))", "new": "   (.submit pool f)))"},
    {"name": "bound-fn* snapshots in the worker", "file": CORE, "expect": "C11.R5",
     "old": "  (let [current-bindings (get-thread-bindings)]\n    (fn [& args]\n      (apply with-bindings* current-bindings f args))))", "new": "  (fn [& args]\n    (let [current-bindings (get-thread-bindings)]\n      (apply with-bindings* current-bindings f args))))"},
    # twins
    {"name": "twin: pre-validate then push", "file": RT, "expect": None,
     "old": _PUSH_FIXED, "new": "    pushed: list[Var] = []\n    try:\n        for var, val in m.items():\n            var.push_bindings(val)\n            pushed.append(var)\n    except Exception:\n        for var in reversed(pushed):\n            var.pop_bindings()\n        raise\n"},
    {"name": "twin: do-wrapped with-bindings*", "file": CORE, "expect": None,
     "old": "  (push-thread-bindings bindings-map)\n  (try\n    (apply f args)\n    (finally\n      (pop-thread-bindings))))", "new": "  (do\n    (push-thread-bindings bindings-map)\n    (try\n      (apply f args)\n      (finally\n        (pop-thread-bindings)))))"},
]
