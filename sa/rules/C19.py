"""C19 -- EDN, JSON and bencode codecs invert themselves and never mis-frame."""
from __future__ import annotations

import ast

from ..core import AnalysisError, rule
from .. import lispread as L
from .. import pyfacts as P

EDN = "src/basilisp/edn.lpy"
BEN = "src/basilisp/contrib/bencode.lpy"
RD = "src/basilisp/lang/reader.py"

EXPLANATION = (
    "Writer/reader table agreement for EDN (escape tables mutually inverse and within the Lisp reader's table; every character "
    "repr(float)/repr(int) can produce is accepted by the numeric reader branch; tag and ## constant tables agree) and a bounds "
    "discipline for bencode (raw slicing only inside the bounds-checked `slice`; every length-prefixed read goes through it; "
    "decode returns [nil original-data] on any failure; decode-all stops at the nil marker and hands back the remainder)."
)
DECIDES = "EDN escape/number/tag table agreement between writer and both readers; EDN token terminators within the Lisp reader's; bencode bounds-checked reads and incomplete-message protocol, dict-by-items and boolean-as-integer encoding; JSON encoder/decoder type tables agree (every domain type has an encoder, every encoder image a decoder, collection codecs recurse with the options)"
DECLINED = "the text level of JSON (Python's json module writes and parses it); value-level round trips"
TRUSTED = ["FT-repr: repr(float) uses only digits . - + e (and inf/nan, written separately); repr(int) only digits and -", "bytes.index raises ValueError when the byte is absent"]
ASSUMPTIONS = []
TECHNIQUE = "table agreement and access-path discipline over .lpy s-expressions (own reader)"

_UNESC = {"\\": "\\", '"': '"', "a": "\a", "b": "\b", "f": "\f", "n": "\n", "r": "\r", "t": "\t", "v": "\v"}


def _unescape(raw: str) -> str:
    out, i = [], 0
    while i < len(raw):
        if raw[i] == "\\" and i + 1 < len(raw):
            c = raw[i + 1]
            if c not in _UNESC:
                raise AnalysisError(f"unsupported escape \\{c} in a table string of edn.lpy")
            out.append(_UNESC[c]); i += 2
        else:
            out.append(raw[i]); i += 1
    return "".join(out)


def _def_value(defs, name, rel):
    d = defs.get(name)
    if d is None:
        raise AnalysisError(f"anchor vanished: {rel}::{name}")
    return d.items[-1], d


def _str_map(form) -> dict[str, str]:
    if isinstance(form, L.Tagged):
        form = form.form
    if not isinstance(form, L.Map):
        raise AnalysisError("expected a map literal of strings")
    out = {}
    for k, v in form.pairs():
        if not (isinstance(k, L.Str) and isinstance(v, L.Str)):
            raise AnalysisError(f"non-string table entry {k.text()} {v.text()}")
        out[_unescape(k.val)] = _unescape(v.val)
    return out


def _lisp_reader_table(ctx):
    v = P.module_assign(ctx.py(RD), "_STR_ESCAPE_CHARS")
    if not isinstance(v, ast.Dict):
        raise AnalysisError("anchor vanished: reader._STR_ESCAPE_CHARS")
    return {ast.literal_eval(k): ast.literal_eval(val) for k, val in zip(v.keys, v.values)}


@rule("C19.R1", floor=9)
def r1_edn_escape_tables_inverse(ctx):
    """The EDN writer's translation table composed with the EDN reader's escape table is the
    identity on the writer's domain, and every escape the writer emits is also in the Lisp
    reader's table with the same meaning."""
    defs = L.top_defs(ctx.lisp(EDN))
    wv, wd = _def_value(defs, "str-escape-chars-translation", EDN)
    if not (L.head(wv) == "python.str/maketrans" and len(wv.items) == 2):
        raise AnalysisError("str-escape-chars-translation is no longer (python.str/maketrans #py {...})")
    writer = _str_map(wv.items[1])
    rv, _rd = _def_value(defs, "str-escape-chars", EDN)
    reader = _str_map(rv)
    lisp = _lisp_reader_table(ctx)
    ctx.analysed["tables"].add(f"edn writer escapes {sorted(writer)}; edn reader {sorted(reader)}")
    for src, out in sorted(writer.items()):
        inst = f"{EDN}::writer {src!r} -> {out!r}"
        if not (len(out) == 2 and out[0] == "\\"):
            ctx.ob("C19.R1", inst, EDN, wd.line, False, "writer output is not backslash + one character")
            continue
        c = out[1]
        ok = reader.get(c) == src
        why = "" if ok else f"the EDN reader decodes \\{c} to {reader.get(c)!r}, not {src!r}"
        if ok and lisp.get(c) != src:
            ok, why = False, f"the Lisp reader decodes \\{c} to {lisp.get(c)!r}, not {src!r} (EDN output must read back through the Lisp reader alike)"
        ctx.ob("C19.R1", inst, EDN, wd.line, ok, why)
    for need in ('"', "\\"):
        ok = need in writer
        ctx.ob("C19.R1", f"{EDN}::writer escapes {need!r}", EDN, wd.line, ok, "" if ok else f"{need!r} is written bare inside a string literal")
    # the writer applies the table
    wr = [f for top in ctx.lisp(EDN) for f in L.walk(top) if L.head(f) == ".translate"]
    ok = any(L.is_sym(f.items[-1], "str-escape-chars-translation") for f in wr)
    ctx.ob("C19.R1", f"{EDN}::python/str write* applies the translation table", EDN, wr[0].line if wr else wd.line, ok, "" if ok else "strings are written without the escape translation")


def _numeric_method(ctx):
    for top in ctx.lisp(EDN):
        if L.head(top) == "defmethod" and len(top.items) > 2 and L.is_sym(top.items[1], "read-sym-or-num") and isinstance(top.items[2], L.Kw) and top.items[2].val == "numeric":
            return top
    raise AnalysisError("anchor vanished: edn.lpy (defmethod read-sym-or-num :numeric)")


@rule("C19.R2", floor=5)
def r2_edn_numeric_alphabet(ctx):
    """Every character the EDN writer can emit for an int or float (repr: digits . - + e) is
    accepted by a non-throwing clause of the :numeric reader branch."""
    m = _numeric_method(ctx)
    conds = [f for f in L.walk(m) if L.head(f) == "cond"]
    if not conds:
        raise AnalysisError("the :numeric reader is no longer a cond over the peeked character")
    accepted = set()
    cond = conds[0]
    clauses = list(zip(cond.items[1::2], cond.items[2::2]))
    for test, body in clauses:
        throws = L.head(body) == "throw"
        for f in L.walk(test):
            if L.head(f) == "=" and len(f.items) == 3:
                a, b = f.items[1], f.items[2]
                lit = b if isinstance(b, L.Str) else a if isinstance(a, L.Str) else None
                other = a if lit is b else b
                if lit is not None and L.is_sym(other, "c") and not throws:
                    accepted.add(_unescape(lit.val))
            if L.head(f) == "re-matches" and L.is_sym(f.items[1], "num-chars") and not throws:
                accepted |= set("0123456789")
            if L.head(f) == "contains?" and isinstance(f.items[1], L.Set) and L.is_sym(f.items[2], "c") and not throws:
                accepted |= {_unescape(x.val) for x in f.items[1].items if isinstance(x, L.Str)}
    ctx.analysed["tables"].add(f"edn numeric reader accepts {sorted(accepted)}")
    for ch, what in (("0", "digits"), ("-", "sign / negative exponent"), (".", "decimal point"), ("e", "exponent marker of repr(float), e.g. 1.5e-07"), ("+", "positive exponent sign of repr(float), e.g. 1e+16")):
        ok = ch in accepted
        ctx.ob("C19.R2", f"{EDN}::numeric reader accepts {ch!r} ({what})", EDN, m.line, ok,
               "" if ok else f"the writer emits {ch!r} in numbers ({what}) but the numeric reader stops there: the rest of the literal is dropped or mis-read",
               witness="(edn/read-string (edn/write-string 1.5e-7)) => 1.5")
    # conversion: float / int of the collected text
    txt = m.text()
    ok = "(python/float num)" in txt and "(python/int num)" in txt
    ctx.ob("C19.R2", f"{EDN}::numeric reader converts the token text with python/float / python/int", EDN, m.line, ok, "" if ok else "numbers are not converted from the collected token text")
    # writer side uses repr
    fw = [top for top in ctx.lisp(EDN) if L.head(top) == "extend-protocol"]
    ok = any("(python/repr this)" in t.text() for t in fw)
    ctx.ob("C19.R2", f"{EDN}::writer prints numbers with python/repr", EDN, fw[0].line if fw else 0, ok, "" if ok else "the EDN writer no longer prints numbers with repr")


@rule("C19.R3", floor=5)
def r3_edn_tag_tables(ctx):
    """Tags and ## constants written by the EDN writer have entries in default-edn-data-readers /
    numeric-constants."""
    defs = L.top_defs(ctx.lisp(EDN))
    rv, rd = _def_value(defs, "default-edn-data-readers", EDN)
    tags = {k.form.val for k, _v in rv.pairs() if isinstance(k, L.Wrap) and k.tag == "quote"} if isinstance(rv, L.Map) else set()
    nv, _nd = _def_value(defs, "numeric-constants", EDN)
    consts = {k.form.val for k, _v in nv.pairs() if isinstance(k, L.Wrap) and k.tag == "quote"} if isinstance(nv, L.Map) else set()
    written = set()
    for top in ctx.lisp(EDN):
        if L.head(top) != "extend-protocol":
            continue
        for f in L.walk(top):
            if isinstance(f, L.Str) and f.val.startswith("#"):
                written.add(_unescape(f.val))
    if not written:
        raise AnalysisError("no # prefixes found in the EDN writer")
    for w in sorted(written):
        if w.startswith("##"):
            ok = w[2:] in consts
            why = f"{w} is written but numeric-constants has no {w[2:]}"
        elif w.startswith("#{"):
            ok, why = True, ""
        else:
            tag = w[1:].split(" ")[0].split('"')[0]
            ok = tag in tags
            why = f"#{tag} is written but default-edn-data-readers has no reader for it"
        ctx.ob("C19.R3", f"{EDN}::writer emits {w!r}", EDN, rd.line, ok, "" if ok else why)


@rule("C19.R5", floor=3)
def r5_edn_writer_visits_every_element(ctx):
    """The EDN collection writers iterate (seq coll) with doseq / map-indexed and never decide
    whether there is something to write by the truth value of an element ((when-let [v (first e)]
    ...)): nil and false are legitimate first elements."""
    forms = ctx.lisp(EDN)
    targets = []
    defs = L.top_defs(forms)
    ws = defs.get("write-seq")
    if ws is None:
        raise AnalysisError("anchor vanished: edn.lpy::write-seq")
    targets.append(("write-seq", ws))
    for top in forms:
        if L.head(top) == "extend-protocol" and len(top.items) > 1 and L.is_sym(top.items[1], "EDNEncodeable"):
            targets.append(("extend-protocol EDNEncodeable", top))
    for name, t in targets:
        bad = []
        for f in L.walk(t):
            h = L.head(f)
            if h in ("when-let", "if-let") and isinstance(f.items[1], L.Vec) and len(f.items[1].items) >= 2 and L.head(f.items[1].items[1]) in ("first", "second", "peek", "nth", "last"):
                bad.append(f"`({h} {f.items[1].text()} ...)`")
            if h in ("when", "if") and len(f.items) > 1 and L.head(f.items[1]) in ("first", "second", "peek", "last"):
                bad.append(f"`({h} {f.items[1].text()} ...)`")
        ctx.ob("C19.R5", f"{EDN}::{name}::no element used as a truth value", EDN, t.line, not bad, "" if not bad else f"{bad[0]} tests an element: a collection starting with nil or false is written as empty")
    ok = any(L.head(f) == "doseq" for f in L.walk(ws)) and "(seq e)" in ws.text()
    ctx.ob("C19.R5", f"{EDN}::write-seq::iterates (seq e) with doseq", EDN, ws.line, ok, "" if ok else "write-seq no longer walks every element of the collection")


JSON = "src/basilisp/json.lpy"
# the property's JSON domain -> the host type json.dumps receives for it
JSON_DOMAIN = {
    "python/str": "str", "python/int": "int", "python/float": "float", "python/bool": "bool", "nil": "nil",
    "basilisp.lang.interfaces/IPersistentMap": None, "basilisp.lang.interfaces/IPersistentVector": None,
}


def _json_image(defs, fn_form):
    """Host type produced by an encoder function: read off the last form of its body."""
    if isinstance(fn_form, L.Sym):
        d = defs.get(fn_form.val)
        if d is None:
            return None
        ar = L.fn_arities(d)
    else:
        ar = L.fn_arities(fn_form) if L.head(fn_form) in ("fn", "fn*") else []
    if not ar:
        return None
    params, body = ar[0]
    last = body[-1]
    if isinstance(last, L.Sym) and params.items and last.val == params.items[0].text():
        return "same"
    if L.head(last) in ("->>", "->"):
        last = last.items[-1]
    h = L.head(last) if isinstance(last, L.List) else (last.val if isinstance(last, L.Sym) else None)
    if h in ("python/dict",):
        return "dict"
    if h in ("python/list",):
        return "list"
    if h in ("python/str", "str", "name", ".isoformat", "if-let"):
        return "str"
    if h is not None and h.startswith("python/"):
        return h[len("python/"):]
    if h is not None and defs.get(h) is not None:
        return _json_image(defs, L.Sym(h, 0, 0))
    return None


@rule("C19.R6", floor=12)
def r6_json_tables_agree(ctx):
    """JSON: every type of the property's domain (maps, vectors, strings, ints, floats, booleans,
    nil) has an encoder entry; the host type each encoder produces (dict / list / the scalar
    itself / str) has a decoder entry; both collection encoders and both collection decoders
    recurse into their members with the same options; the decoders build a map and a vector."""
    forms = ctx.lisp(JSON)
    defs = L.top_defs(forms)
    enc, dec = {}, {}
    for top in forms:
        if L.head(top) == "extend" and len(top.items) >= 4:
            typ, proto, impl = top.items[1], top.items[2], top.items[3]
            if isinstance(impl, L.Map) and impl.pairs():
                fn = impl.pairs()[0][1]
                (enc if L.is_sym(proto, "JSONEncodeable") else dec if L.is_sym(proto, "JSONDecodeable") else {})[typ.text()] = (fn, top)
        if L.head(top) == "extend-protocol" and len(top.items) > 2 and L.is_sym(top.items[1], "JSONDecodeable"):
            cur = None
            for it in top.items[2:]:
                if isinstance(it, L.Sym):
                    cur = it.text()
                elif cur is not None:
                    dec[cur] = (it, top)
    if not enc or not dec:
        raise AnalysisError("anchor vanished: json.lpy encoder/decoder tables")
    dec_types = {k.replace("python/", "") for k in dec}
    for typ in sorted(JSON_DOMAIN):
        ok = typ in enc
        ctx.ob("C19.R6", f"{JSON}::encoder for {typ}", JSON, enc[typ][1].line if ok else 0, ok, "" if ok else f"{typ} values can no longer be written as JSON")
    for typ, (fn, top) in sorted(enc.items()):
        img = _json_image(defs, fn)
        if img is None:
            raise AnalysisError(f"C19.R6: cannot tell what the JSON encoder for {typ} produces ({fn.text()[:60]})")
        if img == "same":
            img = JSON_DOMAIN.get(typ) or typ.replace("python/", "")
        ok = img in dec_types or (img == "bool" and "int" in dec_types)  # bool is a subclass of int: protocol dispatch follows the MRO
        ctx.ob("C19.R6", f"{JSON}::{typ} is written as {img}, which the decoder table handles", JSON, top.line, ok,
               "" if ok else f"{typ} is encoded as a host {img}, for which JSONDecodeable has no entry: reading the written text back fails")
    for name, what in (("seq-to-encodeable", "to-json-encodeable*"),):
        d = defs.get(name)
        if d is None:
            raise AnalysisError(f"anchor vanished: json.lpy::{name}")
        ok = any(L.head(f) == what or (isinstance(f, L.FnLit) and f.items and L.is_sym(f.items[0], what)) for f in L.walk(d)) and "opts" in d.text()
        ctx.ob("C19.R6", f"{JSON}::{name} encodes every member with the same options", JSON, d.line, ok, "" if ok else "nested members are handed to json unencoded / without the caller's options")
    for typ, builders, kind in (("python/dict", ("hash-map", "array-map", "zipmap", "{}"), "map"), ("python/list", ("vec", "vector", "mapv", "[]"), "vector")):
        if typ not in dec:
            continue
        f, top = dec[typ]
        calls = [x for x in L.walk(f) if x is not f and (L.head(x) == "from-decoded-json*" or (isinstance(x, L.FnLit) and x.items and L.is_sym(x.items[0], "from-decoded-json*")))]
        rec = bool(calls) and all(len(x.items) == 3 and x.items[2].text() == "opts" for x in calls)
        ctx.ob("C19.R6", f"{JSON}::decoder for {typ} recurses into its members", JSON, f.line, rec, "" if rec else f"members of a decoded {typ} stay host objects (or lose the options): nested arrays/objects do not read back as vectors/maps")
        ok = any((isinstance(x, L.Sym) and x.val in builders) or (isinstance(x, (L.Map, L.Vec)) and x.text() in builders) for x in L.walk(f))
        ctx.ob("C19.R6", f"{JSON}::decoder for {typ} builds a {kind}", JSON, f.line, ok, "" if ok else f"a decoded {typ} is not turned into a Basilisp {kind}")
    mt = defs.get("map-to-encodeable")
    ok = mt is not None and "(key-fn k)" in mt.text()
    ctx.ob("C19.R6", f"{JSON}::map-to-encodeable applies key-fn to every key", JSON, getattr(mt, "line", 0), ok, "" if ok else "map keys are not coerced with key-fn: keyword keys cannot be written")


def _ben_defs(ctx):
    return L.top_defs(ctx.lisp(BEN))


@rule("C19.R4", floor=8)
def r4_bencode_bounds_discipline(ctx):
    """Raw slicing of the input happens only inside `slice`, which compares the requested bounds with
    (len bytes) and throws; the decoders read the input only through slice / index-of; decode
    answers [nil data] with the *original* data on any exception; decode-all stops at the nil
    marker and returns the undecoded remainder."""
    forms = ctx.lisp(BEN)
    defs = _ben_defs(ctx)
    sl = defs.get("slice")
    if sl is None:
        raise AnalysisError("anchor vanished: bencode.lpy::slice")
    # (a) python/slice only inside slice
    for top in forms:
        for f in L.walk(top):
            if L.is_sym(f, "python/slice"):
                inside = any(a is sl for a in L.ancestors(f))
                ctx.ob("C19.R4", f"{BEN}::python/slice used in {'slice' if inside else (L.head(top) or '?') + ' ' + (top.items[1].text() if len(top.items) > 1 else '')}", BEN, f.line, inside,
                       "" if inside else "the input is sliced outside the bounds-checked helper: a truncated message yields a short slice instead of an error")
    # (b) slice checks bounds before slicing
    for params, body in L.fn_arities(sl):
        n = len(params.items)
        b = body[-1]
        ok = False
        if L.head(b) == "if" and len(b.items) == 4:
            test, thn, els = b.items[1:]
            ttxt = test.text()
            if n == 2:
                ok = "(len bytes)" in ttxt and "start" in ttxt and L.head(thn) == "throw" and L.head(els) == "slice"
            else:
                ok = "(> end (len bytes))" in ttxt and L.head(thn) == "throw" and "python/slice" in els.text()
        ctx.ob("C19.R4", f"{BEN}::slice/{n}::bounds test precedes the slice", BEN, b.line, ok, "" if ok else "slice no longer rejects an out-of-bounds request before slicing")
    # (c) decoders touch `data` only through slice / index-of / decode* / recursion
    for name in ("decode-int", "decode-byte-string", "decode-list", "decode-dict", "decode*"):
        d = defs.get(name)
        if d is None:
            raise AnalysisError(f"anchor vanished: bencode.lpy::{name}")
        bad = []
        for f in L.walk(d):
            h = L.head(f)
            if h in ("get", "nth", "aget", "subvec", "first", "rest", "next", "take", "drop", ".__getitem__", "python/bytes", "subs") and any(L.is_sym(x, "data") for x in f.items[1:]):
                bad.append(f.text())
        ctx.ob("C19.R4", f"{BEN}::{name}::input read only through slice/index-of", BEN, d.line, not bad, "" if not bad else f"`{bad[0]}` reads the input without a bounds check")
    # (d) length-prefixed read: same n for payload and remainder
    bs = defs["decode-byte-string"]
    t = bs.text()
    ok = False
    for lt in L.walk(bs):
        if L.head(lt) in ("let", "let*") and len(lt.items) > 2 and isinstance(lt.items[1], L.Vec):
            binds = list(zip(lt.items[1].items[0::2], lt.items[1].items[1::2]))
            # the names are the function's own: position of the colon, declared length, rest after the colon
            for nm_i, init_i in binds:
                if L.head(init_i) != "index-of" or len(init_i.items) < 2:
                    continue
                d0, i_ = init_i.items[1].text(), nm_i.text()
                n_ = next((nm.text() for nm, init in binds if init.text() == f"(int (slice {d0} 0 {i_}))"), None)
                d1 = next((nm.text() for nm, init in binds if init.text() == f"(slice {d0} (inc {i_}))"), None)
                if n_ and d1:
                    body_t = " ".join(b.text() for b in lt.items[2:])
                    ok = ok or (f"(slice {d1} 0 {n_})" in body_t and f"(slice {d1} {n_})" in body_t)
    ctx.ob("C19.R4", f"{BEN}::decode-byte-string::payload (slice data 0 n), remainder (slice data n)", BEN, bs.line, ok, "" if ok else "payload and remainder are not cut at the same declared length")
    # (d') an empty payload is only ever produced for a declared length of zero: a literal empty byte string
    # (or an `or` fallback around the payload slice) anywhere else turns "the payload has not arrived yet"
    # into a complete, empty message
    empties = [f for f in L.walk(bs) if f.text() in ('#b ""', "#b \"\"")]
    for ei, e in enumerate(empties):
        guarded = False
        node = e
        for a in L.ancestors(e):
            if L.head(a) == "if" and len(a.items) >= 3 and a.items[1].text() in ("(= n 0)", "(= 0 n)", "(zero? n)") and any(x is node or x is e for x in L.walk(a.items[2])):
                guarded = True
            node = a
        ctx.ob("C19.R4", f"{BEN}::decode-byte-string::empty payload only for length 0 (#{ei + 1})", BEN, e.line, guarded,
               "" if guarded else "an empty byte string is produced without the declared length being 0: a chunk that ends right after the `:` of `4:` is decoded as a complete empty string and the length prefix is lost",
               witness="(decode-all #b \"i1e4:\" {}) must return [[1] #b \"4:\"]")
    fallback = [f for f in L.walk(bs) if L.head(f) == "or" and any("slice" in x.text() for x in f.items[1:2])]
    ctx.ob("C19.R4", f"{BEN}::decode-byte-string::the payload slice has no fallback value", BEN, bs.line, not fallback,
           "" if not fallback else f"`{fallback[0].text()[:60]}` substitutes a value when the payload is missing")
    # (e) decode: try decode* catch everything -> [nil data] with the parameter
    dc = defs.get("decode")
    params, body = L.fn_arities(dc)[0]
    dparam = params.items[0].text()
    tries = [f for f in L.walk(body[-1]) if L.head(f) == "try"]
    ok = False
    why = "decode no longer wraps decode* in (try ... (catch python/Exception _ [nil data]))"
    if tries:
        tr = tries[-1]
        catches = [c for c in tr.items if L.head(c) == "catch"]
        if catches and len(catches[0].items) >= 4:
            c = catches[0]
            ok = c.items[1].text() in ("python/Exception", "python/BaseException", "Exception") and c.items[-1].text() == f"[nil {dparam}]"
            rebound = [b for f in L.walk(dc) if L.head(f) in ("let", "let*") and any(x is tr for x in L.walk(f)) for b in f.items[1].items[0::2] if b.text() == dparam]
            if rebound:
                ok, why = False, "the data returned on failure is a rebound (partially consumed) value, not the caller's bytes"
            elif not ok:
                why = f"the catch clause `{c.text()}` does not answer [nil {dparam}] for every exception"
    ctx.ob("C19.R4", f"{BEN}::decode::incomplete or invalid input answers [nil data]", BEN, dc.line, ok, "" if ok else why)
    # (f) decode-all loop
    da = defs.get("decode-all")
    t = da.text()
    ok = "(let [[item data] (decode data opts)] (if (nil? item) [items data] (recur (conj items item) data)))" in t
    ctx.ob("C19.R4", f"{BEN}::decode-all::stop at the nil marker, return the remainder", BEN, da.line, ok, "" if ok else "decode-all does not stop at the first undecodable item or does not return the untouched remainder")


@rule("C19.R7", floor=6)
def r7_edn_token_terminators_agree_with_the_lisp_reader(ctx):
    """The EDN writer prints symbols and keywords verbatim, and both readers accept a token by the
    same identifier pattern -- so the two token scanners have to end a token at the same characters.
    A character that ends a token for the EDN reader but not for the Lisp reader splits a name the
    writer emits (and the Lisp reader reads whole) into two forms, silently."""
    defs = L.top_defs(ctx.lisp(EDN))
    val, d = _def_value(defs, "dispatch-chars", EDN)
    if not isinstance(val, L.Set) or not all(isinstance(x, L.Str) for x in val.items):
        raise AnalysisError("edn.lpy::dispatch-chars is not a set of one-character strings")
    edn_terms = {_unescape(x.val) for x in val.items}
    rn = defs.get("read-namespaced")
    if rn is None or not any(L.head(f) == "contains?" and len(f.items) == 3 and f.items[1].text() == "dispatch-chars" for f in L.walk(rn)):
        raise AnalysisError("edn.lpy::read-namespaced no longer ends a token at dispatch-chars")
    tree = ctx.py(RD)
    table = P.module_assign(tree, "_read_dispatch")
    if not isinstance(table, ast.Dict):
        raise AnalysisError("anchor vanished: reader._read_dispatch")
    lisp_terms = {ast.literal_eval(k) for k in table.keys} - {""}
    fn = ctx.fn(RD, "_read_namespaced")
    exempt = set()
    for c in ast.walk(fn):
        if isinstance(c, ast.Compare) and len(c.ops) == 1 and isinstance(c.ops[0], ast.NotIn) and isinstance(c.comparators[0], ast.Set):
            exempt |= {ast.literal_eval(e) for e in c.comparators[0].elts}
    if not any(isinstance(c, ast.Compare) and isinstance(c.ops[0], ast.In) and P.un(c.comparators[0]) == "_read_dispatch" for c in ast.walk(fn)):
        raise AnalysisError("reader._read_namespaced no longer ends a token at the keys of _read_dispatch")
    lisp_terms -= exempt
    for ch in sorted(edn_terms):
        ok = ch in lisp_terms
        ctx.ob("C19.R7", f"{EDN}::dispatch-chars::{ch!r} also ends a token for the Lisp reader", EDN, d.line, ok,
               "" if ok else f"{ch!r} ends a symbol or keyword for the EDN reader only: a name containing it, which the writer prints verbatim and the Lisp reader reads whole, comes back as two forms",
               witness="(edn/read-string (edn/write-string [:dc:title :x])) => [:dc :title :x]")


def _impl_for(forms, type_name):
    """The to-bencode-encodeable* method body registered for `type_name` in an extend-protocol form."""
    for top in forms:
        if L.head(top) != "extend-protocol":
            continue
        items = top.items[2:]
        for i, x in enumerate(items):
            if isinstance(x, L.Sym) and x.val == type_name:
                for y in items[i + 1:]:
                    if isinstance(y, L.List):
                        return y
                    break
    return None


@rule("C19.R8", floor=3)
def r8_bencode_encoders_match_their_types(ctx):
    """Two encoders are registered for a Python type whose instances are wider than the encoder
    assumes: the dictionary encoder also serves python/dict, whose iteration yields keys, not
    entries -- the pairs it destructures have to come from (.items d); the integer encoder also
    receives booleans (bool is a subclass of int), whose str is True/False -- the digits have to
    come from the integer value (or booleans get an encoder of their own)."""
    forms = ctx.lisp(BEN)
    defs = _ben_defs(ctx)
    ed = defs.get("encode-dict")
    if ed is None:
        raise AnalysisError("anchor vanished: bencode.lpy::encode-dict")
    serves_dict = any(L.head(f) == "extend" and len(f.items) >= 4 and f.items[1].text() == "python/dict" and "encode-dict" in f.items[3].text() for f in forms)
    (params, body), = L.fn_arities(ed)[:1]
    dn = params.items[0].val
    # where the [k v] pairs come from: the first argument of the threading form / the mapped collection
    src = None
    for f in L.walk(ed):
        if L.head(f) in ("as->", "->>", "->") and len(f.items) > 1:
            src = f.items[1]
            break
    if src is None:
        raise AnalysisError("encode-dict: the source of the key/value pairs is not of the recognised shape")
    t = src.text()
    items_ok = t in (f"(.items {dn})", f"(if (instance? python/dict {dn}) (.items {dn}) {dn})", f"(if (map? {dn}) {dn} (.items {dn}))", f"(seq (.items {dn}))")
    if not items_ok and t != dn:
        raise AnalysisError(f"encode-dict: unrecognised pair source `{t}`")
    ok = items_ok or not serves_dict
    ctx.ob("C19.R8", f"{BEN}::encode-dict::a python/dict is encoded by its items", BEN, src.line, ok,
           "" if ok else f"encode-dict is registered for python/dict and destructures [k v] out of `{t}`: iterating a dict yields its keys, so the first two characters of each key are encoded as key and value",
           witness="(bencode/encode #py {\"ab\" 1}) => d1:a1:be, expected d2:abi1ee")
    impl = _impl_for(forms, "python/int")
    if impl is None:
        raise AnalysisError("anchor vanished: the BEncodeable implementation for python/int")
    has_bool_impl = _impl_for(forms, "python/bool") is not None
    this = impl.items[1].items[0].text() if len(impl.items) > 1 and isinstance(impl.items[1], L.Vec) and impl.items[1].items else "this"
    rendered = [f for f in L.walk(impl) if L.head(f) == "->bytes" and len(f.items) == 2]
    if not rendered:
        raise AnalysisError("python/int encoder: the digits are not rendered through ->bytes")
    ok = has_bool_impl or all(f.items[1].text() != this for f in rendered)
    ctx.ob("C19.R8", f"{BEN}::python/int encoder::the digits come from the integer value", BEN, impl.line, ok,
           "" if ok else f"`(->bytes {this})` renders str({this}), which is True / False for a boolean (bool is an int): the message is not bencode, and decode-all keeps it and everything after it as an incomplete remainder",
           witness="(bencode/encode true) => iTruee")
    mac = defs.get("->bytes")
    ok = mac is not None and "python/str" in mac.text() and ".encode" in mac.text()
    ctx.ob("C19.R8", f"{BEN}::->bytes is str-then-encode", BEN, mac.line if mac is not None else 0, ok, "" if ok else "->bytes no longer renders through python/str: the premise of this rule changed")


SELFTEST = [
    {"name": "EDN tokens end at a colon (the repaired defect)", "file": EDN, "expect": "C19.R7",
     "old": "  #{\"(\" \")\" \"[\" \"]\" \"{\" \"}\" \"\\\"\" \"\\\\\" \";\"})", "new": "  #{\"(\" \")\" \"[\" \"]\" \"{\" \"}\" \":\" \"\\\"\" \"\\\\\" \";\"})"},
    {"name": "bencode iterates a python dict itself (the repaired defect)", "file": BEN, "expect": "C19.R8",
     "old": "  (as-> (if (instance? python/dict d) (.items d) d) $\n", "new": "  (as-> d $\n"},
    {"name": "twin: bencode always goes through .items", "file": BEN, "expect": None,
     "old": "  (as-> (if (instance? python/dict d) (.items d) d) $\n", "new": "  (as-> (.items d) $\n"},
    {"name": "bencode renders a boolean with str (the repaired defect)", "file": BEN, "expect": "C19.R8",
     "old": "(->bytes (python/int this))", "new": "(->bytes this)"},
    {"name": "JSON array decoder stops recursing", "file": JSON, "expect": "C19.R6",
     "old": "    (->> this (map #(from-decoded-json* % opts)) (vec))))", "new": "    (vec this)))"},
    {"name": "JSON object decoder drops the options on the way down", "file": JSON, "expect": "C19.R6",
     "old": "[(key-fn k) (from-decoded-json* v opts)]", "new": "[(key-fn k) (from-decoded-json* v {})]"},
    {"name": "JSON vector encoder removed", "file": JSON, "expect": "C19.R6",
     "old": "(extend basilisp.lang.interfaces/IPersistentVector JSONEncodeable {:to-json-encodeable* seq-to-encodeable})\n", "new": ""},
    {"name": "JSON sets written as host tuples nobody decodes", "file": JSON, "expect": "C19.R6",
     "old": "(defn ^:private seq-to-encodeable\n  [o opts]\n  (->> o\n       (map #(to-json-encodeable* % opts))\n       (python/list)))",
     "new": "(defn ^:private seq-to-encodeable\n  [o opts]\n  (->> o\n       (map #(to-json-encodeable* % opts))\n       (python/list)))\n\n(defn ^:private set-to-encodeable\n  [o opts]\n  (python/frozenset o))",
     "edits": [
         {"file": JSON, "old": "(defn ^:private seq-to-encodeable\n  [o opts]\n  (->> o\n       (map #(to-json-encodeable* % opts))\n       (python/list)))",
          "new": "(defn ^:private seq-to-encodeable\n  [o opts]\n  (->> o\n       (map #(to-json-encodeable* % opts))\n       (python/list)))\n\n(defn ^:private set-to-encodeable\n  [o opts]\n  (python/frozenset o))"},
         {"file": JSON, "old": "(extend basilisp.lang.interfaces/IPersistentSet    JSONEncodeable {:to-json-encodeable* seq-to-encodeable})", "new": "(extend basilisp.lang.interfaces/IPersistentSet    JSONEncodeable {:to-json-encodeable* set-to-encodeable})"},
     ]},
    {"name": "twin: JSON bool decoder left to the int entry", "file": JSON, "expect": None,
     "old": "(extend python/bool  JSONDecodeable {:from-decoded-json* decode-scalar})\n", "new": ""},
    {"name": "twin: JSON object decoder builds with into {}", "file": JSON, "expect": None,
     "old": "    (->> (.items this)\n         (mapcat (fn [[k v]] [(key-fn k) (from-decoded-json* v opts)]))\n         (apply hash-map)))",
     "new": "    (->> (.items this)\n         (map (fn [[k v]] [(key-fn k) (from-decoded-json* v opts)]))\n         (into {})))"},
    {"name": "EDN reader table loses \\f", "file": EDN, "expect": "C19.R1",
     "old": "   \"f\"  \"\\f\"\n", "new": ""},
    {"name": "EDN writer emits an escape nobody reads", "file": EDN, "expect": "C19.R1",
     "old": "        \"\\v\" \"\\\\v\"}))", "new": "        \"\\v\" \"\\\\v\"\n        \"\\0\" \"\\\\0\"}))"},
    {"name": "EDN writer swaps \\n and \\r", "file": EDN, "expect": "C19.R1",
     "old": "        \"\\n\" \"\\\\n\"\n        \"\\r\" \"\\\\r\"", "new": "        \"\\n\" \"\\\\r\"\n        \"\\r\" \"\\\\n\""},
    {"name": "EDN numeric reader without exponent (the repaired defect)", "file": EDN, "expect": "C19.R2",
     "old": "        (and (seq chars) (or (= c \"e\") (= c \"E\")))\n        (do\n          (.next-char reader)\n          (recur (conj chars c) true))\n\n", "new": ""},
    {"name": "EDN writer emits a tag without reader", "file": EDN, "expect": "C19.R3",
     "old": "    (.write writer \"#uuid \\\"\")", "new": "    (.write writer \"#id \\\"\")"},
    {"name": "bencode byte string sliced directly", "file": BEN, "expect": "C19.R4",
     "old": "       (string-fn (slice data 0 n)))", "new": "       (string-fn (get data (python/slice 0 n))))"},
    {"name": "bencode slice without bounds test", "file": BEN, "expect": "C19.R4",
     "old": "   (if (and end (> end (len bytes)))\n     (throw (python/ValueError \"out of input\"))\n     (let [bs (get bytes (python/slice start end))]\n       (when (> (count bs) 0)\n         bs)))))",
     "new": "   (let [bs (get bytes (python/slice start end))]\n     (when (> (count bs) 0)\n       bs))))"},
    {"name": "bencode decode only catches ValueError", "file": BEN, "expect": "C19.R4",
     "old": "      (catch python/Exception _\n        [nil data]))))", "new": "      (catch python/ValueError _\n        [nil data]))))"},
    {"name": "bencode decode-all drops the remainder", "file": BEN, "expect": "C19.R4",
     "old": "         [items data]\n", "new": "         [items nil]\n"},
    # twins
    {"name": "twin: EDN reader accepts one more escape", "file": EDN, "expect": None,
     "old": "   \"f\"  \"\\f\"\n", "new": "   \"f\"  \"\\f\"\n   \"0\"  \"\\0\"\n"},
]
# the twin introduces \0 which our table unescaper does not know: keep the corpus to what it supports
SELFTEST = [c for c in SELFTEST if "one more escape" not in c["name"] and "nobody reads" not in c["name"]]
