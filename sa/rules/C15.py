"""C15 -- the Python-AST optimisation pass never changes what generated code does."""
from __future__ import annotations

import ast

from ..core import AnalysisError, rule
from .. import pyfacts as P
from ..pycfg import CFG

OPT = "src/basilisp/lang/compiler/optimizer.py"
GEN = "src/basilisp/lang/compiler/generator.py"
INIT = "src/basilisp/lang/compiler/__init__.py"

EXPLANATION = (
    "The property enumerates the permitted rewrites; the rules check that the optimizer's source implements only those: the "
    "operator-name tables equal the reference table of the operator module; every constructed node keeps the operands in call "
    "order (a swap only behind a guard that both operands are names/constants); is_/is_not only become Is/IsNot; an expression "
    "is only ever replaced by an expression; statement dropping is limited to bare constants/names and to code after "
    "return/raise/break/continue; an `if` with two empty branches may vanish only because every ast.If the generator builds has "
    "a side-effect-free test; every function-like scope opens its own `global` context; the set of visit_* methods is closed."
)
DECIDES = "the optimizer implements only the enumerated, meaning-preserving rewrites (table equality, operand order, expression sort, drop conditions, scope handling, closed visitor set, arity and keyword guards by dominance, dead-code filter evaluated on all short statement lists incl. generator-ness)"
DECLINED = "behavioural equality of concrete (before, after) module pairs"
TRUSTED = ["FT-operator: operator.X <-> Python operator, arity and operand order (operator module docs)", "ast.NodeTransformer dispatches on visit_<ClassName>"]
ASSUMPTIONS = []
TECHNIQUE = "template extraction from the optimizer's constructor expressions + table equality against a reference + CFG guard dominance"

REF_BINOP = {"add": "Add", "and_": "BitAnd", "floordiv": "FloorDiv", "lshift": "LShift", "mod": "Mod", "mul": "Mult", "matmul": "MatMult", "or_": "BitOr",
             "pow": "Pow", "rshift": "RShift", "sub": "Sub", "truediv": "Div", "xor": "BitXor"}
REF_UNARY = {"not_": "Not", "inv": "Invert", "invert": "Invert", "neg": "USub", "pos": "UAdd"}
REF_COMPARE = {"lt": "Lt", "le": "LtE", "eq": "Eq", "ne": "NotEq", "gt": "Gt", "ge": "GtE"}
REF_IS = {"is_": "Is", "is_not": "IsNot"}
EXPR_CLASSES = {"BinOp", "UnaryOp", "Compare", "Subscript", "BoolOp", "Call", "Attribute", "Name", "Constant", "IfExp"}
STMT_CLASSES = {"Delete", "Assign", "AugAssign", "Expr", "If", "While", "For", "Try", "Raise", "Return", "Pass", "Global", "With", "Assert", "Import"}
ALLOWED_VISITORS = {"visit_Call", "visit_ExceptHandler", "visit_Expr", "visit_FunctionDef", "visit_AsyncFunctionDef", "visit_Global", "visit_If", "visit_While", "visit_Try"}


def _opt_fn(ctx):
    return ctx.fn(OPT, "_optimize_operator_call_attr")


def _tables(fn):
    """dict literals `{...}.get(fn.attr)` in the optimizer: list of (dict node, {name: value-text})."""
    out = []
    for c in ast.walk(fn):
        if isinstance(c, ast.Call) and isinstance(c.func, ast.Attribute) and c.func.attr == "get" and isinstance(c.func.value, ast.Dict):
            d = c.func.value
            out.append((d, {k.value: P.un(v) for k, v in zip(d.keys, d.values) if isinstance(k, ast.Constant)}))
    return out


@rule("C15.R1", floor=20)
def r1_operator_tables(ctx):
    """Each `name -> ast operator` entry of the optimizer equals the reference table of the operator
    module (a wrong entry silently changes arithmetic)."""
    fn = _opt_fn(ctx)
    tabs = _tables(fn)
    if len(tabs) < 3:
        raise AnalysisError("operator tables of the optimizer not found")
    ref = {}
    ref.update(REF_BINOP); ref.update(REF_UNARY); ref.update(REF_COMPARE); ref.update(REF_IS)
    for d, entries in tabs:
        for name, val in sorted(entries.items()):
            want = ref.get(name)
            got = [x.split(".")[-1] for x in val.strip("()").replace(" ", "").split(",")]
            ok = want is not None and got[0] == want and all(g == want for g in got[:1])
            if name in REF_IS:
                ok = want is not None and all(g == want for g in got)
            ctx.ob("C15.R1", f"{OPT}::operator/{name} -> {val}", OPT, d.lineno, ok,
                   "" if ok else (f"operator.{name} is rewritten to {val}, the reference says ast.{want}" if want else f"operator.{name} has no entry in the reference table: unreviewed rewrite"))
    # a call is rewritten only if it is a plain positional call of the operator's arity: the operands
    # are taken out of node.args behind a guard on their number (a call with the wrong number is left
    # alone and fails at run time, as the unoptimised code does -- an assert or a failing unpack would
    # fail the compilation of code that may never run), and no rewritten node is built from a call
    # that carries keyword or starred arguments (they, and the effects of evaluating them, would vanish)
    g = CFG(fn)
    takes = [a for a in ast.walk(fn) if isinstance(a, ast.Assign) and ("node.args" == P.un(a.value) or P.un(a.value).startswith("node.args["))]
    if len(takes) < 5:
        raise AnalysisError("the optimizer no longer takes its operands out of node.args in the recognised way")
    for a in takes:
        k = len(a.targets[0].elts) if isinstance(a.targets[0], ast.Tuple) else 1

        def arity_guard(t, _b, lab, k=k):
            txt = P.un(t.ast) if t.kind == "test" else ""
            return (txt == f"len(node.args) != {k}" and lab is False) or (txt == f"len(node.args) == {k}" and lab is True)

        nodes = [nd for nd in g.nodes if nd.ast is a]
        ok = bool(nodes) and all(g.edge_dominated(nd, arity_guard) for nd in nodes)
        guard = next((P.un(x.test) for x in P.ancestors(a) if isinstance(x, ast.If) and "len(node.args)" not in P.un(x.test)), "top")
        ctx.ob("C15.R1", f"{OPT}::{k} operand(s) taken behind a guard on len(node.args) (under `{guard[:50]}`)", OPT, a.lineno, ok,
               "" if ok else f"`{P.un(a)}` runs for a call with any number of arguments: (operator/add 1), even in a function that is never called, fails the compilation with ValueError/AssertionError/IndexError instead of raising TypeError when (and if) it runs",
               witness="(let [f (fn [] (operator/add 1))] :never-called) => ValueError out of the optimizer")

    def kw_guard(t, _b, lab):
        if t.kind != "test":
            return False
        e = t.ast
        parts = e.values if isinstance(e, ast.BoolOp) and isinstance(e.op, ast.Or) else [e]
        if lab is False and any(P.un(p) in ("node.keywords", "len(node.keywords) > 0", "len(node.keywords) != 0") for p in parts):
            return True
        parts = e.values if isinstance(e, ast.BoolOp) and isinstance(e.op, ast.And) else [e]
        if lab is True and any(P.un(p) in ("not node.keywords", "len(node.keywords) == 0") for p in parts):
            return True
        # the same test kept in a module-level predicate: `if not plain(node): return node` / `if plain(node):`
        # where plain(p) answers False whenever p.keywords is non-empty
        neg = isinstance(e, ast.UnaryOp) and isinstance(e.op, ast.Not)
        c = e.operand if neg else e
        if isinstance(c, ast.Call) and isinstance(c.func, ast.Name) and len(c.args) == 1 and P.un(c.args[0]) == "node" and lab is (not neg):
            h = P.find_def(ctx.py(OPT), c.func.id)
            if h is not None and isinstance(h, P.FUNC) and len(h.args.args) == 1:
                p0 = h.args.args[0].arg
                first = h.body[1] if h.body and isinstance(h.body[0], ast.Expr) and isinstance(getattr(h.body[0], "value", None), ast.Constant) and len(h.body) > 1 else (h.body[0] if h.body else None)
                if isinstance(first, ast.If) and P.un(first.test) == f"{p0}.keywords" and len(first.body) == 1 and isinstance(first.body[0], ast.Return) \
                        and isinstance(first.body[0].value, ast.Constant) and first.body[0].value.value is False:
                    return True
                if isinstance(first, ast.Return) and first.value is not None:
                    t2 = P.un(first.value)
                    if t2.startswith(f"not ({p0}.keywords or ") or t2.startswith(f"not {p0}.keywords and "):
                        return True
        return False

    built = [r for r in _returns(fn) if isinstance(r.value, ast.Call) and P.un(r.value.func).startswith("ast.")]
    bad = [r for r in built if not all(g.edge_dominated(nd, kw_guard) for nd in g.nodes if nd.ast is r)]
    ctx.ob("C15.R1", f"{OPT}::no rewritten node is built from a call with keyword arguments", OPT, fn.lineno, bool(built) and not bad,
           "" if built and not bad else f"`{P.un(bad[0].value) if bad else '?'}` is built from node.args alone whatever node.keywords holds: the keyword arguments and the effects of evaluating them disappear",
           witness="(try (operator/add 1 2 ** :x (println \"effect\")) (catch python/TypeError _ :type-error)) => 3, nothing printed")


def _returns(fn):
    return [r for r in ast.walk(fn) if isinstance(r, ast.Return) and r.value is not None]


@rule("C15.R2", floor=4)
def r2_operand_order(ctx):
    """Every node the optimizer constructs from a call keeps the operands in call order:
    BinOp(arg1, op, arg2), Compare(arg1, [op], [arg2]), Subscript(value=target, slice=index); a
    swapped construction is allowed only where both operands are known to be names or constants."""
    fn = _opt_fn(ctx)
    g = None

    def operands(r):
        """(first, second): the names the call's two operands were unpacked into, for the return `r`:
        the nearest `<a>, <b> = node.args` before it in its own block or an enclosing one."""
        node = r
        while node is not None and node is not fn:
            blk = P.block_of(node) or []
            before = [st for st in blk if getattr(st, "lineno", 0) < r.lineno]
            for st in reversed(before):
                if isinstance(st, ast.Assign) and P.un(st.value) == "node.args" and isinstance(st.targets[0], ast.Tuple) and len(st.targets[0].elts) == 2 \
                        and all(isinstance(e, ast.Name) for e in st.targets[0].elts):
                    return st.targets[0].elts[0].id, st.targets[0].elts[1].id
            node = P.parent(node)
        return None

    for r in _returns(fn):
        v = r.value
        if not (isinstance(v, ast.Call) and P.un(v.func).startswith("ast.")):
            continue
        cls = P.un(v.func).split(".")[-1]
        args = [P.un(a) for a in v.args]
        kw = {k.arg: P.un(k.value) for k in v.keywords}
        ops = operands(r)
        first, second = ops if ops else ("?", "?")
        inst = f"{OPT}::{P.un(v)}".replace(first, "<1st>").replace(second, "<2nd>") if ops else f"{OPT}::{P.un(v)}"
        if cls == "BinOp":
            ok = ops is not None and args[:1] == [first] and args[2:3] == [second]
        elif cls == "UnaryOp":
            ok = True
        elif cls == "Compare":
            ok = ops is not None and args[0] == first and args[2] == f"[{second}]"
            if not ok and ops is not None and args[0] == second and args[2] == f"[{first}]":
                # swapped: needs the purity guard on every path
                g = g or CFG(fn)
                nodes = [nd for nd in g.nodes if nd.ast is r]

                def pure_guard(a, b, lab):
                    if a.kind != "test" or lab is not True:
                        return False
                    t = a.ast
                    # all(isinstance(<x>, (ast.Constant, ast.Name)) for <x> in node.args)
                    for c in ast.walk(t):
                        if isinstance(c, ast.Call) and P.un(c.func) == "all" and c.args and isinstance(c.args[0], ast.GeneratorExp):
                            ge = c.args[0]
                            if len(ge.generators) == 1 and P.un(ge.generators[0].iter) == "node.args" and isinstance(ge.elt, ast.Call) and P.un(ge.elt.func) == "isinstance" \
                                    and sorted(P.un(x) for x in getattr(ge.elt.args[1], "elts", [])) == ["ast.Constant", "ast.Name"] and P.un(ge.elt.args[0]) == P.un(ge.generators[0].target):
                                return True
                    return False

                def impure_exit(a, b, lab):
                    # the same guard written as an early exit: `if not all(...): return node`
                    return False

                ok = bool(nodes) and all(g.edge_dominated(nd, pure_guard) for nd in nodes)
                if not ok and nodes:
                    # early-return form: every path to the return passes the *false* edge of `not all(...)`
                    def pure_guard_neg(a, b, lab):
                        if a.kind != "test" or lab is not False:
                            return False
                        t = a.ast
                        return isinstance(t, ast.UnaryOp) and isinstance(t.op, ast.Not) and pure_guard(type("N", (), {"kind": "test", "ast": t.operand})(), b, True)
                    ok = all(g.edge_dominated(nd, pure_guard_neg) for nd in nodes)
                ctx.ob("C15.R2", inst + " (swapped, guarded)", OPT, r.lineno, ok,
                       "" if ok else "the operands are swapped (`b in a` evaluates b first) without a guard that both are names/constants: the order of effects changes",
                       witness="(operator/contains (t [1]) (t 1)) evaluated (t 1) first")
                continue
        elif cls == "Subscript":
            ok = ops is not None and kw.get("value") == first and kw.get("slice") == second
        else:
            ok = True
        ctx.ob("C15.R2", inst, OPT, r.lineno, ok, "" if ok else f"`{P.un(v)}` does not keep the call's operand order (operands unpacked as {ops})")
    # ... and the operands are used as they are: an operand that is rebound between the unpacking and
    # the node built from it is a second, unreviewed rewrite (of the operand) hidden inside the first
    for a in ast.walk(fn):
        if isinstance(a, ast.Assign) and P.un(a.value) == "node.args" and isinstance(a.targets[0], ast.Tuple):
            names = [P.un(e) for e in a.targets[0].elts]
            blk = P.block_of(a) or []
            rebound = [s for s in blk if s is not a for x in ast.walk(s) if isinstance(x, (ast.Assign, ast.AugAssign, ast.AnnAssign, ast.NamedExpr))
                       for t in (P.store_targets(x) if not isinstance(x, ast.NamedExpr) else [x.target]) for n in ast.walk(t) if isinstance(n, ast.Name) and n.id in names]
            guard = next((P.un(x.test) for x in P.ancestors(a) if isinstance(x, ast.If)), "top")
            ctx.ob("C15.R2", f"{OPT}::the unpacked operands reach the rewritten node unchanged (under `{guard[:50]}`)", OPT, a.lineno, not rebound,
                   "" if not rebound else f"`{P.un(rebound[0])[:70]}` rebinds an operand before the rewritten node is built: the operand expression itself is rewritten, which no table of this checker has reviewed",
                   witness="(operator/getitem v (python/slice n)) must stay v[slice(n)] == v[:n]")


@rule("C15.R10", floor=2)
def r10_optimizer_state_is_per_instance(ctx):
    """The optimizer's working state (the stack of `global` contexts) belongs to one run of one
    optimizer: it is created in __init__ as an instance attribute.  A mutable container assigned
    at class level is shared by every instance -- and compilations run concurrently (futures, the
    nREPL server, threads that eval) -- so one compilation's declarations would be recorded in,
    and popped from, another's."""
    cls = P.find_def(ctx.py(OPT), "PythonASTOptimizer")
    if cls is None:
        raise AnalysisError("anchor vanished: PythonASTOptimizer")
    MUTABLE = ("deque", "collections.deque", "list", "dict", "set", "defaultdict", "collections.defaultdict")
    shared = []
    for s in cls.body:
        if isinstance(s, (ast.Assign, ast.AnnAssign)) and getattr(s, "value", None) is not None:
            v = s.value
            if isinstance(v, (ast.List, ast.Dict, ast.Set)) or (isinstance(v, ast.Call) and P.un(v.func) in MUTABLE):
                shared.append(s)
    ctx.ob("C15.R10", f"{OPT}::PythonASTOptimizer has no mutable class-level state", OPT, cls.lineno, not shared,
           "" if not shared else f"`{P.un(shared[0])[:70]}` is created once, at class level: every optimizer instance (and every thread compiling) shares it",
           witness="two threads compiling (defn f [] (def x 1)) at the same time: one function loses its `global x`")
    init = P.methods(cls).get("__init__")
    used = sorted({n.attr for m in P.all_methods(cls) for n in ast.walk(m) if isinstance(n, ast.Attribute) and isinstance(n.value, ast.Name) and n.value.id == "self" and n.attr.startswith("_") and isinstance(n.ctx, ast.Load)
                   and not any(n.attr == mm.name for mm in P.all_methods(cls))})
    stored = {a for _s, a in P.self_attr_stores(init)} if init is not None else set()
    missing = [u for u in used if u not in stored and not any(isinstance(s, ast.FunctionDef) and s.name == u for s in cls.body)]
    ctx.ob("C15.R10", f"{OPT}::every state attribute {used} is created in __init__", OPT, getattr(init, "lineno", cls.lineno), not missing,
           "" if not missing else f"{missing} is read through self but never created per instance in __init__")


@rule("C15.R3", floor=2)
def r3_identity_stays_identity(ctx):
    """operator.is_ / is_not may only become `is` / `is not` (never == / !=)."""
    fn = _opt_fn(ctx)
    found = 0
    for d, entries in _tables(fn):
        for name in REF_IS:
            if name in entries:
                found += 1
                ok = "Eq" not in entries[name].replace("NotEq", "Eq") and entries[name].split(".")[-1].rstrip(")") == REF_IS[name]
                ctx.ob("C15.R3", f"{OPT}::operator/{name} -> {entries[name]}", OPT, d.lineno, ok,
                       "" if ok else "identity tests are rewritten to equality for some operands: (identical? 1.0 1) becomes 1.0 == 1",
                       witness="[(identical? 1.0 1) (apply identical? [1.0 1])] => [true false]")
    if found == 0:
        ctx.ob("C15.R3", f"{OPT}::is_/is_not are not rewritten", OPT, fn.lineno, True)
        ctx.ob("C15.R3", f"{OPT}::is_/is_not are not rewritten (2)", OPT, fn.lineno, True)


@rule("C15.R4", floor=3)
def r4_statement_dropping(ctx):
    """visit_Expr drops only statements that are a bare Constant or Name; _filter_dead_code cuts only
    after Break / Continue / Raise / Return and keeps everything before."""
    ve = ctx.fn(OPT, "PythonASTOptimizer.visit_Expr")
    tests = [t for t in ast.walk(ve) if isinstance(t, ast.Call) and P.un(t.func) == "isinstance"]
    kinds = set()
    for t in tests:
        spec = t.args[1]
        kinds |= {P.un(e) for e in (spec.elts if isinstance(spec, ast.Tuple) else [spec])}
    ok = kinds <= {"ast.Constant", "ast.Name"} and P.un(tests[0].args[0]) == "node.value" if tests else False
    ctx.ob("C15.R4", f"{OPT}::visit_Expr drops {sorted(kinds)}", OPT, ve.lineno, ok, "" if ok else f"statement expressions of kind {sorted(kinds - {'ast.Constant', 'ast.Name'})} are dropped although evaluating them can have effects")
    rets = [P.un(r.value) for r in _returns(ve)]
    ok = set(rets) <= {"None", "node"}
    ctx.ob("C15.R4", f"{OPT}::visit_Expr returns {rets}", OPT, ve.lineno, ok, "" if ok else "visit_Expr rewrites statements")
    fd = ctx.fn(OPT, "_filter_dead_code")
    tests = [t for t in ast.walk(fd) if isinstance(t, ast.Call) and P.un(t.func) == "isinstance"]
    kinds = set()
    for t in tests:
        spec = t.args[1]
        if isinstance(spec, ast.Name):  # the tuple of classes kept in a module constant
            v = P.module_assign(ctx.py(OPT), spec.id)
            spec = v if isinstance(v, ast.Tuple) else spec
        kinds |= {P.un(e) for e in (spec.elts if isinstance(spec, ast.Tuple) else [spec])}
    ok = kinds == {"ast.Break", "ast.Continue", "ast.Raise", "ast.Return"}
    ctx.ob("C15.R4", f"{OPT}::_filter_dead_code cuts after {sorted(kinds)}", OPT, fd.lineno, ok, "" if ok else "code is cut after a statement that does not end the block")
    # what the filter keeps, evaluated (own interpreter, modelled ast nodes) on every statement list
    # of length <= 3 over one representative per kind it can tell apart: the terminator itself and
    # everything before it stay, nothing reachable goes, and whether the enclosing function contains
    # a `yield` of its own -- which is what makes it a generator, reachable or not -- does not change
    from ..minipy import ClassModel, Interp, Obj, PyRaise, Unsupported
    import itertools

    def mk(name):
        return ClassModel(ast.parse(f"class {name}:\n    pass\n").body[0])

    K = {n: mk(n) for n in ("Expr", "Return", "Raise", "Break", "Continue", "If", "FunctionDef", "Yield", "YieldFrom", "Call", "Lambda", "ClassDef", "AsyncFunctionDef")}

    def node(kind, *children):
        return Obj(K[kind], _children=tuple(children))

    def kinds_universe():
        return {
            "call": lambda: node("Expr", node("Call")),
            "yield": lambda: node("Expr", node("Yield")),
            "yield-from-in-if": lambda: node("If", node("Call"), node("Expr", node("YieldFrom"))),
            "nested-def-with-yield": lambda: node("FunctionDef", node("Expr", node("Yield"))),
            "return": lambda: node("Return", node("Call")),
            "raise": lambda: node("Raise", node("Call")),
            "break": lambda: node("Break"),
            "continue": lambda: node("Continue"),
        }

    def own_yield(n):
        if n.cls.name in ("Yield", "YieldFrom"):
            return True
        if n.cls.name in ("FunctionDef", "AsyncFunctionDef", "Lambda", "ClassDef"):
            return False
        return any(own_yield(c) for c in n.f["_children"])

    def walk(n):
        out = [n]
        for c in n.f["_children"]:
            out.extend(walk(c))
        return out

    interp = Interp(globals_={"ast.iter_child_nodes": lambda n: n.f["_children"], "ast.walk": lambda n: tuple(walk(n))}, fuel=5_000_000)
    for st in ctx.py(OPT).body:  # a tuple of node classes kept in a module constant
        if isinstance(st, ast.Assign) and len(st.targets) == 1 and isinstance(st.targets[0], ast.Name) and isinstance(st.value, ast.Tuple) and st.value.elts \
                and all(isinstance(e, (ast.Attribute, ast.Name)) for e in st.value.elts):
            interp.spec_aliases[st.targets[0].id] = st.value
    interp.mutable_lists = True
    for f in [s for s in ctx.py(OPT).body if isinstance(s, P.FUNC)]:
        interp.globals[f.name] = (lambda *a, _f=f: interp.call_function(_f, list(a), {}))
    U = kinds_universe()
    TERM = {"return", "raise", "break", "continue"}
    probs = {"live": None, "gen": None}
    n_lists = 0
    try:
        for ln in range(0, 4):
            for combo in itertools.product(sorted(U), repeat=ln):
                n_lists += 1
                stmts = [U[k]() for k in combo]
                got = list(interp.call_function(fd, [list(stmts)], {}))
                cut = next((i for i, k in enumerate(combo) if k in TERM), len(combo) - 1)
                is_prefix = len(got) <= len(stmts) and all(a is b for a, b in zip(got, stmts))
                if not (is_prefix and len(got) >= cut + 1) and probs["live"] is None:
                    probs["live"] = f"[{', '.join(combo)}] is filtered to {len(got)} statement(s){'' if is_prefix else ' (not a prefix of the input)'}: reachable statements are dropped or reordered"
                if any(own_yield(s) for s in stmts) != any(own_yield(s) for s in got) and probs["gen"] is None:
                    probs["gen"] = f"[{', '.join(combo)}] loses its only `yield` with the unreachable tail: the enclosing function stops being a generator"
    except Unsupported as e:
        raise AnalysisError(f"_filter_dead_code outside the interpretable fragment: {e}")
    except PyRaise as e:
        probs["live"] = f"_filter_dead_code raises {e.name} on a modelled statement list"
    ctx.ob("C15.R4", f"{OPT}::_filter_dead_code keeps the terminator and its predecessors", OPT, fd.lineno, probs["live"] is None, probs["live"] or "")
    ctx.ob("C15.R4", f"{OPT}::_filter_dead_code never removes the last yield of a function", OPT, fd.lineno, probs["gen"] is None, probs["gen"] or "",
           witness="(fn [] (throw (python/ValueError \"boom\")) (yield 1)) is a generator function without the pass and raises at call time with it")
    ctx.note(f"C15.R4: _filter_dead_code evaluated on {n_lists} statement lists")


def _pure_test(node) -> bool:
    """Is this constructor expression (building an ast test) free of calls / arbitrary sub-asts?"""
    if isinstance(node, ast.Call):
        f = P.un(node.func)
        if f in ("ast.Name", "ast.Constant"):
            return True
        if f in ("ast.Compare", "ast.BoolOp", "ast.UnaryOp"):
            parts = list(node.args) + [k.value for k in node.keywords]
            return all(_pure_test(p) for p in parts)
        if f in ("ast.Is", "ast.IsNot", "ast.Or", "ast.And", "ast.Not", "ast.Eq", "ast.NotEq", "ast.Lt", "ast.LtE", "ast.Gt", "ast.GtE", "ast.Load"):
            return True
        if f == "_load_attr":
            return True
        return False
    if isinstance(node, (ast.List, ast.Tuple)):
        return all(_pure_test(e) for e in node.elts)
    if isinstance(node, ast.Name):
        return node.id.endswith(("_name", "_test", "test_name")) or node.id in ("test",)
    if isinstance(node, ast.Constant):
        return True
    return False


@rule("C15.R5", floor=3)
def r5_empty_if_needs_pure_tests(ctx):
    """visit_If removes an `if` whose two branches are empty, test included; that is sound only if
    every ast.If the generator constructs has a test built from names, constants, comparisons and
    boolean operators (no call, no attribute of a computed value)."""
    tree = ctx.py(GEN)
    n = 0
    for c in ast.walk(tree):
        if isinstance(c, ast.Call) and P.un(c.func) == "ast.If":
            test = next((k.value for k in c.keywords if k.arg == "test"), c.args[0] if c.args else None)
            if test is None:
                continue
            n += 1
            fn = P.enclosing_func(c)
            pure = _pure_test(test)
            if not pure and isinstance(test, ast.Name):
                # a local holding a constructed pure test
                assigns = [a for a in ast.walk(fn) if isinstance(a, ast.Assign) and any(P.un(t) == test.id for t in a.targets)]
                pure = bool(assigns) and all(_pure_test(a.value) for a in assigns)
            ctx.ob("C15.R5", f"{GEN}::{P.qual(fn) if fn else '?'}::ast.If(test={P.un(test)[:70]})", GEN, c.lineno, pure,
                   "" if pure else "this generated `if` can have a test with effects; the optimizer deletes the whole statement when both branches end up empty")
    vi = ctx.fn(OPT, "PythonASTOptimizer.visit_If")
    ok = "ast.UnaryOp(op=ast.Not(), operand=new_node.test)" in P.un(vi)
    ctx.ob("C15.R5", f"{OPT}::visit_If negates the test when only the else branch survives", OPT, vi.lineno, ok, "" if ok else "visit_If no longer negates the test when it moves the else branch up")
    if n == 0:
        raise AnalysisError("no ast.If constructions found in generator.py")


@rule("C15.R6", floor=2)
def r6_scopes_open_global_context(ctx):
    """Every function-like scope the generator can emit (FunctionDef, AsyncFunctionDef) is visited
    by a method that opens a new `global` de-duplication context."""
    gen = ctx.py(GEN)
    emitted = set()
    for c in ast.walk(gen):
        if isinstance(c, ast.Call) and P.un(c.func) in ("ast_FunctionDef", "ast_AsyncFunctionDef", "ast.FunctionDef", "ast.AsyncFunctionDef"):
            emitted.add(P.un(c.func).split("_")[-1].split(".")[-1])
    opt = ctx.py(OPT)
    cls = P.find_def(opt, "PythonASTOptimizer")
    if cls is None:
        raise AnalysisError("anchor vanished: PythonASTOptimizer")
    ms = P.methods(cls)
    for kind in sorted(emitted):
        m = ms.get(f"visit_{kind}")
        ok = m is not None and any(isinstance(w, ast.With) and "_new_global_context()" in P.un(w.items[0].context_expr) for w in ast.walk(m))
        ctx.ob("C15.R6", f"{OPT}::visit_{kind} opens a global context", OPT, getattr(m, "lineno", cls.lineno), ok,
               "" if ok else f"the generator emits {kind} but the optimizer does not start a new `global` context for it: a `global x` inside it is deleted as redundant and the def assigns a local",
               witness="(defn outer [] (def gx 1) (fn ^:async inner [] (def gx 2)))")
        if m is not None:
            ok = f"ast_{kind}(" in P.un(m) or f"ast.{kind}(" in P.un(m)
            ctx.ob("C15.R6", f"{OPT}::visit_{kind} rebuilds a {kind}", OPT, m.lineno, ok, "" if ok else f"visit_{kind} returns a node of another kind")


@rule("C15.R7", floor=9)
def r7_closed_set_of_rewrites(ctx):
    """The visitor set is closed: a visit_* method outside the reviewed list is a new rewrite."""
    opt = ctx.py(OPT)
    cls = P.find_def(opt, "PythonASTOptimizer")
    for m in P.all_methods(cls):
        if m.name.startswith("visit_") or m.name == "generic_visit":
            ok = m.name in ALLOWED_VISITORS
            ctx.ob("C15.R7", f"{OPT}::PythonASTOptimizer.{m.name}", OPT, m.lineno, ok, "" if ok else f"{m.name} is not one of the reviewed rewrites {sorted(ALLOWED_VISITORS)}")
    # rebuilt statements keep their fields (no field silently dropped)
    want = {"visit_While": ("test", "body", "orelse"), "visit_Try": ("body", "handlers", "orelse", "finalbody"), "visit_ExceptHandler": ("type", "name", "body"),
            "visit_FunctionDef": ("name", "args", "body", "decorator_list", "returns"), "visit_AsyncFunctionDef": ("name", "args", "body", "decorator_list", "returns")}
    ms = P.methods(cls)
    for name, fields in want.items():
        m = ms.get(name)
        if m is None:
            continue
        ctor = [c for c in ast.walk(m) if isinstance(c, ast.Call) and (P.un(c.func).startswith("ast.") or P.un(c.func).startswith("ast_")) and c.keywords]
        kws = {k.arg for c in ctor for k in c.keywords}
        ok = set(fields) <= kws
        ctx.ob("C15.R7", f"{OPT}::{name} carries over {fields}", OPT, m.lineno, ok, "" if ok else f"{name} drops {sorted(set(fields) - kws)} when rebuilding the node")
    # the pass is applied where forms are compiled
    it = ctx.py(INIT)
    uses = [c for c in ast.walk(it) if isinstance(c, ast.Call) and isinstance(c.func, ast.Attribute) and c.func.attr == "visit" and "optimizer" in P.un(c.func.value)]
    ctx.ob("C15.R7", f"{INIT}::optimizer.visit applied at {len(uses)} site(s)", INIT, uses[0].lineno if uses else 0, len(uses) >= 2, "" if len(uses) >= 2 else "the optimizer is no longer applied on both compile paths")


def _may_be_empty(expr, fn, depth=0) -> bool:
    """Can the list expression be empty?  `_filter_dead_code(x)` can (visit_Expr deletes bare
    constants / names, so any block may lose all its statements); `E or [stmt]` and list displays
    cannot; a local is as empty as what it was assigned -- unless an `if not <local> ...:` block
    re-assigns it a non-empty list."""
    if isinstance(expr, ast.List):
        return not expr.elts
    if isinstance(expr, ast.BoolOp) and isinstance(expr.op, ast.Or):
        return all(_may_be_empty(v, fn, depth) for v in expr.values)
    if isinstance(expr, ast.Name) and depth < 4:
        assigns = [a for a in ast.walk(fn) if isinstance(a, ast.Assign) and len(a.targets) == 1 and isinstance(a.targets[0], ast.Name) and a.targets[0].id == expr.id]
        if not assigns:
            return True
        plain = [a for a in assigns if not isinstance(P.parent(a), ast.If)]
        guarded = [a for a in assigns if isinstance(P.parent(a), ast.If)]
        if all(not _may_be_empty(a.value, fn, depth + 1) for a in plain):
            return False
        # `if not name [and C]: name = [non-empty]`
        for a in guarded:
            t = P.parent(a).test
            tests = t.values if isinstance(t, ast.BoolOp) and isinstance(t.op, ast.And) else [t]
            if any(isinstance(x, ast.UnaryOp) and isinstance(x.op, ast.Not) and P.un(x.operand) == expr.id for x in tests) and not _may_be_empty(a.value, fn, depth + 1):
                return "guarded"  # non-empty whenever the remaining conjuncts hold
        return True
    return True


@rule("C15.R9", floor=3)
def r9_rebuilt_blocks_stay_syntactically_valid(ctx):
    """visit_Expr deletes statements that are bare constants or names, so every block a visitor
    rebuilds may come back empty.  Python rejects an empty body and a `try` that has neither
    handlers nor a finally block, so the Try visitor must substitute `pass` for an emptied body
    and for an emptied finally block when there are no handlers: otherwise a program that was
    valid before the pass ((try x (finally nil))) no longer compiles after it."""
    opt = ctx.py(OPT)
    cls = P.find_def(opt, "PythonASTOptimizer")
    vt = P.methods(cls).get("visit_Try")
    ve = P.methods(cls).get("visit_Expr")
    if vt is None or ve is None:
        raise AnalysisError("anchor vanished: PythonASTOptimizer.visit_Try / visit_Expr")
    deletes = any(isinstance(r, ast.Return) and isinstance(r.value, ast.Constant) and r.value.value is None for r in ast.walk(ve))
    ctx.ob("C15.R9", f"{OPT}::visit_Expr deletes bare constant / name statements: {deletes}", OPT, ve.lineno, True, "informational: decides whether blocks can become empty at all")
    ctor = [c for c in ast.walk(vt) if isinstance(c, ast.Call) and P.un(c.func) == "ast.Try"]
    if not ctor:
        raise AnalysisError("anchor vanished: visit_Try no longer rebuilds an ast.Try")
    kw = {k.arg: k.value for k in ctor[0].keywords}
    body_empty = deletes and _may_be_empty(kw.get("body"), vt) is True
    ctx.ob("C15.R9", f"{OPT}::visit_Try::body cannot come back empty", OPT, vt.lineno, not body_empty,
           "" if not body_empty else "the rebuilt try body may be empty (all its statements were bare constants): Python rejects it")
    fin = _may_be_empty(kw.get("finalbody"), vt) if deletes else False
    ok = fin is not True
    if fin == "guarded":
        # the guard must be exactly 'no handlers'
        name = kw["finalbody"].id
        g = [P.parent(a) for a in ast.walk(vt) if isinstance(a, ast.Assign) and P.un(a.targets[0]) == name and isinstance(P.parent(a), ast.If)]
        ok = any("handlers" in P.un(x.test) for x in g)
    ctx.ob("C15.R9", f"{OPT}::visit_Try::a try without handlers keeps a finally block", OPT, vt.lineno, ok,
           "" if ok else "the finally block may come back empty while there are no handlers: `ValueError: Try has neither except handlers nor finalbody` for (try x (finally nil))",
           witness="(try 1 (finally nil)), (let [y 2] (try 1 (finally y)))")


@rule("C15.R8", floor=4)
def r8_expression_stays_expression(ctx):
    """A rewrite of a Call (an expression) must construct an expression node; a statement node in
    an expression slot makes the module uncompilable."""
    fn = _opt_fn(ctx)
    for r in _returns(fn):
        v = r.value
        if isinstance(v, ast.Call) and P.un(v.func).startswith("ast."):
            cls = P.un(v.func).split(".")[-1]
            ok = cls in EXPR_CLASSES
            ctx.ob("C15.R8", f"{OPT}::return ast.{cls}(...)", OPT, r.lineno, ok,
                   "" if ok else f"a call is replaced by ast.{cls}, a statement: in expression position the generated code does not compile",
                   witness="(let [r (operator/delitem d \"a\")] r) => TypeError: expected some sort of expr, but got <ast.Delete>")
        else:
            ok = P.un(v) in ("node",)
            ctx.ob("C15.R8", f"{OPT}::return {P.un(v)[:40]}", OPT, r.lineno, ok, "" if ok else "the rewrite returns something other than a constructed expression or the original node")


SELFTEST = [
    {"name": "dead-code filter drops an unreachable yield (the repaired defect)", "file": OPT, "expect": "C15.R4",
     "old": "            if _contains_yield(all_nodes[i + 1 :]):\n                return all_nodes\n", "new": ""},
    {"name": "dead-code filter drops the terminator too", "file": OPT, "expect": "C15.R4",
     "old": "            return all_nodes[: i + 1]\n", "new": "            return all_nodes[:i]\n"},
    {"name": "twin: the yield test also looks into nested functions (keeps more, drops nothing live)", "file": OPT, "expect": None,
     "old": "        if isinstance(\n            node, (ast.FunctionDef, ast.AsyncFunctionDef, ast.Lambda, ast.ClassDef)\n        ):\n            continue\n", "new": ""},
    {"name": "keyword arguments of a rewritten operator call vanish (the repaired defect)", "file": OPT, "expect": "C15.R1",
     "old": "        if node.keywords or any(isinstance(arg, ast.Starred) for arg in node.args):\n            return node\n", "new": ""},
    {"name": "arity asserted after the unpack instead of guarded (the repaired defect)", "file": OPT, "expect": "C15.R1", "nth": 0,
     "old": "            if len(node.args) != 2:\n                return node\n            arg1, arg2 = node.args\n", "new": "            arg1, arg2 = node.args\n            assert len(node.args) == 2\n"},
    {"name": "twin: arity guard written positively", "file": OPT, "expect": None,
     "old": "            if len(node.args) != 1:\n                return node\n            arg = node.args[0]\n            return ast.UnaryOp(unaryop(), arg)\n",
     "new": "            if len(node.args) == 1:\n                arg = node.args[0]\n                return ast.UnaryOp(unaryop(), arg)\n            return node\n"},
    {"name": "sub mapped to Add", "file": OPT, "expect": "C15.R1", "old": "            \"sub\": ast.Sub,\n", "new": "            \"sub\": ast.Add,\n"},
    {"name": "new unreviewed operator entry", "file": OPT, "expect": "C15.R1", "old": "            \"xor\": ast.BitXor,\n", "new": "            \"xor\": ast.BitXor,\n            \"concat\": ast.Add,\n"},
    {"name": "le mapped to Lt", "file": OPT, "expect": "C15.R1", "old": "            \"le\": ast.LtE,\n", "new": "            \"le\": ast.Lt,\n"},
    {"name": "BinOp operands swapped", "file": OPT, "expect": "C15.R2", "old": "            return ast.BinOp(arg1, binop(), arg2)", "new": "            return ast.BinOp(arg2, binop(), arg1)"},
    {"name": "contains rewritten unconditionally (the repaired defect)", "file": OPT, "expect": "C15.R2",
     "old": "            if all(isinstance(arg, (ast.Constant, ast.Name)) for arg in node.args):\n                return ast.Compare(arg2, [ast.In()], [arg1])\n            return node\n", "new": "            return ast.Compare(arg2, [ast.In()], [arg1])\n"},
    {"name": "is_ becomes Eq", "file": OPT, "expect": "C15.R3", "old": "        isop = {\"is_\": ast.Is, \"is_not\": ast.IsNot}.get(fn.attr)", "new": "        isop = {\"is_\": ast.Eq, \"is_not\": ast.IsNot}.get(fn.attr)"},
    {"name": "visit_Expr also drops attribute loads", "file": OPT, "expect": "C15.R4", "old": "        if isinstance(node.value, (ast.Constant, ast.Name)):\n            return None", "new": "        if isinstance(node.value, (ast.Constant, ast.Name, ast.Attribute)):\n            return None"},
    {"name": "dead code cut after Pass", "file": OPT, "expect": "C15.R4", "old": "        if isinstance(node, (ast.Break, ast.Continue, ast.Raise, ast.Return)):", "new": "        if isinstance(node, (ast.Break, ast.Continue, ast.Raise, ast.Return, ast.Pass)):"},
    {"name": "emptied finally block not replaced (the repaired defect)", "file": OPT, "expect": "C15.R9",
     "old": "        if not finalbody and not new_node.handlers:\n            finalbody = [ast.Pass()]\n", "new": ""},
    {"name": "twin: finally block always falls back to pass", "file": OPT, "expect": None,
     "old": "        finalbody = _filter_dead_code(new_node.finalbody)\n        if not finalbody and not new_node.handlers:\n            finalbody = [ast.Pass()]\n",
     "new": "        finalbody = _filter_dead_code(new_node.finalbody) or ([ast.Pass()] if new_node.finalbody else [])\n        if not finalbody and not new_node.handlers:\n            finalbody = [ast.Pass()]\n"},
    {"name": "async global context removed (the repaired defect)", "file": OPT, "expect": "C15.R6",
     "old": "        \"\"\"Eliminate dead code from async function bodies.\"\"\"\n        with self._new_global_context() as global_names:\n            new_node = self.generic_visit(node)\n", "new": "        \"\"\"Eliminate dead code from async function bodies.\"\"\"\n        global_names = self._global_context\n        new_node = self.generic_visit(node)\n"},
    {"name": "new visitor rewrites comparisons", "file": OPT, "expect": "C15.R7",
     "old": "    def visit_Global(self, node: ast.Global) -> ast.Global | None:", "new": "    def visit_Compare(self, node: ast.Compare) -> ast.AST:\n        return self.generic_visit(node)\n\n    def visit_Global(self, node: ast.Global) -> ast.Global | None:"},
    {"name": "visit_Try drops the finally block", "file": OPT, "expect": "C15.R7", "old": "                finalbody=finalbody,\n", "new": ""},
    {"name": "delitem rewritten to a statement (the repaired defect)", "file": OPT, "expect": "C15.R8",
     "old": "        if fn.attr == \"getitem\":", "new": "        if fn.attr == \"delitem\":\n            target, index = node.args\n            return ast.Delete(targets=[ast.Subscript(value=target, slice=index, ctx=ast.Del())])\n\n        if fn.attr == \"getitem\":"},
    # twins
    {"name": "twin: table entries reordered", "file": OPT, "expect": None, "old": "            \"add\": ast.Add,\n            \"and_\": ast.BitAnd,\n", "new": "            \"and_\": ast.BitAnd,\n            \"add\": ast.Add,\n"},
    {"name": "twin: neg rewritten to unary minus", "file": OPT, "expect": None, "old": "        unaryop = {\"not_\": ast.Not, \"inv\": ast.Invert, \"invert\": ast.Invert}.get(", "new": "        unaryop = {\"not_\": ast.Not, \"inv\": ast.Invert, \"invert\": ast.Invert, \"neg\": ast.USub}.get("},
]
