"""C13 -- delays run once, promises deliver once, futures yield their body's outcome."""
from __future__ import annotations

import ast

from ..core import AnalysisError, rule
from .. import pyfacts as P
from ..pycfg import CFG

DELAY = "src/basilisp/lang/delay.py"
PROMISE = "src/basilisp/lang/promise.py"
FUTURES = "src/basilisp/lang/futures.py"

EXPLANATION = (
    "Mutual-exclusion / typestate rules: the delay thunk is invoked only inside a Delay-owned lock together with its "
    "already-computed test; every Promise field access is inside the condition, the delivered flag is monotone and first-wins; "
    "Future.deref may turn an exception into the timeout value only when the future is not done."
)
DECIDES = "lock extent around the delay thunk and its computed-test, promise field discipline (locked, guarded, monotone), future handler conditioning, realized? sources, timeout reaching the wait primitive as a bounded float"
DECLINED = "which thread wins a race; timing of timed derefs; behaviour of concurrent.futures itself"
TRUSTED = ["threading.Lock/RLock/Condition semantics", "concurrent.futures.Future.result()/done() contract"]
ASSUMPTIONS = ["an update function handed to Atom.swap is not a critical section (the retry loop runs it in every racing thread)"]


def _cls(ctx, rel, name):
    c = P.find_def(ctx.py(rel), name)
    if c is None:
        raise AnalysisError(f"anchor vanished: {rel}::{name}")
    return c


def _lock_attrs(cls):
    """self.<attr> assigned in __init__ from threading.Lock()/RLock()/Condition()."""
    init = P.methods(cls).get("__init__")
    out = set()
    if init is None:
        return out
    for stmt, attr in P.self_attr_stores(init):
        v = getattr(stmt, "value", None)
        if isinstance(v, ast.Call) and (P.call_name(v) or "").split(".")[-1] in ("Lock", "RLock", "Condition"):
            out.add(f"self.{attr}")
    return out


def _under(node, locks, stop):
    """Lexically under `with lock`, also seeing through a lambda that is a direct argument of
    <lock>.wait_for(...) (the predicate runs with the condition held)."""
    if P.under_lock(node, locks, stop=stop):
        return True
    for a in P.ancestors(node):
        if a is stop:
            break
        if isinstance(a, ast.Lambda):
            call = P.parent(a)
            if isinstance(call, ast.Call) and isinstance(call.func, ast.Attribute) and call.func.attr == "wait_for" and P.un(call.func.value) in locks:
                return P.under_lock(call, locks, stop=stop)
            return False
    return False


def _thunk_fields(cls):
    """Field names through which the constructor's thunk parameter is stored: `self.X = f` or
    `Record(f=f)` keyword names."""
    init = P.methods(cls).get("__init__")
    if init is None or len(init.args.args) < 2:
        raise AnalysisError("Delay.__init__ lost its thunk parameter")
    p = init.args.args[1].arg
    fields = set()
    for n in ast.walk(init):
        if isinstance(n, ast.Assign) and isinstance(n.value, ast.Name) and n.value.id == p:
            for t in n.targets:
                if P.is_self_attr(t):
                    fields.add(t.attr)
        if isinstance(n, ast.keyword) and isinstance(n.value, ast.Name) and n.value.id == p and n.arg:
            fields.add(n.arg)
    if not fields:
        raise AnalysisError("cannot see where Delay stores its thunk")
    return fields


def _uses_of_method(cls, name):
    """Expression nodes referring to method `name` of cls (self.name / Cls.name), with private
    name mangling ignored (the AST keeps the written name)."""
    out = []
    for m in P.all_methods(cls):
        for n in ast.walk(m):
            if isinstance(n, ast.Attribute) and n.attr == name and isinstance(n.value, ast.Name) and n.value.id in ("self", cls.name, "cls"):
                out.append((m, n))
    return out


@rule("C13.R1", floor=1)
def r1_delay_thunk_under_lock(ctx):
    """Every invocation of the Delay's stored thunk lies in the extent of a Delay-owned lock
    (lexically, or because every use of the enclosing method is inside such a `with`), together
    with a test of the computed flag in the same extent."""
    cls = _cls(ctx, DELAY, "Delay")
    fields = _thunk_fields(cls)
    locks = _lock_attrs(cls)
    sites = []
    for m in P.all_methods(cls):
        for c in P.calls(m, into_defs=True):
            if isinstance(c.func, ast.Attribute) and c.func.attr in fields and not c.args:
                sites.append((m, c))
    for m, c in sites:
        inst = f"{DELAY}::Delay.{m.name}::{P.un(c)}"
        direct = _under(c, locks, m)
        ok = direct
        why = ""
        if not direct:
            uses = _uses_of_method(cls, m.name)
            if not uses:
                why = f"thunk call in {m.name} is not under a lock and no locked caller is visible"
            else:
                bad = [(um, u) for um, u in uses if not _under(u, locks, um)]
                if bad:
                    um, u = bad[0]
                    st = P.stmt_of(u)
                    why = (f"`{P.un(st)}` in Delay.{um.name} runs {m.name} (which calls the thunk) outside any Delay-owned lock"
                           + ("; an update function given to Atom.swap is re-run by every racing thread" if ".swap(" in P.un(st) else ""))
                else:
                    ok = True
                    # a direct call self.m(X): the state X whose computed flag m tests must have been
                    # read inside the same critical section (not a snapshot taken before the lock)
                    for um, u in uses:
                        call = P.parent(u)
                        if isinstance(call, ast.Call) and call.func is u and call.args and isinstance(call.args[0], ast.Name):
                            x = call.args[0].id
                            w = next((w for w, it in P.with_items_enclosing(call, um) if P.un(it.context_expr) in locks), None)
                            reads = [a for a in P.walk_local(um) if isinstance(a, ast.Assign) and any(P.un(t) == x for t in a.targets)]
                            if w is not None and reads and not all(P.contains(w, a) for a in reads):
                                ok = False
                                why = (f"Delay.{um.name} passes `{x}`, a snapshot of the state read before taking the lock, to {m.name}: a thread that saw "
                                       "'not computed' while another was still running the body runs the body again after that run has returned")
        if ok:
            # the computed-test must control the call in the same extent
            has_guard = False
            node = c
            for a in P.ancestors(c):
                if isinstance(a, ast.If) and ("computed" in P.un(a.test) or "realized" in P.un(a.test) or any(f in P.un(a.test) for f in ("_value", "_done"))):
                    has_guard = True
                if a is m:
                    break
                node = a
            blk_guard = False
            st = P.stmt_of(c)
            cur = st
            while cur is not None and cur is not m:
                blk = P.block_of(cur)
                if blk:
                    for s in blk[: blk.index(cur)]:
                        if isinstance(s, ast.If) and s.body and isinstance(s.body[-1], (ast.Return, ast.Raise)):
                            blk_guard = True
                cur = P.parent(cur)
            if not (has_guard or blk_guard):
                ok = False
                why = "the thunk call is under the lock but not controlled by an already-computed test in the same extent"
        ctx.ob("C13.R1", inst, DELAY, c.lineno, ok, why, witness="four concurrent derefs of a fresh delay run the body four times")
    _ = sites


def _publication_safe(cls, m, read_node, flag) -> bool:
    """An unlocked read of the value slot is safe only behind a true test of the delivered flag,
    and only if every writer stores the value *before* it sets the flag."""
    g = CFG(m)
    rn = [nd for nd in g.nodes if nd.kind in ("stmt", "test") and nd.ast is not None and P.contains(nd.ast, read_node)]

    def flag_true(a, b, lab):
        return a.kind == "test" and P.un(a.ast) == f"self.{flag}" and lab is True

    if not rn or not all(g.edge_dominated(x, flag_true) for x in rn):
        return False
    for w in P.all_methods(cls):
        if w.name == "__init__":
            continue
        stores = P.self_attr_stores(w)
        fl = [s for s, a in stores if a == flag]
        vs = [s for s, a in stores if a == read_node.attr]
        for f in fl:
            for v in vs:
                if v.lineno > f.lineno:
                    return False
    return True


@rule("C13.R2", floor=6)
def r2_promise_discipline(ctx):
    """Promise: every access to _value/_is_delivered outside __init__ is inside `with
    self._condition`; stores are guarded by `not self._is_delivered`; only True is ever stored to
    the flag; deref returns _value only on the true branch of wait_for."""
    cls = _cls(ctx, PROMISE, "Promise")
    locks = _lock_attrs(cls)
    if not locks:
        raise AnalysisError("Promise owns no lock/condition")
    init = P.methods(cls).get("__init__")
    fields = {attr for _s, attr in P.self_attr_stores(init)} - {l.split(".")[1] for l in locks}
    flag = next((f for f in fields if "deliver" in f or "done" in f or "set" in f), None)
    if flag is None:
        raise AnalysisError("cannot identify the delivered flag of Promise")
    for m in P.all_methods(cls):
        if m.name == "__init__":
            continue
        for n in ast.walk(m):
            if P.is_self_attr(n) and n.attr in fields:
                ok = _under(n, locks, m)
                kind = "store" if isinstance(n.ctx, ast.Store) else "read"
                if not ok and kind == "read" and n.attr == flag:
                    # an unlocked read of the monotone flag alone is harmless (it only ever goes False -> True)
                    ctx.ob("C13.R2", f"{PROMISE}::Promise.{m.name}::{kind}::{P.un(P.stmt_of(n))}::{n.attr}", PROMISE, n.lineno, True, "unlocked read of the monotone delivered flag")
                    continue
                if not ok and kind == "read" and _publication_safe(cls, m, n, flag):
                    ctx.ob("C13.R2", f"{PROMISE}::Promise.{m.name}::{kind}::{P.un(P.stmt_of(n))}::{n.attr}", PROMISE, n.lineno, True, "unlocked read behind the flag; deliver publishes the value before the flag")
                    continue
                ctx.ob("C13.R2", f"{PROMISE}::Promise.{m.name}::{kind}::{P.un(P.stmt_of(n))}::{n.attr}", PROMISE, n.lineno, ok,
                       "" if ok else f"{kind} of self.{n.attr} outside `with {sorted(locks)[0]}`")
        for stmt, attr in P.self_attr_stores(m):
            if attr not in fields:
                continue
            g = CFG(m)
            nodes = [nd for nd in g.nodes if nd.ast is stmt]

            def first_wins(a, b, lab, flag=flag):
                return a.kind == "test" and P.un(a.ast) == f"self.{flag}" and lab is False

            ok = bool(nodes) and all(g.edge_dominated(nd, first_wins) for nd in nodes)
            ctx.ob("C13.R2", f"{PROMISE}::Promise.{m.name}::first-wins::{P.un(stmt)}", PROMISE, stmt.lineno, ok,
                   "" if ok else f"store `{P.un(stmt)}` is reachable when self.{flag} is already true: a later deliver would overwrite the first")
            if attr == flag:
                v = getattr(stmt, "value", None)
                mono = isinstance(v, ast.Constant) and v.value is True
                ctx.ob("C13.R2", f"{PROMISE}::Promise.{m.name}::monotone::{P.un(stmt)}", PROMISE, stmt.lineno, mono,
                       "" if mono else "the delivered flag is assigned something other than True: realized? would not be monotone")
    # deref returns _value only when wait_for succeeded
    d = P.methods(cls).get("deref")
    if d is None:
        raise AnalysisError("anchor vanished: Promise.deref")
    g = CFG(d)
    for nd in g.nodes:
        if nd.kind == "stmt" and isinstance(nd.ast, ast.Return) and nd.ast.value is not None and any(P.is_self_attr(x) and x.attr in fields - {flag} for x in ast.walk(nd.ast.value)):
            def waited(a, b, lab, flag=flag):
                if a.kind != "test":
                    return False
                e = a.ast
                want = True
                while isinstance(e, ast.UnaryOp) and isinstance(e.op, ast.Not):  # `if not <waited>: return timeout_val`
                    e, want = e.operand, not want
                if lab is not want:
                    return False
                t = P.un(e)
                if t == f"self.{flag}":
                    return True
                if isinstance(e, ast.Call) and P.un(e.func).endswith(".wait_for") and e.args:
                    pred = e.args[0]
                    if isinstance(pred, ast.Lambda):
                        return P.un(pred.body) == f"self.{flag}"
                    if isinstance(pred, ast.Attribute) and P.is_self_attr(pred):
                        # a method of the class that answers the flag
                        hm = P.methods(cls).get(pred.attr)
                        rets_h = [P.un(r.value) for r in ast.walk(hm) if isinstance(r, ast.Return) and r.value is not None] if hm is not None else []
                        return rets_h == [f"self.{flag}"]
                return False

            ok = g.edge_dominated(nd, waited)
            ctx.ob("C13.R2", f"{PROMISE}::Promise.deref::value-only-after-delivery::{P.un(nd.ast)}", PROMISE, nd.line, ok,
                   "" if ok else "deref can return the value slot without the delivered predicate having held")


@rule("C13.R3", floor=1)
def r3_future_handler_conditioned(ctx):
    """Future.deref: a handler that returns a value other than the future's own result must be
    control-dependent on the future not being done (otherwise an exception raised by the body --
    concurrent.futures.TimeoutError is the builtin TimeoutError on Python >= 3.11 -- is swallowed)."""
    cls = _cls(ctx, FUTURES, "Future")
    d = P.methods(cls).get("deref")
    if d is None:
        raise AnalysisError("anchor vanished: Future.deref")
    g = CFG(d)
    n = 0
    for t in ast.walk(d):
        if not isinstance(t, ast.Try):
            continue
        for h in t.handlers:
            for r in ast.walk(h):
                if isinstance(r, ast.Return):
                    if r.value is not None and any(isinstance(c.func, ast.Attribute) and c.func.attr == "result" for c in P.calls(r.value)):
                        continue  # returns the future's own outcome
                    nodes = [nd for nd in g.nodes if nd.ast is r]

                    def not_done(a, b, lab):
                        return a.kind == "test" and P.un(a.ast).endswith(".done()") and lab is False

                    ok = bool(nodes) and all(g.edge_dominated(nd, not_done) for nd in nodes)
                    n += 1
                    ctx.ob("C13.R3", f"{FUTURES}::Future.deref::except {P.un(h.type) if h.type else ''}::{P.un(r)}", FUTURES, r.lineno, ok,
                           "" if ok else "the handler returns the timeout value whether or not the future is done: a TimeoutError raised by the body is swallowed",
                           witness="@(future (throw (python/TimeoutError \"t\"))) => nil")
    # the other half: when the future IS done, the handler must deliver the body's outcome
    # (self._future.result() -- its value, or the body's own exception); re-raising the caught
    # timeout reports a timeout the body never raised when the body finished between the wait
    # giving up and the done() test
    for t in ast.walk(d):
        if not isinstance(t, ast.Try):
            continue
        for h in t.handlers:
            tests = [nd for nd in g.nodes if nd.kind == "test" and P.un(nd.ast).endswith(".done()") and P.contains(h, nd.ast)]
            for tn in tests:
                done_succ = [m for m, lab in tn.succ if lab is True]
                reach = g.reach(done_succ, follow_exc=False)
                outs = [g.nodes[i] for i in reach if g.nodes[i].kind == "stmt" and isinstance(g.nodes[i].ast, (ast.Return, ast.Raise)) and P.contains(h, g.nodes[i].ast)]
                # only the exits reachable without passing the not-done edge again
                bad = [o for o in outs if not any(isinstance(c.func, ast.Attribute) and c.func.attr == "result" for c in P.calls(o.ast))
                       and g.edge_dominated(o, lambda a, b, lab, tn=tn: a is tn and lab is True)]
                n += 1
                ctx.ob("C13.R3", f"{FUTURES}::Future.deref::except {P.un(h.type) if h.type else ''}::a done future yields its body's outcome", FUTURES, tn.line, not bad,
                       "" if not bad else f"when the future is done the handler leaves with `{P.un(bad[0].ast)}` instead of the future's own result: a body that finished just after the wait gave up is reported as timed out",
                       witness="a timed deref whose wait expires in the instant the body completes")
    if n == 0:
        # no swallowing handler at all: record the fact as one discharged obligation
        ctx.ob("C13.R3", f"{FUTURES}::Future.deref::no-returning-handler", FUTURES, d.lineno, True, "no handler returns a substitute value")


@rule("C13.R4", floor=3)
def r4_realized_sources(ctx):
    """realized?: Delay.is_realized reads the computed flag of the state record; Promise.is_realized
    returns the delivered flag; Future.is_realized is done() of the wrapped future."""
    dc = _cls(ctx, DELAY, "Delay")
    m = P.methods(dc).get("is_realized")
    if m is None:
        raise AnalysisError("anchor vanished: Delay.is_realized")
    rets = [r for r in ast.walk(m) if isinstance(r, ast.Return)]
    ok = len(rets) >= 1 and all(r.value is not None and "computed" in P.un(r.value) for r in rets)
    ctx.ob("C13.R4", f"{DELAY}::Delay.is_realized::{' ; '.join(P.un(r) for r in rets)}", DELAY, m.lineno, ok, "" if ok else "is_realized does not read the computed flag")
    pc = _cls(ctx, PROMISE, "Promise")
    m = P.methods(pc).get("is_realized")
    if m is None:
        raise AnalysisError("anchor vanished: Promise.is_realized")
    rets = [r for r in ast.walk(m) if isinstance(r, ast.Return)]
    ok = len(rets) >= 1 and all(r.value is not None and P.is_self_attr(r.value) and "deliver" in r.value.attr for r in rets)
    ctx.ob("C13.R4", f"{PROMISE}::Promise.is_realized::{' ; '.join(P.un(r) for r in rets)}", PROMISE, m.lineno, ok, "" if ok else "is_realized is not the delivered flag")
    fc = _cls(ctx, FUTURES, "Future")
    ms = P.methods(fc)
    m = ms.get("is_realized")
    dn = ms.get("done")
    if m is None or dn is None:
        raise AnalysisError("anchor vanished: Future.is_realized/done")
    r1 = [r for r in ast.walk(m) if isinstance(r, ast.Return)]
    r2 = [r for r in ast.walk(dn) if isinstance(r, ast.Return)]
    ok = all(r.value is not None and P.un(r.value) in ("self.done()", "self._future.done()") for r in r1) and all(r.value is not None and P.un(r.value) == "self._future.done()" for r in r2) and r1 and r2
    ctx.ob("C13.R4", f"{FUTURES}::Future.is_realized::{' ; '.join(P.un(r) for r in r1 + r2)}", FUTURES, m.lineno, bool(ok), "" if ok else "is_realized/done do not reflect the wrapped future's done()")
    # Future.deref's normal path returns the wrapped result (value or re-raise)
    d = ms.get("deref")
    rr = [r for r in ast.walk(d) if isinstance(r, ast.Return) and r.value is not None and any(isinstance(c.func, ast.Attribute) and c.func.attr == "result" and P.un(c.func.value) == "self._future" for c in P.calls(r.value))]
    ctx.ob("C13.R4", f"{FUTURES}::Future.deref::returns-wrapped-result", FUTURES, d.lineno, bool(rr), "" if rr else "deref no longer returns self._future.result(...)")


RT = "src/basilisp/lang/runtime.py"


@rule("C13.R5", floor=2)
def r5_timeout_reaches_the_wait_primitive_as_a_float(ctx):
    """Whether a timed deref returns the timeout value or the delivered value must depend on what
    was delivered in time -- not on the *type* of the number of milliseconds.  Condition.wait_for
    and Future.result take a float (or an int) of at most threading.TIMEOUT_MAX seconds; a Ratio
    (int / int in Basilisp), a BigDecimal or 2^63-1 passed through `x / 1000` unchanged raise
    TypeError / OverflowError, and only while the promise or future is still pending.  So in
    runtime._deref_blocking the milliseconds flow into the seconds only through float(), and the
    result is bounded by TIMEOUT_MAX."""
    fn = ctx.fn(RT, "_deref_blocking")
    params = [a.arg for a in fn.args.args]
    if len(params) < 2:
        raise AnalysisError("_deref_blocking changed signature")
    ms = params[1]
    call = next((c for c in P.calls(fn) if isinstance(c.func, ast.Attribute) and c.func.attr == "deref" and c.args), None)
    if call is None or not isinstance(call.args[0], ast.Name):
        raise AnalysisError("_deref_blocking no longer forwards a local to o.deref(...)")
    var = call.args[0].id
    vals = [a.value for a in ast.walk(fn) if isinstance(a, (ast.Assign, ast.AnnAssign)) and a.value is not None and P.un(a.targets[0] if isinstance(a, ast.Assign) else a.target) == var]
    vals = [v for v in vals if not (isinstance(v, ast.Constant) and v.value is None)]
    if not vals:
        raise AnalysisError(f"_deref_blocking never computes `{var}`")

    def raw_uses(e):
        """occurrences of the milliseconds parameter that are not inside float(...)"""
        if isinstance(e, ast.Call) and P.un(e.func) == "float":
            return 0
        if isinstance(e, ast.Name) and e.id == ms:
            return 1
        if isinstance(e, ast.Compare):
            return 0  # a comparison yields a bool, the value does not flow on
        if isinstance(e, ast.IfExp):
            return raw_uses(e.body) + raw_uses(e.orelse)
        return sum(raw_uses(c) for c in ast.iter_child_nodes(e))
    bad = [v for v in vals if raw_uses(v)]
    ctx.ob("C13.R5", f"{RT}::_deref_blocking::the milliseconds reach the seconds only through float()", RT, fn.lineno, not bad,
           "" if not bad else f"`{P.un(bad[0])}` hands the caller's number on as it is: a Ratio or BigDecimal timeout raises TypeError in the wait primitive, but only if the promise or future is still pending",
           witness="(deref (promise) 1001/2 :to) => TypeError: 'Fraction' object cannot be interpreted as an integer")
    bounded = "TIMEOUT_MAX" in P.un(vals[-1])  # the assignment that reaches the call last
    ctx.ob("C13.R5", f"{RT}::_deref_blocking::the seconds are bounded by threading.TIMEOUT_MAX", RT, fn.lineno, bounded,
           "" if bounded else "a large timeout (Long/MAX_VALUE milliseconds, ##Inf) raises OverflowError: timestamp out of range in the wait primitive",
           witness="(deref (future (time/sleep 0.2) :v) 9223372036854775807 :to) => OverflowError")


SELFTEST = [
    {"name": "timeout divided but not converted (the repaired defect)", "file": RT, "expect": "C13.R5",
     "old": "        timeout_s = min(max(float(timeout_ms) / 1000, 0.0), threading.TIMEOUT_MAX)\n", "new": "        timeout_s = timeout_ms / 1000 if timeout_ms != 0 else 0\n"},
    {"name": "twin: conversion spelled in two steps", "file": RT, "expect": None,
     "old": "        timeout_s = min(max(float(timeout_ms) / 1000, 0.0), threading.TIMEOUT_MAX)\n", "new": "        timeout_s = float(timeout_ms) / 1000.0\n        timeout_s = min(max(timeout_s, 0.0), threading.TIMEOUT_MAX)\n"},
    {"name": "delay lock removed (the repaired defect)", "file": DELAY, "expect": "C13.R1",
     "old": "        with self._lock:\n            return self._state.swap(self.__deref).value\n", "new": "        return self._state.swap(self.__deref).value\n"},
    {"name": "delay fast path calls thunk outside lock", "file": DELAY, "expect": "C13.R1",
     "old": "        with self._lock:\n            return self._state.swap(self.__deref).value\n",
     "new": "        st = self._state.deref()\n        if not st.computed:\n            self._state.reset(self.__deref(st))\n        with self._lock:\n            return self._state.swap(self.__deref).value\n"},
    {"name": "twin: realized? reads the monotone flag without the condition", "file": PROMISE, "expect": None,
     "old": "        with self._condition:\n            return self._is_delivered\n", "new": "        return self._is_delivered\n"},
    {"name": "promise deliver overwrites", "file": PROMISE, "expect": "C13.R2",
     "old": "            if not self._is_delivered:\n                self._is_delivered = True\n                self._value = value\n                self._condition.notify_all()\n",
     "new": "            self._is_delivered = True\n            self._value = value\n            self._condition.notify_all()\n"},
    {"name": "promise value written before the guard", "file": PROMISE, "expect": "C13.R2",
     "old": "            if not self._is_delivered:\n                self._is_delivered = True\n                self._value = value\n",
     "new": "            self._value = value\n            if not self._is_delivered:\n                self._is_delivered = True\n"},
    {"name": "promise flag reset", "file": PROMISE, "expect": "C13.R2",
     "old": "                self._is_delivered = True\n", "new": "                self._is_delivered = value is not None\n"},
    {"name": "promise deref returns value on timeout", "file": PROMISE, "expect": "C13.R2",
     "old": "                return self._value\n            else:\n                return timeout_val\n", "new": "                return self._value\n            else:\n                return self._value or timeout_val\n"},
    {"name": "future swallows when done (the repaired defect)", "file": FUTURES, "expect": "C13.R3",
     "old": "            if self._future.done():\n                return self._future.result()\n            return timeout_val\n", "new": "            return timeout_val\n"},
    {"name": "future broad handler", "file": FUTURES, "expect": "C13.R3",
     "old": "        except _TimeoutError:\n            if self._future.done():\n                return self._future.result()\n            return timeout_val\n",
     "new": "        except Exception:\n            return timeout_val\n"},
    {"name": "future realized? from cancelled", "file": FUTURES, "expect": "C13.R4",
     "old": "    def is_realized(self) -> bool:\n        return self.done()\n", "new": "    def is_realized(self) -> bool:\n        return not self._future.running()\n"},
    {"name": "seeded C13/a: unlocked fast path reads the value while deliver sets the flag first", "file": PROMISE, "expect": "C13.R2",
     "old": "        with self._condition:\n            if self._condition.wait_for(", "new": "        if self._is_delivered:\n            return self._value\n        with self._condition:\n            if self._condition.wait_for("},
    {"name": "seeded C13/b: delay recomputes from a snapshot taken before the lock", "file": DELAY, "expect": "C13.R1",
     "old": "        with self._lock:\n            return self._state.swap(self.__deref).value\n",
     "new": "        state = self._state.deref()\n        if state.computed:\n            return state.value\n        with self._lock:\n            return self._state.reset(self.__deref(state)).value\n"},
    # twins
    {"name": "twin: unlocked fast path with value published before the flag", "file": PROMISE, "expect": None,
     "edits": [
         {"file": PROMISE, "old": "                self._is_delivered = True\n                self._value = value\n", "new": "                self._value = value\n                self._is_delivered = True\n"},
         {"file": PROMISE, "old": "        with self._condition:\n            if self._condition.wait_for(", "new": "        if self._is_delivered:\n            return self._value\n        with self._condition:\n            if self._condition.wait_for("},
     ]},
    {"name": "twin: double-checked delay", "file": DELAY, "expect": None,
     "old": "        with self._lock:\n            return self._state.swap(self.__deref).value\n",
     "new": "        st = self._state.deref()\n        if st.computed:\n            return st.value\n        with self._lock:\n            return self._state.swap(self.__deref).value\n"},
    {"name": "twin: negated done test", "file": FUTURES, "expect": None,
     "old": "            if self._future.done():\n                return self._future.result()\n            return timeout_val\n",
     "new": "            if not self._future.done():\n                return timeout_val\n            return self._future.result()\n"},
    {"name": "twin: promise early return", "file": PROMISE, "expect": None,
     "old": "            if not self._is_delivered:\n                self._is_delivered = True\n                self._value = value\n                self._condition.notify_all()\n",
     "new": "            if self._is_delivered:\n                return\n            self._is_delivered = True\n            self._value = value\n            self._condition.notify_all()\n"},
]
